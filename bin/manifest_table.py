# Table read by bin/mkmanifest.
ENGINES = [
 {"name": "E1-refmodel", "path": "harness/internal/refmodel", "serves_properties": ["C01","C02","C03","C09","C18"], "kind_free_text": "reference-model monitor: the real result and full observable state are compared with a sequential map model after every step of generated histories"},
 {"name": "E3-race", "path": "bin/check", "serves_properties": ["C06","C11","C12","C14","C15","C16"], "kind_free_text": "Go race detector (-race) over hostile concurrent workloads; any report is a violation"},
]
NOTES = "All checks are runtime monitors over executions of the real code (see DESIGN.md). Exit 2 from bin/check means a broken or inconclusive run, never a verdict."
NOT_APPLICABLE = {}

chk("C07", "exploration", "E1-refmodel",
    "differential runtime monitor: real acl.Match/Allow vs an independent DP glob matcher, bounded-exhaustive over a hostile alphabet plus random Unicode and random rule sets",
    "Every (pattern, name) pair over a 13-symbol alphabet (incl. '*', '/', '.', newline, regexp metacharacters, a 2-byte rune) up to length 3x3 (quick) / 4x4 on 9 symbols and 3x4 on 13 (thorough) is run through the real matcher and compared with an independent matcher; beyond the bound, random Unicode pairs and random rule sets. Exhaustive within the bound, sampled outside it.",
    "Trusted: the 25-line DP matcher in harness/internal/refmodel as the meaning of 'glob'; inputs restricted to valid UTF-8 as the property states.",
    "DESIGN.md section 4, C07")

chk("C01", "exploration", "E1-refmodel",
    "reference-model runtime monitor (map model + independent glob matcher) over generated (state, rule set) cases; every operation x every name at the DB API and through the real HTTP handlers, oracle after every call",
    "For hundreds (quick) / thousands (thorough) of generated database states and rule sets, all 9 operations are issued on all names of a hostile pool (existing, absent, empty, reserved, newline, literal '*') with several version arguments, at the db.DB API and through the handlers registered by server.New with the rules delivered by a scripted WhoIs. After every call the monitor compares outcome class and payload with the model, the full state (dump as superuser) with the model state, the refusal text/status+body with the same call on an empty twin database, and scans refusals and metadata for marker values. Sampled, not exhaustive.",
    "Trusted: harness/internal/refmodel (model + DP glob matcher). Callers and rule sets are sampled; for a request that is both unauthorised and ill-formed either the denied class or another error class is accepted.",
    "DESIGN.md section 4, C01")
chk("C02", "exploration", "E1-refmodel",
    "reference-model runtime monitor: generated operation histories applied in lock-step to the real db.DB and a sequential map model, result + full state compared after every step",
    "Thousands of seeded histories of 30-60 operations (all 9 operations; names incl. empty and reserved; values incl. empty and repeats; version arguments biased to 0/active/latest/latest+1/deleted) are executed on the real database; after every step the result and the complete observable state are compared with the model, and three invariants (put result immediately retrievable, issued versions never go back, failed calls change nothing) are evaluated on the real state alone. Named hard shapes (delete newest then put again / put empty, activate backwards, delete-and-recreate, duplicate of older value) must each have occurred or the run is broken.",
    "Trusted: the ~150-line map model written from the property statement. Sampled histories, not exhaustive.",
    "DESIGN.md section 4, C02")
chk("C03", "exploration", "E1-refmodel",
    "reference-model runtime monitor with a real stop/restart (second db.Open) after every single operation, next-version probe on a copy, file hash/inode/mtime before vs after Open, plus fixture files written by the pinned commit",
    "After every operation of generated histories the file is reopened with the same key and the reopened state must equal the model state reached by the acknowledged operations, the next put on every name (on a copy) must receive latest+1, and the file must be bit-for-bit, inode and mtime unchanged by Open. Six fixture databases written by the pinned commit (two key kinds; empty, small with deleted/non-1-active/recreated secrets, 200 secrets) must open with identical contents and counters.",
    "Trusted: the map model; 'earlier build' is the pinned commit only; restart = second Open in the same process while the first handle is idle.",
    "DESIGN.md section 4, C03")

ENGINES += [
 {"name": "E4-virtual-time", "path": "harness/internal/fakesvc", "serves_properties": ["C10","C11","C12","C13","C15","C16","C17","C19","C20"], "kind_free_text": "trace checker over the request log of a scripted StoreClient / S3 endpoint, on virtual time (testing/synctest) or an injected clock; predicates over the log and over what handles, caches and return values show"},
]
VT = "Trusted: testing/synctest virtual time and the scripted service in harness/internal/fakesvc (always honours ctx). "
chk("C10", "exploration", "E4-virtual-time",
    "virtual-time trace checker (testing/synctest): NewStore against a scripted service; predicates over the stamped request log and the instant/result of the return",
    "Tens of thousands of generated configurations (declared-name sets with duplicates via Secrets and run-time generated tagged structs; 14 kinds of cache content incl. partially well-typed invalid documents; per-secret failure/recovery scripts over virtual time; background/deadline/cancel contexts; scripted client and real FileClient; misconfigurations) run inside synctest bubbles. Checked: nil return only with every declared value present and from the right source, no request for a name already obtained or supplied by a valid cache, pauses between rounds <= 5 s, zero requests and zero elapsed time with a complete cache, return <= 100 ms (virtual) after the context ends and never earlier with an error, bounded progress once scripts turn ok, immediate failure with a FileClient lacking a secret, misconfiguration rejected up front without panic.",
    VT + "'A few seconds' = 5 s; 'promptly' = 100 ms virtual; unbounded 'keeps retrying' restated as bounded progress.",
    "DESIGN.md section 4, C10")
chk("C11", "exploration", "E4-virtual-time",
    "virtual-time trace checker over a scripted service with a version timeline + real server/client histories under the race detector",
    "A: generated histories of service changes (forwards, backwards, bursts, inside a held request), polls with per-request failure/hold scripts, lookups, sleeps past the expiry age with live unread handles; after every nil Refresh each known secret's cached (version, bytes) must have been the service's active pair at some instant of that poll's window, failed polls must change nothing, a final clean poll must converge exactly, handles and cache must agree. Background cadence within +/-10% over 12 intervals per store, K overlapping refreshes = one round of requests, a joined caller never gets nil from a cut-short poll. B: real db+server+HTTP client, random server-side histories alternating with Refresh, handles must equal DB.Get.",
    VT + "Freshness judged by version number (service never reuses a number for other bytes); window = [Refresh call, return].",
    "DESIGN.md section 4, C11")
chk("C12", "exploration", "E3-race",
    "Go race detector + online value monitors over concurrent readers vs pollers/lookups/expiry/Close; parked-request probe with stack-sample witness",
    "16 reader goroutines validate every value returned by handles (self-describing name|serial|random|crc values, so torn, foreign and never-served bytes are recognised), per-reader and cross-reader install-order monotonicity, read-after-completed-poll freshness (sole-poller mode), while a background poller on a fast ticker, explicit refreshers, an ever-changing service, lookups, expiry sweeps and Close run concurrently under -race; readers continue after Close. Probes: while one request of a poll/lookup is parked in the service, 100 calls of every handle must complete; handles obtained mid-poll for stale cached secrets must survive the poll.",
    "Race freedom and ordering are claimed only for the interleavings the stress produced (counts in evidence). A stuck probe is a violation only with the prober on the store mutex in three consecutive stack samples; otherwise inconclusive.",
    "DESIGN.md section 4, C12")
chk("C15", "exploration", "E4-virtual-time",
    "monitor objects (instrumented builder and io.Closer values) over sequential histories with exact expectations + concurrent Get/install runs under the race detector",
    "Sequential: up to 5 updaters on 2 secrets; installs (0..4 between Gets, some with a failing cache write), updaters created while an install lands during their initial build, scripted builder failures; per Get: builder invoked iff an install happened since the previous Get/creation, with the newest installed bytes, previous value and Err on failure, Err cleared after success, replaced values closed exactly once and the current one never. Concurrent: 8 Get goroutines vs an installer; a Get that began after install k completed must return a value built from install >= k; final value newest; close counts.",
    "An install is observed at the store boundary (bytes yielded by a handle changed across a Refresh). Gets overlapping an install may return either value.",
    "DESIGN.md section 4, C15")
chk("C16", "exploration", "E4-virtual-time",
    "virtual-time trace checker (testing/synctest) with an in-flight gauge at the scripted service + real-time lookup stress under the race detector",
    "Generated cases with both AllowLookup settings, service modes (ok, slow, fail, fail-then-ok, hang for ever, not found) and 1-6 callers per name (LookupSecret/NewUpdater/Fields.Apply; background, deadline, cancelled contexts; staggered starts). Checked: disabled => Secret panics, the others error, zero requests; enabled => at most one request in flight per name, simultaneous callers of a healthy service share exactly one request, every nil return yields the served bytes, installed iff a request returned a value (then polled and cached, else absent from store and cache), no request strictly after the last caller returned, callers without deadline answered within 5 min (+1 s) of their own call, and an error returned while the caller's own context is alive must be explained by a real failure of a request overlapping its call.",
    VT + "The pinned tree violated the 5-minute clause (fixed in /repo commit 432795b).",
    "DESIGN.md section 4, C16")
chk("C19", "exploration", "E1-refmodel",
    "reference-model monitor on an injected whole-second clock across process restarts; presence observed via every cache payload, the request log and Secret()",
    "Histories of lookups, reads, handle/watcher creation (also while a poll is in flight), service changes, polls, clock jumps around the expiry age and restarts from the last payload with changing declared sets and ages {0,-1s,1s,1h,30d}; start-up caches with stamps 0/stale/fresh/future. A name may disappear only at a poll and only if the model says undeclared, age configured, unread for longer than the age and never handed out; every payload's lastAccess must equal the model's last read; kept secrets must still be polled, dropped ones never again; stamps must survive a clean shutdown.",
    "Keeping a secret the rule allows to drop is not a violation ('only if'). Clock steps are whole seconds.",
    "DESIGN.md section 4, C19")

ENGINES += [
 {"name": "E5-sysfault", "path": "harness/internal/sysfault", "serves_properties": ["C04","C05","C13"], "kind_free_text": "ptrace system-call monitor and fault injector written in Go: logs every file-system call of a child performing ONE real operation (global order, fd tracking) and can kill the child before/after the k-th call, fail it with an errno without executing it, or turn a write into a real short write"},
]
chk("C04", "fault_enumeration", "E5-sysfault",
    "ptrace system-call monitor + exhaustive fault enumeration (kill before/after, errno, real short write) over every file-system call of a real save",
    "For every kind of mutating operation (database creation, first put, new version, activate, delete-version, delete, a 250 kB database; thorough: multi-megabyte databases and edge states) a child process performs the real call under a ptrace monitor. The fault-free trace must show: temp file in the live file's directory, written, fsync returned 0 after the last write and before the rename, live file never opened for writing. Then EVERY watched call is visited as kill-before, kill-after, a list of errnos, and for writes as real short writes (1, half, len-1) with and without a kill. After a kill the file must open to exactly the pre- or post-state, and after a restart in the same directory (leftovers kept) one more mutating call must leave exactly its post-state; when the call reports an error, the served state and a fresh Open of the file must be the pre-state, the live file untouched, and a retry must succeed and reach the post-state; when it reports success, file and served state must be the post-state.",
    "Crash model = process kill at system-call boundaries and after short writes, not power loss; fsync is checked as an ordering fact. Errors are errnos the kernel can return for the call, delivered without executing it. Enumeration is exhaustive over each recorded trace.",
    "DESIGN.md section 4, C04")
chk("C13", "exploration", "E4-virtual-time",
    "monitor cache + scripted service: restart-from-payload after every step, FileClient cross-check, mutational fuzzing of cache contents, parked-cache-write interleavings, and E5 crash/error enumeration of FileCache.Write",
    "After every installing step (initial fetch, lookup, poll, shutdown; some with failing cache writes) the last payload must be one complete document of exactly the known names with current version+bytes; a store restarted from it with an unreachable service must serve the same; NewFileClient must agree on non-empty secrets. Thousands of documents mutated around the valid format (incl. JSON null, wrong types, duplicate/empty keys, case variants, every truncation of two documents) must never panic or fail a start, and must be used / ignored / either according to a three-way classification. Two overlapping installs with the first cache write parked must end with the newest state in the cache. FileCache.Write under ptrace: every system call as kill point, error point and short write: file is the old or the new document, 0600, never written in place.",
    "The classification of 'well-formed' is deliberately three-valued (see DESIGN.md); crash model as C04.",
    "DESIGN.md section 4, C13")
chk("C20", "exploration", "E4-virtual-time",
    "run-time generated struct types (reflect.StructOf) against a scripted service; expected field contents computed independently",
    "Tens of thousands of generated struct shapes (1-8 fields in random order from 8 supported kinds, 7 unsupported kinds, 5 untagged kinds with sentinels, optional embedded struct; fields sharing a secret; 4 prefixes; failing fields: bad/trailing-garbage/double JSON, UnmarshalBinary errors), through StoreConfig.Structs and ParseFields+Apply. Checked: names requested == path.Join(prefix, tag) set, each field's content, untagged fields untouched, unsupported shapes rejected up front without requests or panic, a failing field reported while all others are filled, overwriting a populated []byte field changes neither the store nor sibling fields, Secret fields follow later polls.",
    "Arguments stay within the documented precondition (non-nil pointers, exported tagged fields, clean names).",
    "DESIGN.md section 4, C20")

ENGINES += [
 {"name": "E2-linearizability", "path": "harness/c14", "serves_properties": ["C14"], "kind_free_text": "history recorder at the client boundary (atomic logical clock) + porcupine v1.3.0 linearizability checker with the map model as sequential specification"},
 {"name": "E6-scan", "path": "harness/internal/scan", "serves_properties": ["C05"], "kind_free_text": "byte scanner over every file written (raw, hex, JSON-escaped, base64 in all alignments, two layers) and mode-bit walker; tamper loop"},
]
chk("C05", "exploration", "E6-scan",
    "byte scanners over all files after every operation and at every crash point of a save + counting proxy around a real AES256-GCM KEK + exhaustive single-bit-flip/truncation/splice tamper loop",
    "Histories with 24-byte high-entropy marker names and values on a state directory holding the database and a real audit log (umask 0): after EVERY operation every file is searched for every marker in raw, hex, JSON-escaped and base64 form (all three alignments, two layers) and its mode bits are checked; the KEK proxy's call counter must not move after Open (also after a mid-history reopen). Tamper loop on saved files under real and dummy KEKs: every single-bit flip, every truncation length, degenerate contents, version edits, DEK/DB splices between databases under the same and under different KEKs, foreign KEKs: Open must fail or yield exactly the original contents, and must not rewrite the damaged file. Every crash point of a save is scanned for plaintext in leftovers (E5).",
    "Only the listed encodings are searched; rollback to an older valid snapshot is excluded by the property.",
    "DESIGN.md section 4, C05")
chk("C06", "exploration", "E3-race",
    "monitor audit sink (captures each record with a hash of the database file at that instant, counts syncs, scriptable Write/Sync failure) over sequential histories + 16-goroutine run on a real audit file under the race detector",
    "Per call the records that reached the sink between invocation and return are compared with an expectation table (exactly one complete JSON line with principal, action, secret, version, authorized = model decision; none for an unchanged conditional get or an ill-formed put/activate; list = one info record). For mutations the database file must still have its pre-call bytes when the record arrives, and a Sync must follow before the return. In a third of the histories the Write or the Sync of one chosen record fails: the call must return no value, report failure and leave stored state unchanged. Concurrent part: unique (user, secret) per request on audit.NewFile; every line must parse alone and the multiset of records must equal the expected one.",
    "For reads 'logged before returned' is observable only as fail-closedness. A failing Write may poison the writer for good (accepted).",
    "DESIGN.md section 4, C06")
chk("C08", "exploration", "E1-refmodel",
    "in-process drive of the real handlers over the request product (endpoint x method x content type x browser header x WhoIs script x body), gate monitor (state dump + audit sink bytes) and reference model for accepted requests",
    "The product of 7 methods x 6 content types x 5 browser-header values x 13 WhoIs scripts x 13 body kinds is enumerated for /api/get and /api/put (multi-gate combinations thinned in quick) and sampled for the other five endpoints, all from one source address so identity must be re-derived per request. Gate violations must be non-2xx, write no audit record, change no state and carry no marker; accepted requests must map to 200+decodable result / 304 empty / 403 / 404 / other 4xx-5xx exactly as the model with the ACL computed from the scripted capability map says; the audit principal must be the tailnet's answer; the real Client's error mapping is checked on top.",
    "Bodies the property does not classify are grey (either a 4xx without side effects or the mapping for the decoded request). WhoIs answers keep Node/UserProfile non-nil.",
    "DESIGN.md section 4, C08")
chk("C09", "exploration", "E1-refmodel",
    "reference-model monitor over histories with conditional gets for every interesting V through three front ends + concurrent toggle run",
    "After every step of generated put/activate(forwards, backwards)/delete-version/delete/recreate histories, get-if-changed is issued with V in {0, 1, active, every number up to latest (existing and deleted), latest+1, 2^32-1} on both names and an absent one through db.GetConditional, HTTP handler + setec.Client and a FileClient on a document generated from the model, plus a caller without get permission; outcome class, version and bytes are compared with the model. Concurrent part: while the active version is toggled, a conditional get with V must never deliver version V itself.",
    "For the FileClient the 'service' is the static document (non-empty values).",
    "DESIGN.md section 4, C09")
chk("C14", "exploration", "E2-linearizability",
    "recorded concurrent histories (client-boundary stamps) decided by porcupine against the map model, under the Go race detector, with the audit sink as delay injector",
    "Hundreds (quick) / tens of thousands (thorough) of small concurrent histories in three shapes (global with list over 32 names, per-key with all operations, spin-synchronised same-value put bursts), at the db.DB API and through the HTTP handlers, each followed by a final sequential full-state read; each history is decided exactly (exhaustive linearizability search, 60 s budget, timeouts counted as inconclusive). Any race-detector report is a violation.",
    "Exact per history, but only for the schedules the stress produced; evidence reports distinct overlap patterns, lists overlapping two puts and overlapping same-value puts.",
    "DESIGN.md section 4, C14")
chk("C17", "exploration", "E4-virtual-time",
    "the real backup loop (verif hook) inside a synctest bubble against an in-memory S3 endpoint; predicates over the stamped request log; spin watchdog outside the bubble",
    "Generated timelines over virtual hours: sleeps around the one-minute boundary, bursts of real database writes with a file snapshot after every save, endpoint modes (ok, 403, 500 with SDK retries, held uploads with a write landing inside), a quiet tail, an idle hour, cancellation at a random point (also mid-upload). Checked: upload at start-up; every body byte-identical to a file that existed during the upload and opening with the server's key; uploads >= 60 s apart; no upload without a write since the last successful one began; failed uploads retried within a minute; newest backup = current file five minutes after writes and failures stop; no request during an idle hour; loop gone once cancellation has settled. A spinning loop is diagnosed by the watchdog (CPU + stack samples). One real-time smoke case through server.New.",
    "VT: testing/synctest; SDK-internal retries grouped by invocation id. The pinned tree span and ignored cancellation (fixed in /repo commit ee5abb5).",
    "DESIGN.md section 4, C17")
chk("C18", "exploration", "E1-refmodel",
    "byte-equality oracle over every retrieval path (incl. restart) + the built CLI binary executed against a logging loopback server with an independent text/whitespace oracle",
    "Byte strings of all stated classes (every single byte, empty, whitespace shapes incl. Unicode, NULs, invalid UTF-8, look-alikes, random binary up to 4 MiB) are put through the real Client and read back through Get, GetVersion, a Store handle, the FileCache file, a FileClient on it, and all again after reopening the database behind a new server. The cmd/setec binary (rebuilt from the tree) runs with all 8 flag combinations from file and pipe; an independent oracle decides send-verbatim / send-trimmed / refuse; refusals must not contact the server, accepted puts must store exactly the expected bytes with one request.",
    "With both --verbatim and --trim-space either result is accepted.",
    "DESIGN.md section 4, C18")
