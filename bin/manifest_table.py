# Table read by bin/mkmanifest.
ENGINES = [
 {"name": "E1-refmodel", "path": "harness/internal/refmodel", "serves_properties": ["C01","C02","C03","C09","C18"], "kind_free_text": "reference-model monitor: the real result and full observable state are compared with a sequential map model after every step of generated histories"},
 {"name": "E3-race", "path": "bin/check", "serves_properties": ["C06","C11","C12","C14","C15","C16"], "kind_free_text": "Go race detector (-race) over hostile concurrent workloads; any report is a violation"},
]
NOTES = "All checks are runtime monitors over executions of the real code (see DESIGN.md). Exit 2 from bin/check means a broken or inconclusive run, never a verdict."
NOT_APPLICABLE = {}

chk("C07", "exploration", "E1-refmodel",
    "differential runtime monitor: real acl.Match/Allow vs an independent DP glob matcher, bounded-exhaustive over a hostile alphabet plus random Unicode and random rule sets",
    "Every (pattern, name) pair over a 13-symbol alphabet (incl. '*', '/', '.', newline, regexp metacharacters, a 2-byte rune) up to length 3x3 (quick) / 4x4 on 9 symbols and 3x4 on 13 (thorough) is run through the real matcher and compared with an independent matcher; beyond the bound, random Unicode pairs and random rule sets. Exhaustive within the bound, sampled outside it.",
    "Trusted: the 25-line DP matcher in harness/internal/refmodel as the meaning of 'glob'; inputs restricted to valid UTF-8 as the property states.",
    "DESIGN.md section 4, C07")
