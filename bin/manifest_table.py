# Table read by bin/mkmanifest.
ENGINES = [
 {"name": "E1-refmodel", "path": "harness/internal/refmodel", "serves_properties": ["C01","C02","C03","C09","C18"], "kind_free_text": "reference-model monitor: the real result and full observable state are compared with a sequential map model after every step of generated histories"},
 {"name": "E3-race", "path": "bin/check", "serves_properties": ["C06","C11","C12","C14","C15","C16"], "kind_free_text": "Go race detector (-race) over hostile concurrent workloads; any report is a violation"},
]
NOTES = "All checks are runtime monitors over executions of the real code (see DESIGN.md). Exit 2 from bin/check means a broken or inconclusive run, never a verdict."
NOT_APPLICABLE = {}

chk("C07", "exploration", "E1-refmodel",
    "differential runtime monitor: real acl.Match/Allow vs an independent DP glob matcher, bounded-exhaustive over a hostile alphabet plus random Unicode and random rule sets",
    "Every (pattern, name) pair over a 13-symbol alphabet (incl. '*', '/', '.', newline, regexp metacharacters, a 2-byte rune) up to length 3x3 (quick) / 4x4 on 9 symbols and 3x4 on 13 (thorough) is run through the real matcher and compared with an independent matcher; beyond the bound, random Unicode pairs and random rule sets. Exhaustive within the bound, sampled outside it.",
    "Trusted: the 25-line DP matcher in harness/internal/refmodel as the meaning of 'glob'; inputs restricted to valid UTF-8 as the property states.",
    "DESIGN.md section 4, C07")

chk("C01", "exploration", "E1-refmodel",
    "reference-model runtime monitor (map model + independent glob matcher) over generated (state, rule set) cases; every operation x every name at the DB API and through the real HTTP handlers, oracle after every call",
    "For hundreds (quick) / thousands (thorough) of generated database states and rule sets, all 9 operations are issued on all names of a hostile pool (existing, absent, empty, reserved, newline, literal '*') with several version arguments, at the db.DB API and through the handlers registered by server.New with the rules delivered by a scripted WhoIs. After every call the monitor compares outcome class and payload with the model, the full state (dump as superuser) with the model state, the refusal text/status+body with the same call on an empty twin database, and scans refusals and metadata for marker values. Sampled, not exhaustive.",
    "Trusted: harness/internal/refmodel (model + DP glob matcher). Callers and rule sets are sampled; for a request that is both unauthorised and ill-formed either the denied class or another error class is accepted.",
    "DESIGN.md section 4, C01")
chk("C02", "exploration", "E1-refmodel",
    "reference-model runtime monitor: generated operation histories applied in lock-step to the real db.DB and a sequential map model, result + full state compared after every step",
    "Thousands of seeded histories of 30-60 operations (all 9 operations; names incl. empty and reserved; values incl. empty and repeats; version arguments biased to 0/active/latest/latest+1/deleted) are executed on the real database; after every step the result and the complete observable state are compared with the model, and three invariants (put result immediately retrievable, issued versions never go back, failed calls change nothing) are evaluated on the real state alone. Named hard shapes (delete newest then put again / put empty, activate backwards, delete-and-recreate, duplicate of older value) must each have occurred or the run is broken.",
    "Trusted: the ~150-line map model written from the property statement. Sampled histories, not exhaustive.",
    "DESIGN.md section 4, C02")
chk("C03", "exploration", "E1-refmodel",
    "reference-model runtime monitor with a real stop/restart (second db.Open) after every single operation, next-version probe on a copy, file hash/inode/mtime before vs after Open, plus fixture files written by the pinned commit",
    "After every operation of generated histories the file is reopened with the same key and the reopened state must equal the model state reached by the acknowledged operations, the next put on every name (on a copy) must receive latest+1, and the file must be bit-for-bit, inode and mtime unchanged by Open. Six fixture databases written by the pinned commit (two key kinds; empty, small with deleted/non-1-active/recreated secrets, 200 secrets) must open with identical contents and counters.",
    "Trusted: the map model; 'earlier build' is the pinned commit only; restart = second Open in the same process while the first handle is idle.",
    "DESIGN.md section 4, C03")
