// C20 — struct-tag plumbing delivers each named secret to its field
// unaltered. Struct types are generated at run time (reflect.StructOf) from a
// menu of supported and unsupported field types; expectations are computed
// from the scripted service's bytes; both entry points (StoreConfig.Structs
// and ParseFields+Apply on a lookup-enabled store) are driven.
package c20

import (
	"bytes"
	"context"
	"encoding/json"
	"errors"
	"fmt"
	"math/rand/v2"
	"net/netip"
	"path"
	"reflect"
	"sort"
	"strings"
	"sync"
	"sync/atomic"
	"testing"
	"time"

	"github.com/tailscale/setec/client/setec"
	"github.com/tailscale/setec/types/api"

	"verif/harness/internal/evid"
	"verif/harness/internal/fakesvc"
)

// BinVal records what UnmarshalBinary was given.
type BinVal struct {
	Got   []byte
	Calls int
}

func (b *BinVal) UnmarshalBinary(d []byte) error {
	b.Calls++
	if bytes.HasPrefix(d, []byte("FAIL")) {
		return errors.New("BinVal rejects this value")
	}
	b.Got = append([]byte(nil), d...)
	return nil
}

type JS struct {
	A int    `json:"a"`
	B string `json:"b"`
}

// Emb is embedded (one level) in some generated structs.
type Emb struct {
	EmbBytes []byte `setec:"emb/bytes"`
	EmbPlain string // untagged
	EmbText  string `setec:"emb/text"`
}

type fieldSpec struct {
	Kind     string `json:"kind"`
	Tag      string `json:"tag,omitempty"`
	JSON     bool   `json:"json,omitempty"`
	Failing  bool   `json:"failing,omitempty"`
	Tagged   bool   `json:"tagged"`
	BadShape bool   `json:"bad_shape,omitempty"` // unsupported type / empty name: must be rejected up front
}

var supported = []string{"bytes", "string", "secret", "binval", "binptr", "json-struct", "json-map", "json-int"}
var unsupported = []string{"int", "strings", "strptr", "strmap", "bool", "empty-tag", "empty-tag-json", "arr8", "arrptr", "any", "float", "rune-slice", "empty-tag-json-str", "empty-tag-json-bytes", "empty-tag-other-str"}
var untagged = []string{"u-int", "u-string", "u-bytes", "u-intptr", "u-secret", "u-binptr", "u-timeptr"}

func typeOf(kind string) reflect.Type {
	switch kind {
	case "bytes", "u-bytes":
		return reflect.TypeOf([]byte(nil))
	case "empty-tag-json-bytes":
		return reflect.TypeOf([]byte(nil))
	case "string", "u-string", "empty-tag", "empty-tag-json-str", "empty-tag-other-str":
		return reflect.TypeOf("")
	case "secret", "u-secret":
		return reflect.TypeOf(setec.Secret(nil))
	case "binval":
		return reflect.TypeOf(BinVal{})
	case "binptr":
		return reflect.TypeOf((*BinVal)(nil))
	case "json-struct":
		return reflect.TypeOf(JS{})
	case "json-map":
		return reflect.TypeOf(map[string]int(nil))
	case "json-int", "int", "u-int", "empty-tag-json":
		return reflect.TypeOf(0)
	case "strings":
		return reflect.TypeOf([]string(nil))
	case "strptr":
		return reflect.TypeOf((*string)(nil))
	case "strmap":
		return reflect.TypeOf(map[string]string(nil))
	case "bool":
		return reflect.TypeOf(false)
	case "arr8": // things a []byte can be converted to are not therefore supported
		return reflect.TypeOf([8]byte{})
	case "arrptr":
		return reflect.TypeOf((*[8]byte)(nil))
	case "any":
		return reflect.TypeOf((*any)(nil)).Elem()
	case "float":
		return reflect.TypeOf(1.5)
	case "rune-slice":
		return reflect.TypeOf([]rune(nil))
	case "u-intptr":
		return reflect.TypeOf((*int)(nil))
	case "u-binptr": // untagged, nil, and of a type that could unmarshal itself: none of the plumbing's business
		return reflect.TypeOf((*BinVal)(nil))
	case "u-timeptr":
		return reflect.TypeOf((*time.Time)(nil))
	}
	panic(kind)
}

type shape struct {
	Idx    int         `json:"case"`
	Prefix string      `json:"prefix"`
	Fields []fieldSpec `json:"fields"`
	Embed  bool        `json:"embed"`
	Path   string      `json:"path"` // "newstore" or "apply"
}

func gen(rng *rand.Rand, idx int) shape {
	s := shape{Idx: idx, Prefix: []string{"", "a", "a/b", "dev/prog"}[rng.IntN(4)], Path: []string{"newstore", "apply", "apply", "declare-then-apply"}[rng.IntN(4)]}
	s.Embed = rng.IntN(5) == 0
	tags := []string{"x", "y", "db/pw", "k1", "k2", "deep/er/key", "z"}
	n := 1 + rng.IntN(8)
	hasBad := rng.IntN(8) == 0
	for i := 0; i < n; i++ {
		var f fieldSpec
		switch x := rng.IntN(10); {
		case x < 2:
			f.Kind = untagged[rng.IntN(len(untagged))]
		case hasBad && x == 2:
			f.Kind = unsupported[rng.IntN(len(unsupported))]
			f.Tagged, f.BadShape = true, true
			f.Tag = tags[rng.IntN(len(tags))]
			if strings.HasPrefix(f.Kind, "empty-tag") {
				// an empty NAME, whatever follows the comma (`setec:",json"`, `setec:",,other"`)
				f.Tag = ""
				f.JSON = strings.HasPrefix(f.Kind, "empty-tag-json")
				if f.Kind == "empty-tag-other-str" {
					f.Tag = ",,other"[:1+rng.IntN(2)*6] // "," or ",,other"
				}
			}
		default:
			f.Kind = supported[rng.IntN(len(supported))]
			f.Tagged = true
			f.Tag = tags[rng.IntN(len(tags))]
			f.JSON = strings.HasPrefix(f.Kind, "json-")
			f.Failing = rng.IntN(12) == 0 && (f.JSON || strings.HasPrefix(f.Kind, "bin"))
		}
		s.Fields = append(s.Fields, f)
	}
	return s
}

func TestC20(t *testing.T) {
	r := evid.Start("C20", "exploration")
	defer r.Finish(t)
	r.Assume("arguments stay inside the documented precondition: non-nil pointers, exported tagged fields, clean slash-separated prefixes and names")
	n := r.N(30000, 500000)
	for i := 0; i < n; i++ {
		if r.Skip(i) {
			continue
		}
		runCase(r, gen(r.Rand(uint64(i)), i))
	}
	if r.Only < 0 {
		// arguments that are not structs with tagged fields
		for i, bad := range []any{new(int), &struct{ A string }{}, struct{ A string }{}, &[]byte{}, new(string)} {
			_, err := func() (f *setec.Fields, err error) {
				defer func() {
					if p := recover(); p != nil {
						err = nil
						r.Violation("parsefields-panics", -1, fmt.Sprintf("ParseFields panicked on %T: %v", bad, p), nil)
					}
				}()
				return setec.ParseFields(bad, "p")
			}()
			r.Eval(1)
			r.Count("rejected_arguments", 1)
			if err == nil {
				r.Violation("bad-argument-accepted", -1, fmt.Sprintf("ParseFields accepted argument #%d of type %T", i, bad), nil)
			}
		}
	}
	if r.Only < 0 {
		taggedEmbedded(r)
		severalStructs(r)
		hangingField(r)
		otherStore(r)
		dualUnmarshalers(r)
		manyFailingLookups(r)
		untaggedEmbeddedPointers(r)
		applyDuringRotation(r)
		overlappingApplies(r)
		parsedTwice(r)
		presetByteFields(r)
	}
	r.Require("preset_byte_fields_checked", "overlapping_applies", "structs_parsed_twice", "applies_during_a_rotation", "applies_with_many_failing_lookups", "untagged_embedded_pointers_checked", "applies_to_another_store", "applies_with_a_hanging_field", "dual_unmarshaler_fields", "stores_over_several_structs", "tagged_embedded_fields", "populated_structs", "rejected_shapes", "rejected_arguments", "failing_field_cases", "bytes_fields_mutated", "secret_fields_followed_poll", "shared_secret_fields", "embedded_structs", "untagged_fields_checked", "second_applies")
	r.Rule("struct types generated at run time: 1-8 fields in random order from {[]byte, string, setec.Secret, value/pointer BinaryUnmarshaler, ',json' struct/map/int} + unsupported {int, []string, *string, map[string]string, bool, empty tag name} + untagged fields of 5 kinds with sentinel contents, optionally one embedded predeclared struct; prefixes {'', a, a/b, dev/prog}; several fields may name the same secret; scripted failing fields (bad JSON, UnmarshalBinary error); via StoreConfig.Structs and via ParseFields+Apply. Distinct = (entry point, sorted set of field kinds, has failing field, prefix)")
}

func runCase(r *evid.Run, s shape) {
	r.Eval(1)
	fail := func(key, msg string) {
		r.Violation(key, s.Idx, fmt.Sprintf("case %d: %s", s.Idx, msg), map[string]any{"shape": s})
	}
	rng := r.Rand(uint64(s.Idx) + 1<<40)
	// build the struct type
	var sf []reflect.StructField
	if s.Embed {
		sf = append(sf, reflect.StructField{Name: "Emb", Type: reflect.TypeOf(Emb{}), Anonymous: true})
	}
	for i, f := range s.Fields {
		fld := reflect.StructField{Name: fmt.Sprintf("F%d", i), Type: typeOf(f.Kind)}
		if f.Tagged {
			tag := f.Tag
			if f.JSON {
				tag += ",json"
			}
			fld.Tag = reflect.StructTag(fmt.Sprintf(`setec:%q`, tag))
		}
		sf = append(sf, fld)
	}
	ptr := reflect.New(reflect.StructOf(sf))
	// sentinels in untagged fields
	seven := 7
	for i, f := range s.Fields {
		fv := ptr.Elem().FieldByName(fmt.Sprintf("F%d", i))
		switch f.Kind {
		case "u-int":
			fv.SetInt(12345)
		case "u-string":
			fv.SetString("sentinel")
		case "u-bytes":
			fv.SetBytes([]byte("sentinel-bytes"))
		case "u-intptr":
			fv.Set(reflect.ValueOf(&seven))
		case "u-secret":
			fv.Set(reflect.ValueOf(setec.StaticSecret("static")))
		}
	}
	if s.Embed {
		ptr.Elem().FieldByName("EmbPlain").SetString("emb-sentinel")
	}
	// service contents
	svc := fakesvc.New()
	svc.Set("unrelated", 1, []byte("unrelated"))
	values := map[string][]byte{}
	wantNames := map[string]bool{}
	anyBad, anyFailing := false, false
	setVal := func(full string, f fieldSpec) {
		if _, ok := values[full]; ok {
			return
		}
		var v []byte
		switch {
		case f.Kind == "json-struct":
			v = []byte(fmt.Sprintf(`{"a":%d,"b":"s%d"}`, rng.IntN(1000), rng.IntN(1000)))
		case f.Kind == "json-map":
			v = []byte(fmt.Sprintf(`{"k":%d}`, rng.IntN(1000)))
		case f.Kind == "json-int":
			v = []byte(fmt.Sprint(rng.IntN(100000)))
		default:
			v = make([]byte, 1+rng.IntN(40))
			for i := range v {
				v[i] = byte(rng.IntN(256))
			}
			if v[0] == 'F' {
				v[0] = 'G'
			}
		}
		if f.Failing {
			if f.JSON {
				// not a JSON document of the field's type: truncated, trailing garbage, two documents, wrong type
				good := map[string]string{"json-struct": `{"a":1,"b":"x"}`, "json-map": `{"k":1}`, "json-int": `42`}[f.Kind]
				v = []byte([]string{`{"a":`, good + " oops", good + " " + good, good + "\n{}", `"a string"`, ``}[rng.IntN(6)])
				if f.Kind != "json-int" && string(v) == `"a string"` {
					v = []byte(`[1,2]`)
				}
			} else {
				v = []byte("FAIL-this-value")
			}
		}
		values[full] = v
		svc.Set(full, 3, v)
	}
	// fields sharing a name must agree on a value shape: give json/bin/failing fields unique names
	used := map[string]string{}
	failingShared := map[string]fieldSpec{}
	for i := range s.Fields {
		f := &s.Fields[i]
		if !f.Tagged || f.BadShape {
			if f.BadShape {
				anyBad = true
			}
			continue
		}
		plain := f.Kind == "bytes" || f.Kind == "string" || f.Kind == "secret"
		// plain fields can share a secret with each other, and with ONE failing field (whose value every
		// plain field can still take): a failure on one field must not keep the others from being filled
		prev, seen := used[f.Tag]
		switch {
		case !seen:
		case plain && (prev == "plain" || prev == "failing+plain"):
		case plain && prev == "failing":
			used[f.Tag] = "failing+plain"
		case f.Failing && prev == "plain":
			used[f.Tag] = "failing+plain"
			failingShared[f.Tag] = *f
		default:
			f.Tag = fmt.Sprintf("%s-%d", f.Tag, i)
			seen = false
		}
		if !seen {
			switch {
			case plain:
				used[f.Tag] = "plain"
			case f.Failing:
				used[f.Tag] = "failing"
				failingShared[f.Tag] = *f
			default:
				used[f.Tag] = f.Kind
			}
		}
	}
	if anyBad || true {
		// rebuild the type with the final tags
		sf = sf[:0]
		if s.Embed {
			sf = append(sf, reflect.StructField{Name: "Emb", Type: reflect.TypeOf(Emb{}), Anonymous: true})
		}
		for i, f := range s.Fields {
			fld := reflect.StructField{Name: fmt.Sprintf("F%d", i), Type: typeOf(f.Kind)}
			if f.Tagged {
				tag := f.Tag
				if f.JSON {
					tag += ",json"
				}
				fld.Tag = reflect.StructTag(fmt.Sprintf(`setec:%q`, tag))
			}
			sf = append(sf, fld)
		}
		old := ptr
		ptr = reflect.New(reflect.StructOf(sf))
		for i := 0; i < old.Elem().NumField(); i++ {
			ptr.Elem().Field(i).Set(old.Elem().Field(i))
		}
	}
	nTagged := 0
	for tag, ff := range failingShared {
		setVal(path.Join(s.Prefix, tag), ff) // the failing field decides the bytes of a shared secret
	}
	for _, f := range s.Fields {
		if f.Tagged && !f.BadShape {
			nTagged++
			full := path.Join(s.Prefix, f.Tag)
			wantNames[full] = true
			setVal(full, f)
			if f.Failing {
				anyFailing = true
			}
		}
	}
	if s.Embed {
		for _, tg := range []string{"emb/bytes", "emb/text"} {
			full := path.Join(s.Prefix, tg)
			wantNames[full] = true
			setVal(full, fieldSpec{Kind: "bytes"})
			nTagged++
		}
		r.Count("embedded_structs", 1)
	}
	var kinds []string
	for _, f := range s.Fields {
		kinds = append(kinds, f.Kind)
	}
	sort.Strings(kinds)
	r.Distinct(fmt.Sprintf("%s prefix=%q failing=%t kinds=%s", s.Path, s.Prefix, anyFailing, strings.Join(kinds, ",")))

	if s.Idx < 3 {
		r.Sample(map[string]any{"shape": s, "secrets": keys(wantNames)})
	}
	// ---- run ----
	var st *setec.Store
	var err error
	var applyErr error
	var fieldsVal *setec.Fields
	panicked := func() (p any) {
		defer func() { p = recover() }()
		if s.Path == "newstore" {
			st, err = setec.NewStore(context.Background(), setec.StoreConfig{Client: svc, Structs: []setec.Struct{{Value: ptr.Interface(), Prefix: s.Prefix}},
				Secrets: []string{"unrelated"}, PollInterval: -1, Logf: func(string, ...any) {}})
			applyErr = err
		} else {
			var f *setec.Fields
			f, err = setec.ParseFields(ptr.Interface(), s.Prefix)
			if err != nil {
				applyErr = err
				return nil
			}
			// exactly the expected names
			got := append([]string(nil), f.Secrets()...)
			gm := map[string]bool{}
			for _, g := range got {
				gm[g] = true
			}
			if len(got) != nTagged || !reflect.DeepEqual(gm, wantNames) {
				fail("wrong-secret-names", fmt.Sprintf("Fields.Secrets() = %q, want one per tagged field over %v", got, keys(wantNames)))
			}
			if s.Path == "declare-then-apply" {
				// the ordinary pattern: declare the names the Fields value reports, then apply. What the caller
				// does with the returned slice (NewStore sorts what it is given) is the caller's business.
				decl := f.Secrets()
				sort.Sort(sort.Reverse(sort.StringSlice(decl)))
				st, err = setec.NewStore(context.Background(), setec.StoreConfig{Client: svc, Secrets: append(decl, "unrelated"), PollInterval: -1, Logf: func(string, ...any) {}})
				if err != nil {
					if anyFailing {
						err = nil // a missing or malformed secret value is not what this path is about
					}
					return nil
				}
			} else {
				st, err = setec.NewStore(context.Background(), setec.StoreConfig{Client: svc, Secrets: []string{"unrelated"}, AllowLookup: true, PollInterval: -1, Logf: func(string, ...any) {}})
				if err != nil {
					return nil
				}
			}
			applyErr = f.Apply(context.Background(), st)
			fieldsVal = f
		}
		return nil
	}()
	if panicked != nil {
		fail("plumbing-panics", fmt.Sprintf("panic: %v", panicked))
		return
	}
	if st != nil {
		defer st.Close()
	}
	if nTagged == 0 && !anyBad {
		// no tagged fields at all: must be rejected
		r.Count("rejected_shapes", 1)
		if applyErr == nil {
			fail("tagless-struct-accepted", "a struct without tagged fields was accepted")
		}
		return
	}
	if anyBad {
		r.Count("rejected_shapes", 1)
		if applyErr == nil {
			fail("unsupported-shape-accepted", "a struct with an unsupported tagged field type or an empty secret name was accepted")
		}
		if n := svc.NumRequests(); s.Path == "newstore" && n != 0 {
			fail("rejection-not-upfront", fmt.Sprintf("the struct was rejected only after %d request(s) to the service", n))
		}
		return
	}
	// requests: exactly the expected names (+ the unrelated declared one)
	asked := map[string]bool{}
	for _, q := range svc.Log() {
		if q.Name != "unrelated" {
			asked[q.Name] = true
		}
	}
	if !reflect.DeepEqual(asked, wantNames) {
		fail("wrong-secrets-requested", fmt.Sprintf("secrets requested from the service: %v, want %v", keys(asked), keys(wantNames)))
		return
	}
	if anyFailing {
		r.Count("failing_field_cases", 1)
		if applyErr == nil {
			fail("field-failure-unreported", "one field could not be filled but no error was reported")
			return
		}
	} else if applyErr != nil {
		fail("spurious-error", fmt.Sprintf("all secrets are available and well-formed but an error was reported: %v", applyErr))
		return
	}
	// field contents
	check := func(fv reflect.Value, f fieldSpec, label string) bool {
		full := path.Join(s.Prefix, f.Tag)
		want := values[full]
		switch f.Kind {
		case "bytes":
			if !bytes.Equal(fv.Bytes(), want) {
				fail("field-wrong-content", fmt.Sprintf("%s ([]byte, secret %q) = %x, want %x", label, full, fv.Bytes(), want))
				return false
			}
		case "string":
			if fv.String() != string(want) {
				fail("field-wrong-content", fmt.Sprintf("%s (string, secret %q) = %q, want %q", label, full, fv.String(), want))
				return false
			}
		case "secret":
			h, _ := fv.Interface().(setec.Secret)
			if h == nil || !bytes.Equal(h.Get(), want) {
				fail("field-wrong-content", fmt.Sprintf("%s (Secret, secret %q) does not yield the secret's bytes", label, full))
				return false
			}
		case "binval", "binptr":
			var bv *BinVal
			if f.Kind == "binval" {
				bv = fv.Addr().Interface().(*BinVal)
			} else {
				bv, _ = fv.Interface().(*BinVal)
			}
			if f.Failing {
				if bv != nil && bv.Got != nil {
					fail("field-wrong-content", label+": failing UnmarshalBinary left data behind")
					return false
				}
				return true
			}
			if bv == nil || bv.Calls != 1 || !bytes.Equal(bv.Got, want) {
				fail("field-wrong-content", fmt.Sprintf("%s (BinaryUnmarshaler, secret %q): got %+v, want one call with %x", label, full, bv, want))
				return false
			}
		case "json-struct", "json-map", "json-int":
			if f.Failing {
				return true
			}
			wantV := reflect.New(fv.Type())
			if err := json.Unmarshal(want, wantV.Interface()); err != nil {
				panic(err)
			}
			if !reflect.DeepEqual(fv.Interface(), wantV.Elem().Interface()) {
				fail("field-wrong-content", fmt.Sprintf("%s (json, secret %q) = %v, want %v", label, full, fv.Interface(), wantV.Elem().Interface()))
				return false
			}
		}
		return true
	}
	for i, f := range s.Fields {
		fv := ptr.Elem().FieldByName(fmt.Sprintf("F%d", i))
		if f.Tagged {
			if !check(fv, f, fmt.Sprintf("field F%d", i)) {
				return
			}
			continue
		}
		r.Count("untagged_fields_checked", 1)
		okv := true
		switch f.Kind {
		case "u-int":
			okv = fv.Int() == 12345
		case "u-string":
			okv = fv.String() == "sentinel"
		case "u-bytes":
			okv = string(fv.Bytes()) == "sentinel-bytes"
		case "u-intptr":
			okv = fv.Interface().(*int) == &seven && seven == 7
		case "u-secret":
			okv = string(fv.Interface().(setec.Secret).Get()) == "static"
		case "u-binptr", "u-timeptr":
			okv = fv.IsNil()
		}
		if !okv {
			fail("untagged-field-changed", fmt.Sprintf("untagged field F%d (%s) was modified", i, f.Kind))
			return
		}
	}
	if s.Embed {
		if !check(ptr.Elem().FieldByName("EmbBytes"), fieldSpec{Kind: "bytes", Tag: "emb/bytes"}, "embedded field EmbBytes") ||
			!check(ptr.Elem().FieldByName("EmbText"), fieldSpec{Kind: "string", Tag: "emb/text"}, "embedded field EmbText") {
			return
		}
		if ptr.Elem().FieldByName("EmbPlain").String() != "emb-sentinel" {
			fail("untagged-field-changed", "untagged field of the embedded struct was modified")
			return
		}
	}
	r.Count("populated_structs", 1)
	// Apply again after the caller has wiped every tagged field: each must be filled afresh
	if fieldsVal != nil && st != nil && !anyFailing {
		for i, f := range s.Fields {
			if f.Tagged {
				fv := ptr.Elem().FieldByName(fmt.Sprintf("F%d", i))
				if f.Kind == "binptr" {
					// the Fields value is bound to the object the pointer referred to when it was parsed:
					// clear that object, do not detach it
					if bv, _ := fv.Interface().(*BinVal); bv != nil {
						*bv = BinVal{}
					}
					continue
				}
				fv.Set(reflect.Zero(fv.Type()))
			}
		}
		if err := fieldsVal.Apply(context.Background(), st); err != nil {
			fail("second-apply-fails", err.Error())
			return
		}
		for i, f := range s.Fields {
			if f.Tagged {
				fv := ptr.Elem().FieldByName(fmt.Sprintf("F%d", i))
				if f.Kind == "binval" || f.Kind == "binptr" {
					// the monitor type counts calls; a fresh value sees exactly one
					if !check(fv, f, fmt.Sprintf("field F%d (second Apply after the field was cleared)", i)) {
						return
					}
					continue
				}
				if !check(fv, f, fmt.Sprintf("field F%d (second Apply after the field was cleared)", i)) {
					return
				}
			}
		}
		r.Count("second_applies", 1)
	}
	if st == nil {
		return // NewStore failed because of a failing field; nothing more to observe
	}
	// shared secrets
	byName := map[string]int{}
	for _, f := range s.Fields {
		if f.Tagged {
			byName[f.Tag]++
		}
	}
	for _, c := range byName {
		if c > 1 {
			r.Count("shared_secret_fields", 1)
			break
		}
	}
	// mutating a populated []byte field must not change what the store serves (or other fields of the same secret)
	overwritten := map[int]bool{}
	for i, f := range s.Fields {
		if f.Kind != "bytes" {
			continue
		}
		overwritten[i] = true
		fv := ptr.Elem().FieldByName(fmt.Sprintf("F%d", i))
		b := fv.Bytes()
		for j := range b {
			b[j] = 0xFF
		}
		r.Count("bytes_fields_mutated", 1)
		full := path.Join(s.Prefix, f.Tag)
		if h := st.Secret(full); h == nil || !bytes.Equal(h.Get(), values[full]) {
			fail("bytes-field-aliases-store", fmt.Sprintf("after overwriting []byte field F%d the store serves %x for %q, want %x", i, h.Get(), full, values[full]))
			return
		}
		for k, g := range s.Fields {
			if k != i && g.Tagged && g.Tag == f.Tag && !overwritten[k] {
				gv := ptr.Elem().FieldByName(fmt.Sprintf("F%d", k))
				if !check(gv, g, fmt.Sprintf("field F%d (after overwriting F%d)", k, i)) {
					return
				}
			}
		}
	}
	// Secret fields are live handles: they follow later polls
	changed := false
	for _, f := range s.Fields {
		if f.Kind == "secret" {
			full := path.Join(s.Prefix, f.Tag)
			nv := append([]byte("rotated-"), values[full]...)
			values[full] = nv
			svc.Set(full, 4, nv)
			changed = true
		}
	}
	if changed {
		if err := st.Refresh(context.Background()); err != nil {
			fail("refresh-fails", err.Error())
			return
		}
		for i, f := range s.Fields {
			if f.Kind == "secret" {
				h := ptr.Elem().FieldByName(fmt.Sprintf("F%d", i)).Interface().(setec.Secret)
				if !bytes.Equal(h.Get(), values[path.Join(s.Prefix, f.Tag)]) {
					fail("secret-field-not-live", fmt.Sprintf("Secret field F%d did not follow the poll", i))
					return
				}
				r.Count("secret_fields_followed_poll", 1)
			}
		}
	}
}

func keys(m map[string]bool) []string {
	var out []string
	for k := range m {
		out = append(out, k)
	}
	sort.Strings(out)
	return out
}

// Shapes in which the tag sits on an embedded field itself (reflect.StructOf cannot build all of these).
type withEmbJSON struct {
	JS    `setec:"creds,json"`
	Other string `setec:"other"`
	Plain int
}
type withEmbBin struct {
	Other  []byte `setec:"other"`
	BinVal `setec:"bin"`
}
type withEmbBinPtr struct {
	*BinVal `setec:"bin"`
	Other   string `setec:"other"`
}
type withEmbSecret struct {
	setec.Secret `setec:"sec"`
	Other        string `setec:"other"`
}
type Text string
type withEmbText struct {
	Text  `setec:"txt"`
	Other string `setec:"other"`
}

func taggedEmbedded(r *evid.Run) {
	type tc struct {
		name  string
		mk    func() any
		names []string
		check func(v any) string
	}
	cases := []tc{
		{"embedded json struct", func() any { return &withEmbJSON{Plain: 77} }, []string{"creds", "other"}, func(v any) string {
			w := v.(*withEmbJSON)
			if w.JS != (JS{A: 5, B: "five"}) || w.Other != "other-value" || w.Plain != 77 {
				return fmt.Sprintf("%+v", *w)
			}
			return ""
		}},
		{"embedded binary unmarshaler", func() any { return &withEmbBin{} }, []string{"bin", "other"}, func(v any) string {
			w := v.(*withEmbBin)
			if string(w.BinVal.Got) != "bin-value" || string(w.Other) != "other-value" {
				return fmt.Sprintf("%+v", *w)
			}
			return ""
		}},
		{"embedded pointer to binary unmarshaler", func() any { return &withEmbBinPtr{} }, []string{"bin", "other"}, func(v any) string {
			w := v.(*withEmbBinPtr)
			if w.BinVal == nil || string(w.BinVal.Got) != "bin-value" || w.Other != "other-value" {
				return fmt.Sprintf("%+v", *w)
			}
			return ""
		}},
		{"embedded Secret", func() any { return &withEmbSecret{} }, []string{"sec", "other"}, func(v any) string {
			w := v.(*withEmbSecret)
			if w.Secret == nil || string(w.Secret.Get()) != "sec-value" || w.Other != "other-value" {
				return fmt.Sprintf("Secret=%v Other=%q", w.Secret != nil, w.Other)
			}
			return ""
		}},
		{"embedded string type", func() any { return &withEmbText{} }, []string{"txt", "other"}, func(v any) string {
			w := v.(*withEmbText)
			if w.Text != "txt-value" || w.Other != "other-value" {
				return fmt.Sprintf("%+v", *w)
			}
			return ""
		}},
	}
	for ci, c := range cases {
		for _, prefix := range []string{"", "p", "p/q"} {
			for _, entry := range []string{"newstore", "apply"} {
				r.Eval(1)
				r.Count("tagged_embedded_fields", 1)
				r.Distinct("tagged embedded: " + c.name + " via " + entry)
				svc := fakesvc.New()
				svc.Set("unrelated", 1, []byte("unrelated"))
				svc.Set(path.Join(prefix, "creds"), 1, []byte(`{"a":5,"b":"five"}`))
				svc.Set(path.Join(prefix, "bin"), 1, []byte("bin-value"))
				svc.Set(path.Join(prefix, "sec"), 1, []byte("sec-value"))
				svc.Set(path.Join(prefix, "txt"), 1, []byte("txt-value"))
				svc.Set(path.Join(prefix, "other"), 1, []byte("other-value"))
				want := map[string]bool{}
				for _, n := range c.names {
					want[path.Join(prefix, n)] = true
				}
				v := c.mk()
				fail := func(key, msg string) {
					r.Violation(key, -1, fmt.Sprintf("tagged embedded case %d (%s, prefix %q, %s): %s", ci, c.name, prefix, entry, msg), nil)
				}
				var st *setec.Store
				var err error
				pan := func() (p any) {
					defer func() { p = recover() }()
					if entry == "newstore" {
						st, err = setec.NewStore(context.Background(), setec.StoreConfig{Client: svc, Structs: []setec.Struct{{Value: v, Prefix: prefix}},
							Secrets: []string{"unrelated"}, PollInterval: -1, Logf: func(string, ...any) {}})
						return nil
					}
					var f *setec.Fields
					if f, err = setec.ParseFields(v, prefix); err != nil {
						return nil
					}
					gm := map[string]bool{}
					for _, g := range f.Secrets() {
						gm[g] = true
					}
					if len(f.Secrets()) != len(want) || !reflect.DeepEqual(gm, want) {
						fail("wrong-secret-names", fmt.Sprintf("Fields.Secrets() = %q, want %v", f.Secrets(), keys(want)))
					}
					if st, err = setec.NewStore(context.Background(), setec.StoreConfig{Client: svc, Secrets: []string{"unrelated"}, AllowLookup: true, PollInterval: -1, Logf: func(string, ...any) {}}); err != nil {
						return nil
					}
					err = f.Apply(context.Background(), st)
					return nil
				}()
				if st != nil {
					defer st.Close()
				}
				if pan != nil {
					fail("plumbing-panics", fmt.Sprint(pan))
					continue
				}
				if err != nil {
					// rejecting the shape up front is within the property (it is then an unsupported shape); a
					// silent skip is not
					if n := svc.NumRequests(); entry == "newstore" && n != 0 {
						fail("rejection-not-upfront", fmt.Sprintf("rejected (%v) only after %d request(s)", err, n))
					}
					r.Count("tagged_embedded_rejected", 1)
					continue
				}
				asked := map[string]bool{}
				for _, q := range svc.Log() {
					if q.Name != "unrelated" {
						asked[q.Name] = true
					}
				}
				if !reflect.DeepEqual(asked, want) {
					fail("wrong-secrets-requested", fmt.Sprintf("secrets requested from the service: %v, want %v", keys(asked), keys(want)))
					continue
				}
				if bad := c.check(v); bad != "" {
					fail("field-value-wrong", "after construction the struct holds "+bad)
				}
			}
		}
	}
}

type msText struct {
	X string `setec:"x"`
	Y []byte `setec:"y"`
}
type msJSON struct {
	J JS `setec:"j,json"`
}
type msBin struct {
	B BinVal `setec:"b"`
	Z string `setec:"z"`
}

// severalStructs: a store configured with several structs: a failing field in ANY of them is reported, and
// the fields of the others are filled all the same.
func severalStructs(r *evid.Run) {
	rng := r.Rand(2020)
	for c := 0; c < 120; c++ {
		n := 2 + rng.IntN(3)
		failAt := rng.IntN(n+1) - 1 // -1: nobody fails
		svc := fakesvc.New()
		svc.Set("unrelated", 1, []byte("unrelated"))
		var structs []setec.Struct
		var vals []any
		var kinds []string
		for i := 0; i < n; i++ {
			prefix := fmt.Sprintf("s%d", i)
			kind := []string{"text", "json", "bin"}[rng.IntN(3)]
			if i == failAt && kind == "text" {
				kind = []string{"json", "bin"}[rng.IntN(2)]
			}
			kinds = append(kinds, kind)
			var v any
			switch kind {
			case "text":
				v = &msText{}
				svc.Set(prefix+"/x", 1, []byte("x-of-"+prefix))
				svc.Set(prefix+"/y", 1, []byte("y-of-"+prefix))
			case "json":
				v = &msJSON{}
				doc := fmt.Sprintf(`{"a":%d,"b":"%s"}`, i, prefix)
				if i == failAt {
					doc = `{"a":"not a number"}`
				}
				svc.Set(prefix+"/j", 1, []byte(doc))
			case "bin":
				v = &msBin{}
				b := "b-of-" + prefix
				if i == failAt {
					b = "FAIL " + prefix
				}
				svc.Set(prefix+"/b", 1, []byte(b))
				svc.Set(prefix+"/z", 1, []byte("z-of-"+prefix))
			}
			vals = append(vals, v)
			structs = append(structs, setec.Struct{Value: v, Prefix: prefix})
		}
		r.Eval(1)
		r.Count("stores_over_several_structs", 1)
		r.Distinct(fmt.Sprintf("several structs n=%d failing=%d", n, failAt))
		st, err := setec.NewStore(context.Background(), setec.StoreConfig{Client: svc, Structs: structs, Secrets: []string{"unrelated"}, PollInterval: -1, Logf: func(string, ...any) {}})
		if st != nil {
			st.Close()
		}
		desc := fmt.Sprintf("case %d: %d structs %v, failing field in struct #%d", c, n, kinds, failAt)
		if failAt >= 0 && err == nil {
			r.Violation("failure-unreported", -1, desc+": NewStore returned no error", nil)
			continue
		}
		if failAt < 0 && err != nil {
			r.Violation("spurious-error", -1, desc+": "+err.Error(), nil)
			continue
		}
		if failAt >= 0 {
			continue // what the other structs hold when construction fails is not claimed
		}
		for i, v := range vals {
			prefix := fmt.Sprintf("s%d", i)
			ok := true
			switch w := v.(type) {
			case *msText:
				ok = w.X == "x-of-"+prefix && string(w.Y) == "y-of-"+prefix
			case *msJSON:
				ok = w.J == JS{A: i, B: prefix}
			case *msBin:
				ok = string(w.B.Got) == "b-of-"+prefix && w.Z == "z-of-"+prefix
			}
			if !ok {
				r.Violation("field-value-wrong", -1, fmt.Sprintf("%s: struct #%d holds %+v", desc, i, v), nil)
				break
			}
		}
	}
}

type withSlow struct {
	A    string       `setec:"a"`
	Slow string       `setec:"slow"`
	B    []byte       `setec:"b"`
	C    string       `setec:"c"`
	H    setec.Secret `setec:"c"`
}

// hangingField: Apply under a deadline; the secret of one field in the middle is unknown to the store and
// the service never answers for it. That field fails (reported); the fields around it, whose secrets the store
// holds, are filled all the same.
func hangingField(r *evid.Run) {
	for c := 0; c < 6; c++ {
		svc := fakesvc.New()
		for _, n := range []string{"p/a", "p/b", "p/c", "p/slow"} {
			svc.Set(n, 1, []byte("value-of-"+n))
		}
		svc.Behave = func(q *fakesvc.Req) fakesvc.Behaviour {
			if q.Name == "p/slow" {
				return fakesvc.Behaviour{Hold: make(chan struct{})} // until the caller gives up
			}
			return fakesvc.Behaviour{}
		}
		st, err := setec.NewStore(context.Background(), setec.StoreConfig{Client: svc, Secrets: []string{"p/a", "p/b", "p/c"}, AllowLookup: true, PollInterval: -1, Logf: func(string, ...any) {}})
		if err != nil {
			r.Violation("newstore-fails", -1, err.Error(), nil)
			return
		}
		var v withSlow
		f, err := setec.ParseFields(&v, "p")
		if err != nil {
			r.Violation("spurious-error", -1, err.Error(), nil)
			st.Close()
			return
		}
		ctx, cancel := context.WithTimeout(context.Background(), time.Duration(20+30*c)*time.Millisecond)
		aerr := f.Apply(ctx, st)
		cancel()
		r.Eval(1)
		r.Count("applies_with_a_hanging_field", 1)
		if aerr == nil {
			r.Violation("failure-unreported", -1, "Apply under a deadline with one field whose secret never arrives returned no error", nil)
		}
		if v.A != "value-of-p/a" || string(v.B) != "value-of-p/b" || v.C != "value-of-p/c" || v.H == nil || string(v.H.Get()) != "value-of-p/c" {
			r.Violation("failing-field-blocks-others", -1, fmt.Sprintf("Apply under a deadline: the field Slow failed (%v); the fields around it, whose secrets the store already holds, were left as A=%q B=%q C=%q H set=%t", aerr, v.A, v.B, v.C, v.H != nil), nil)
		}
		st.Close()
	}
	r.Distinct("apply with a hanging field")
}

// Dual implements both encoding.BinaryUnmarshaler and encoding.TextUnmarshaler (as time.Time and netip.Addr do).
type Dual struct{ Via, Got string }

func (d *Dual) UnmarshalBinary(b []byte) error { d.Via, d.Got = "binary", string(b); return nil }
func (d *Dual) UnmarshalText(b []byte) error   { d.Via, d.Got = "text", string(b); return nil }

type withDual struct {
	D  Dual       `setec:"d"`
	P  *Dual      `setec:"d"`
	T  time.Time  `setec:"t"`
	IP netip.Addr `setec:"ip"`
}

// dualUnmarshalers: a field without the json flag whose type can unmarshal itself is filled by UnmarshalBinary -
// also when the type offers other decoding methods as well.
func dualUnmarshalers(r *evid.Run) {
	when := time.Date(2024, 2, 29, 12, 30, 45, 123456789, time.FixedZone("x", 3600))
	tb, _ := when.MarshalBinary()
	ip := netip.MustParseAddr("fd7a:115c:a1e0::53")
	ib, _ := ip.MarshalBinary()
	for _, entry := range []string{"newstore", "apply"} {
		svc := fakesvc.New()
		svc.Set("q/d", 1, []byte("\x00\x01 not text \xff"))
		svc.Set("q/t", 1, tb)
		svc.Set("q/ip", 1, ib)
		var v withDual
		var err error
		var st *setec.Store
		if entry == "newstore" {
			st, err = setec.NewStore(context.Background(), setec.StoreConfig{Client: svc, Structs: []setec.Struct{{Value: &v, Prefix: "q"}}, PollInterval: -1, Logf: func(string, ...any) {}})
		} else {
			var f *setec.Fields
			if f, err = setec.ParseFields(&v, "q"); err == nil {
				if st, err = setec.NewStore(context.Background(), setec.StoreConfig{Client: svc, Secrets: f.Secrets(), PollInterval: -1, Logf: func(string, ...any) {}}); err == nil {
					err = f.Apply(context.Background(), st)
				}
			}
		}
		if st != nil {
			st.Close()
		}
		r.Eval(1)
		r.Count("dual_unmarshaler_fields", 1)
		r.Distinct("dual unmarshalers via " + entry)
		if err != nil {
			r.Violation("spurious-error", -1, fmt.Sprintf("fields whose types implement BinaryUnmarshaler (and more), binary-encoded secrets, via %s: %v", entry, err), nil)
			continue
		}
		if v.D.Via != "binary" || v.P == nil || v.P.Via != "binary" || v.D.Got != "\x00\x01 not text \xff" || !v.T.Equal(when) || v.IP != ip {
			r.Violation("field-value-wrong", -1, fmt.Sprintf("via %s: D filled via %q, P via %v, T=%v (want %v), IP=%v (want %v)", entry, v.D.Via, v.P, v.T, when, v.IP, ip), nil)
		}
	}
}

type allKinds struct {
	B []byte       `setec:"b"`
	S string       `setec:"s"`
	H setec.Secret `setec:"h"`
	U BinVal       `setec:"u"`
	J JS           `setec:"j,json"`
}

// otherStore: one parsed Fields value applied to a store, then to ANOTHER store (the first was closed; a
// test double was swapped for the real thing; a tenant switched): every field holds what the store it was last
// applied to serves.
func otherStore(r *evid.Run) {
	mk := func(gen int) (*setec.Store, *fakesvc.Service) {
		svc := fakesvc.New()
		for _, n := range []string{"b", "s", "h", "u"} {
			svc.Set("p/"+n, uint32(gen), []byte(fmt.Sprintf("%s-of-generation-%d", n, gen)))
		}
		svc.Set("p/j", uint32(gen), []byte(fmt.Sprintf(`{"a":%d,"b":"g%d"}`, gen, gen)))
		st, err := setec.NewStore(context.Background(), setec.StoreConfig{Client: svc, Secrets: []string{"p/b", "p/s", "p/h", "p/u", "p/j"}, PollInterval: -1, Logf: func(string, ...any) {}})
		if err != nil {
			panic(err)
		}
		return st, svc
	}
	var v allKinds
	f, err := setec.ParseFields(&v, "p")
	if err != nil {
		r.Violation("spurious-error", -1, err.Error(), nil)
		return
	}
	check := func(gen int, stage string) bool {
		r.Eval(1)
		r.Count("applies_to_another_store", 1)
		ok := string(v.B) == fmt.Sprintf("b-of-generation-%d", gen) && v.S == fmt.Sprintf("s-of-generation-%d", gen) && v.H != nil && string(v.H.Get()) == fmt.Sprintf("h-of-generation-%d", gen) &&
			string(v.U.Got) == fmt.Sprintf("u-of-generation-%d", gen) && v.J == JS{A: gen, B: fmt.Sprintf("g%d", gen)}
		if !ok {
			hv := ""
			if v.H != nil {
				hv = string(v.H.Get())
			}
			r.Violation("field-value-wrong", -1, fmt.Sprintf("%s: the fields hold B=%q S=%q H=%q U=%q J=%+v, the store they were applied to last serves generation %d", stage, v.B, v.S, hv, v.U.Got, v.J, gen), nil)
		}
		return ok
	}
	a, _ := mk(2)
	if err := f.Apply(context.Background(), a); err != nil || !check(2, "applied to store A") {
		return
	}
	a.Close()
	b, svcB := mk(3)
	if err := f.Apply(context.Background(), b); err != nil || !check(3, "applied to store A, then to store B") {
		return
	}
	// and B moves on: the Secret field is live on B
	svcB.Set("p/h", 4, []byte("h-of-generation-4"))
	b.Refresh(context.Background())
	if v.H == nil || string(v.H.Get()) != "h-of-generation-4" {
		r.Violation("secret-field-not-live", -1, fmt.Sprintf("after applying to store B and a poll of B the Secret field yields %q", v.H.Get()), nil)
	}
	b.Close()
	r.Distinct("apply to another store")
}

// manyFailingLookups: Apply on a running store with lookups enabled, over structs in which SEVERAL fields
// name secrets the service does not have (or refuses), in any position: every other field - also one whose
// secret the store has to fetch first - is filled, and the error names exactly the failing ones.
func manyFailingLookups(r *evid.Run) {
	rng := r.Rand(202020)
	for c, n := 0, r.N(150, 1500); c < n; c++ {
		svc := fakesvc.New()
		svc.Set("p/known", 1, []byte("value-of-known"))
		nf := 2 + rng.IntN(9)
		var fields []reflect.StructField
		kinds := make([]string, nf)
		nfail := 0
		for i := 0; i < nf; i++ {
			k := []string{"absent", "absent", "refused", "late", "late", "known"}[rng.IntN(6)]
			if c%4 == 0 && i < 4 {
				k = []string{"absent", "refused"}[rng.IntN(2)] // a run of failures first
			}
			if c%4 == 0 && i == nf-1 {
				k = "late"
			}
			kinds[i] = k
			name := fmt.Sprintf("%s-%d", k, i)
			switch k {
			case "late":
				svc.Set("p/"+name, 1, []byte("value-of-"+name))
			case "known":
				name = "known"
			default:
				nfail++
			}
			fields = append(fields, reflect.StructField{Name: fmt.Sprintf("F%d", i), Type: reflect.TypeOf(""), Tag: reflect.StructTag(fmt.Sprintf(`setec:"%s"`, name))})
		}
		svc.Behave = func(q *fakesvc.Req) fakesvc.Behaviour {
			if strings.HasPrefix(q.Name, "p/refused-") {
				return fakesvc.Behaviour{Fail: api.ErrAccessDenied, Plain: true}
			}
			return fakesvc.Behaviour{}
		}
		st, err := setec.NewStore(context.Background(), setec.StoreConfig{Client: svc, Secrets: []string{"p/known"}, AllowLookup: true, PollInterval: -1, Logf: func(string, ...any) {}})
		if err != nil {
			panic(err)
		}
		ptr := reflect.New(reflect.StructOf(fields))
		f, err := setec.ParseFields(ptr.Interface(), "p")
		if err != nil {
			r.Violation("spurious-error", -1, err.Error(), nil)
			st.Close()
			return
		}
		aerr := f.Apply(context.Background(), st)
		r.Eval(1)
		r.Count("applies_with_many_failing_lookups", 1)
		r.Distinct(fmt.Sprintf("apply with %d failing lookups", min(nfail, 5)))
		what := fmt.Sprintf("apply case %d: fields in order %v (absent = the service has no such secret, refused = access denied, late = on the service but not yet in the store, known = in the store)", c, kinds)
		if (aerr != nil) != (nfail > 0) {
			r.Violation("apply-error-wrong", -1, fmt.Sprintf("%s: Apply returned %v with %d failing fields", what, aerr, nfail), nil)
		}
		for i, k := range kinds {
			got := ptr.Elem().Field(i).String()
			want := ""
			switch k {
			case "late":
				want = fmt.Sprintf("value-of-late-%d", i)
			case "known":
				want = "value-of-known"
			}
			if got != want {
				r.Violation("field-not-filled-beside-failing-ones", -1, fmt.Sprintf("%s: field F%d (%s) holds %q, want %q; Apply reported: %v", what, i, k, got, want, aerr), nil)
				break
			}
			if want == "" && aerr != nil && !strings.Contains(aerr.Error(), fmt.Sprintf("F%d", i)) {
				r.Violation("apply-error-wrong", -1, fmt.Sprintf("%s: the error does not name failing field F%d: %v", what, i, aerr), nil)
				break
			}
		}
		st.Close()
	}
}

// Plain has no tagged field at all.
type Plain struct {
	A string
	B int
}

type tagsByValue struct {
	X string `setec:"x"`
}

type withNilEmbedded struct {
	*Plain
	Tok   string `setec:"tok"`
	Other *Plain
}

type withNilEmbeddedDeep struct {
	tagsByValue
	*Plain
	Y []byte `setec:"y"`
}

type holder struct {
	*Plain
	Note string
}

type withNilEmbeddedNested struct {
	holder
	Z string `setec:"z"`
}

// untaggedEmbeddedPointers: an embedded POINTER to a struct that carries no tag anywhere is an untagged field
// like any other: nil before, nil after - ParseFields, Apply and NewStore included, also when parsing fails.
func untaggedEmbeddedPointers(r *evid.Run) {
	svc := fakesvc.New()
	for _, n := range []string{"tok", "x", "y", "z"} {
		svc.Set("e/"+n, 1, []byte("value-of-"+n))
	}
	type probe struct {
		name   string
		v      any
		isNil  func() bool
		filled func() bool
	}
	mk := func() []probe {
		a, b, c := &withNilEmbedded{}, &withNilEmbeddedDeep{}, &withNilEmbeddedNested{}
		return []probe{
			{"struct{*Plain; Tok `setec`; Other *Plain}", a, func() bool { return a.Plain == nil && a.Other == nil }, func() bool { return a.Tok == "value-of-tok" }},
			{"struct{tagsByValue; *Plain; Y `setec`}", b, func() bool { return b.Plain == nil }, func() bool { return b.X == "value-of-x" && string(b.Y) == "value-of-y" }},
			{"struct{holder{*Plain; Note}; Z `setec`}", c, func() bool { return c.Plain == nil && c.Note == "" }, func() bool { return c.Z == "value-of-z" }},
		}
	}
	for _, via := range []string{"ParseFields", "ParseFields+Apply", "NewStore"} {
		for _, p := range mk() {
			r.Eval(1)
			r.Count("untagged_embedded_pointers_checked", 1)
			r.Distinct("untagged embedded pointer via " + via)
			var err error
			filled := true
			func() {
				defer func() {
					if pv := recover(); pv != nil {
						err = fmt.Errorf("panic: %v", pv)
					}
				}()
				switch via {
				case "ParseFields":
					_, err = setec.ParseFields(p.v, "e")
				case "ParseFields+Apply":
					var f *setec.Fields
					if f, err = setec.ParseFields(p.v, "e"); err == nil {
						st, serr := setec.NewStore(context.Background(), setec.StoreConfig{Client: svc, Secrets: []string{"e/tok"}, AllowLookup: true, PollInterval: -1, Logf: func(string, ...any) {}})
						if serr != nil {
							panic(serr)
						}
						err = f.Apply(context.Background(), st)
						st.Close()
						filled = p.filled()
					}
				case "NewStore":
					var st *setec.Store
					st, err = setec.NewStore(context.Background(), setec.StoreConfig{Client: svc, Structs: []setec.Struct{{Value: p.v, Prefix: "e"}}, PollInterval: -1, Logf: func(string, ...any) {}})
					if err == nil {
						st.Close()
						filled = p.filled()
					}
				}
			}()
			if err != nil {
				r.Violation("spurious-error", -1, fmt.Sprintf("%s on %s: %v", via, p.name, err), nil)
				continue
			}
			if !filled {
				r.Violation("field-value-wrong", -1, fmt.Sprintf("%s on %s: the tagged fields were not filled", via, p.name), nil)
			}
			if !p.isNil() {
				r.Violation("untagged-field-touched", -1, fmt.Sprintf("%s on %s: the embedded *Plain (no tag on it or anywhere inside it) was nil before and is allocated now: an untagged field was written", via, p.name), nil)
			}
		}
	}
}

// applyDuringRotation: Apply re-populates the fields of a struct while the poller installs new versions of
// the same secrets, of other lengths. Each field receives a value the secret HAS HAD - bytes of one version,
// whole - never a mixture cut or padded to another version's length.
func applyDuringRotation(r *evid.Run) {
	svc := fakesvc.New()
	short, long := []byte("SHORT-KEY"), []byte(strings.Repeat("LONG-KEY-", 16))
	vals := [][]byte{short, long, []byte("mid-length-value-0123456789"), {}}
	svc.Set("rot/b", 1, short)
	svc.Set("rot/s", 1, short)
	st, err := setec.NewStore(context.Background(), setec.StoreConfig{Client: svc, Secrets: []string{"rot/b", "rot/s"}, PollInterval: -1, Logf: func(string, ...any) {}})
	if err != nil {
		panic(err)
	}
	defer st.Close()
	var v struct {
		B []byte `setec:"b"`
		S string `setec:"s"`
	}
	f, err := setec.ParseFields(&v, "rot")
	if err != nil {
		r.Violation("spurious-error", -1, err.Error(), nil)
		return
	}
	var stop atomic.Bool
	done := make(chan struct{})
	go func() {
		defer close(done)
		for ver := uint32(2); !stop.Load(); ver++ {
			svc.Set("rot/b", ver, vals[int(ver)%len(vals)])
			svc.Set("rot/s", ver, vals[int(ver+1)%len(vals)])
			st.Refresh(context.Background())
		}
	}()
	isOne := func(b []byte) bool {
		for _, x := range vals {
			if string(x) == string(b) {
				return true
			}
		}
		return false
	}
	for i, n := 0, r.N(20000, 200000); i < n; i++ {
		if err := f.Apply(context.Background(), st); err != nil {
			r.Violation("spurious-error", -1, "Apply during a rotation: "+err.Error(), nil)
			break
		}
		r.Count("applies_during_a_rotation", 1)
		if !isOne(v.B) || !isOne([]byte(v.S)) {
			r.Violation("field-value-never-held", -1, fmt.Sprintf("Apply #%d while the poller was installing versions of other lengths: the []byte field holds %d bytes %.60q, the string field %d bytes %.60q; the secrets only ever held values of %d, %d, %d and 0 bytes, none of them this", i, len(v.B), v.B, len(v.S), v.S, len(short), len(long), len(vals[2])), nil)
			break
		}
	}
	stop.Store(true)
	<-done
	r.Eval(1)
	r.Distinct("apply during a rotation")
}

// overlappingApplies: several components of a program populate their structs at the same time, from one
// store with lookups enabled, each naming secrets the store has to fetch first - while the service takes its
// time. Each field receives the value of the secret IT names.
func overlappingApplies(r *evid.Run) {
	for round, n := 0, r.N(25, 250); round < n; round++ {
		svc := fakesvc.New()
		svc.Set("o/known", 1, []byte("value-of-known"))
		for _, nm := range []string{"db-password", "api-token", "signing-key", "webhook-secret"} {
			svc.Set("o/"+nm, 1, []byte("value-of-"+nm))
		}
		svc.Behave = func(q *fakesvc.Req) fakesvc.Behaviour {
			return fakesvc.Behaviour{Delay: time.Duration(1+round%4) * time.Millisecond}
		}
		st, err := setec.NewStore(context.Background(), setec.StoreConfig{Client: svc, Secrets: []string{"o/known"}, AllowLookup: true, PollInterval: -1, Logf: func(string, ...any) {}})
		if err != nil {
			panic(err)
		}
		var a struct {
			Token string `setec:"api-token"`
		}
		var b struct {
			Pass []byte `setec:"db-password"`
		}
		var c struct {
			Key  string `setec:"signing-key"`
			Hook string `setec:"webhook-secret"`
		}
		targets := []any{&a, &b, &c}
		errs := make([]error, len(targets))
		var wg sync.WaitGroup
		var gate atomic.Bool
		for i, tg := range targets {
			wg.Add(1)
			go func(i int, tg any) {
				defer wg.Done()
				f, err := setec.ParseFields(tg, "o")
				if err != nil {
					errs[i] = err
					return
				}
				for !gate.Load() {
				}
				if i > 0 && round%2 == 1 {
					time.Sleep(time.Duration(i) * 300 * time.Microsecond) // start while the first one's request is outstanding
				}
				errs[i] = f.Apply(context.Background(), st)
			}(i, tg)
		}
		gate.Store(true)
		wg.Wait()
		st.Close()
		r.Eval(1)
		r.Count("overlapping_applies", 1)
		for i, e := range errs {
			if e != nil {
				r.Violation("spurious-error", -1, fmt.Sprintf("overlapping Apply #%d: %v", i, e), nil)
				return
			}
		}
		got := map[string]string{"api-token": a.Token, "db-password": string(b.Pass), "signing-key": c.Key, "webhook-secret": c.Hook}
		for nm, g := range got {
			if g != "value-of-"+nm {
				r.Violation("field-holds-another-secrets-value", -1, fmt.Sprintf("round %d: three components applied their structs to one store at the same time (each naming secrets the store had to fetch): the field tagged %q holds %q", round, nm, g), nil)
				return
			}
		}
	}
	r.Distinct("overlapping applies")
}

// Login is a credential that unmarshals itself.
type Login struct{ User, Pass string }

func (l *Login) UnmarshalBinary(b []byte) error {
	u, p, _ := strings.Cut(string(b), ":")
	l.User, l.Pass = u, p
	return nil
}

// parsedTwice: a program parses its configuration struct itself (to re-apply the fields later) AND hands the
// same struct to NewStore. After the secret rotates and the store polls, re-applying fills the struct the
// program holds: a pointer-typed self-unmarshalling field points at the new credential, whichever parse
// allocated it; a pointer the program had put there itself is filled in place.
func parsedTwice(r *evid.Run) {
	for _, preset := range []bool{false, true} {
		for _, order := range []string{"parse-then-store", "store-then-parse"} {
			svc := fakesvc.New()
			svc.Set("p/login", 1, []byte("alice:first-password"))
			var cfg struct {
				Login *Login `setec:"login"`
				Plain string `setec:"login"`
			}
			var own *Login
			if preset {
				own = &Login{User: "preset"}
				cfg.Login = own
			}
			var f *setec.Fields
			var err error
			if order == "parse-then-store" {
				f, err = setec.ParseFields(&cfg, "p")
			}
			st, serr := setec.NewStore(context.Background(), setec.StoreConfig{Client: svc, Structs: []setec.Struct{{Value: &cfg, Prefix: "p"}}, PollInterval: -1, Logf: func(string, ...any) {}})
			if serr != nil {
				r.Violation("spurious-error", -1, serr.Error(), nil)
				continue
			}
			if order == "store-then-parse" {
				f, err = setec.ParseFields(&cfg, "p")
			}
			if err != nil {
				r.Violation("spurious-error", -1, err.Error(), nil)
				st.Close()
				continue
			}
			r.Eval(1)
			r.Count("structs_parsed_twice", 1)
			r.Distinct(fmt.Sprintf("struct parsed twice (%s, pointer preset=%t)", order, preset))
			what := fmt.Sprintf("struct parsed by the program and handed to NewStore (%s; pointer field preset by the program: %t)", order, preset)
			if cfg.Login == nil || cfg.Login.Pass != "first-password" || cfg.Plain != "alice:first-password" {
				r.Violation("field-value-wrong", -1, fmt.Sprintf("%s: after NewStore the struct holds Login=%+v Plain=%q", what, cfg.Login, cfg.Plain), nil)
				st.Close()
				continue
			}
			svc.Set("p/login", 2, []byte("alice:second-password"))
			st.Refresh(context.Background())
			if err := f.Apply(context.Background(), st); err != nil {
				r.Violation("spurious-error", -1, what+": "+err.Error(), nil)
			} else if cfg.Login == nil || cfg.Login.Pass != "second-password" || cfg.Plain != "alice:second-password" {
				r.Violation("field-value-wrong", -1, fmt.Sprintf("%s: the secret rotated, the store polled, Apply returned nil - and the struct holds Login=%+v Plain=%q", what, cfg.Login, cfg.Plain), nil)
			} else if preset && cfg.Login != own {
				r.Violation("untagged-field-touched", -1, what+": the pointer the program had put into the field was replaced instead of being filled", nil)
			}
			st.Close()
		}
	}
}

// presetByteFields: the []byte fields of the struct are not nil when it is handed over - the program initialised
// several of them, an untagged one and a variable of its own from ONE placeholder slice with room to spare.
// Each tagged field ends up with its own secret; the untagged field and the program's variable are untouched;
// and a slice taken from a field before a rotation keeps the bytes it had.
func presetByteFields(r *evid.Run) {
	svc := fakesvc.New()
	svc.Set("k/sign", 1, []byte("signing-key-GENERATION-1"))
	svc.Set("k/enc", 1, []byte("encryption-key-1"))
	placeholder := make([]byte, 11, 64)
	copy(placeholder, "placeholder")
	var v struct {
		Sign     []byte `setec:"sign"`
		Enc      []byte `setec:"enc"`
		Fallback []byte
	}
	v.Sign, v.Enc, v.Fallback = placeholder, placeholder, placeholder
	st, err := setec.NewStore(context.Background(), setec.StoreConfig{Client: svc, Structs: []setec.Struct{{Value: &v, Prefix: "k"}}, PollInterval: -1, Logf: func(string, ...any) {}})
	if err != nil {
		r.Violation("spurious-error", -1, err.Error(), nil)
		return
	}
	defer st.Close()
	f, _ := setec.ParseFields(&v, "k")
	check := func(when, sign, enc string) bool {
		r.Eval(1)
		r.Count("preset_byte_fields_checked", 1)
		if string(v.Sign) != sign || string(v.Enc) != enc {
			r.Violation("field-value-wrong", -1, fmt.Sprintf("%s: Sign holds %q (want %q), Enc holds %q (want %q)", when, v.Sign, sign, v.Enc, enc), nil)
			return false
		}
		if string(v.Fallback) != "placeholder" || string(placeholder) != "placeholder" {
			r.Violation("untagged-field-touched", -1, fmt.Sprintf("%s: the untagged field holds %q and the program's own placeholder %q", when, v.Fallback, placeholder), nil)
			return false
		}
		return true
	}
	if !check("struct whose []byte fields were preset from one shared slice, after NewStore", "signing-key-GENERATION-1", "encryption-key-1") {
		return
	}
	kept := v.Sign
	svc.Set("k/sign", 2, []byte("signing-key-GEN-2"))
	st.Refresh(context.Background())
	if err := f.Apply(context.Background(), st); err != nil {
		r.Violation("spurious-error", -1, err.Error(), nil)
		return
	}
	if check("after a rotation to a shorter value and a second Apply", "signing-key-GEN-2", "encryption-key-1") && string(kept) != "signing-key-GENERATION-1" {
		r.Violation("bytes-field-aliases-store", -1, fmt.Sprintf("a slice taken from the field before the rotation now reads %q: the second Apply wrote into storage it had handed out", kept), nil)
	}
	r.Distinct("preset byte fields")
}
