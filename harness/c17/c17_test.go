// C17 — backups are consistent snapshots, change-driven, rate-limited and
// quiescent. The real periodic-backup loop (reached through the verif hook)
// runs inside a testing/synctest bubble against an in-memory S3 endpoint; a
// driver plays a generated timeline of database writes, endpoint failures,
// idle periods and finally cancellation; predicates over the stamped request
// log decide. A watchdog outside the bubble diagnoses a loop that spins.
package c17

import (
	"bytes"
	"context"
	"encoding/json"
	"fmt"
	"io"
	"math/rand/v2"
	"net"
	"net/http"
	"net/http/httptest"
	"os"
	"path/filepath"
	"strings"
	"sync"
	"sync/atomic"
	"testing"
	"testing/synctest"
	"time"

	"github.com/aws/aws-sdk-go-v2/aws"
	"github.com/aws/aws-sdk-go-v2/credentials"
	"github.com/aws/aws-sdk-go-v2/service/s3"
	"github.com/tailscale/setec/audit"
	"github.com/tailscale/setec/db"
	"github.com/tailscale/setec/server"

	"verif/harness/internal/evid"
	"verif/harness/internal/realdb"
)

type s3req struct {
	Invocation string        `json:"invocation"`
	Start      time.Duration `json:"start"`
	End        time.Duration `json:"end"`
	Status     int           `json:"status"`
	Body       []byte        `json:"-"`
	BodyLen    int           `json:"body_len"`
	Path       string        `json:"path"`
}

// endpoint is an in-memory S3: mode is switched by the driver.
type endpoint struct {
	mu    sync.Mutex
	t0    time.Time
	mode  string // ok, deny (403, not retryable), err (500, retryable), hold
	hold  time.Duration
	log   []*s3req
	onReq func() // called (outside the lock) when a request arrives
}

func (e *endpoint) RoundTrip(req *http.Request) (*http.Response, error) {
	var body []byte
	if req.Body != nil {
		body, _ = io.ReadAll(req.Body)
		req.Body.Close()
	}
	e.mu.Lock()
	rec := &s3req{Invocation: req.Header.Get("Amz-Sdk-Invocation-Id"), Start: time.Since(e.t0), Body: body, BodyLen: len(body), Path: req.URL.Path}
	e.log = append(e.log, rec)
	mode, hold, on := e.mode, e.hold, e.onReq
	e.mu.Unlock()
	if on != nil {
		on()
	}
	if mode == "hold" {
		select {
		case <-time.After(hold):
			mode = "ok"
		case <-req.Context().Done():
			e.mu.Lock()
			rec.End, rec.Status = time.Since(e.t0), -1
			e.mu.Unlock()
			return nil, req.Context().Err()
		}
	}
	status, payload := 200, ""
	switch mode {
	case "deny":
		status, payload = 403, `<?xml version="1.0" encoding="UTF-8"?><Error><Code>AccessDenied</Code><Message>Access Denied</Message></Error>`
	case "err":
		status, payload = 500, `<?xml version="1.0" encoding="UTF-8"?><Error><Code>InternalError</Code><Message>We encountered an internal error.</Message></Error>`
	}
	e.mu.Lock()
	rec.End, rec.Status = time.Since(e.t0), status
	e.mu.Unlock()
	h := http.Header{"Content-Type": {"application/xml"}, "X-Amz-Request-Id": {"verif"}}
	if status == 200 {
		h.Set("ETag", `"d41d8cd98f00b204e9800998ecf8427e"`)
	}
	return &http.Response{StatusCode: status, Status: fmt.Sprintf("%d", status), Header: h, Body: io.NopCloser(strings.NewReader(payload)),
		ContentLength: int64(len(payload)), Request: req, Proto: "HTTP/1.1", ProtoMajor: 1, ProtoMinor: 1}, nil
}

func (e *endpoint) set(mode string, hold time.Duration) {
	e.mu.Lock()
	e.mode, e.hold = mode, hold
	e.mu.Unlock()
}
func (e *endpoint) snapshot() []s3req {
	e.mu.Lock()
	defer e.mu.Unlock()
	out := make([]s3req, len(e.log))
	for i, r := range e.log {
		out[i] = *r
	}
	return out
}

type invocation struct {
	ID       string        `json:"id"`
	Start    time.Duration `json:"start"`
	End      time.Duration `json:"end"`
	OK       bool          `json:"ok"`
	Attempts int           `json:"attempts"`
	Body     []byte        `json:"-"`
}

func invocations(log []s3req) []invocation {
	var out []invocation
	idx := map[string]int{}
	for _, q := range log {
		i, ok := idx[q.Invocation]
		if !ok {
			idx[q.Invocation] = len(out)
			out = append(out, invocation{ID: q.Invocation, Start: q.Start, Body: q.Body})
			i = len(out) - 1
		}
		out[i].Attempts++
		out[i].End = q.End
		if q.Status == 200 {
			out[i].OK = true
		}
	}
	return out
}

type snap struct {
	At   time.Duration
	Data []byte
}

type tevent struct {
	Kind string        `json:"kind"` // sleep, write, mode
	D    time.Duration `json:"d,omitempty"`
	N    int           `json:"n,omitempty"`
	Mode string        `json:"mode,omitempty"`
}

var progress atomic.Int64 // bumped by the driver inside the bubble; read by the watchdog outside

func TestC17(t *testing.T) {
	r := evid.Start("C17", "exploration")
	defer r.Finish(t)
	r.Assume("time is virtual (testing/synctest); the in-memory S3 endpoint honours the request context; SDK-internal retries are grouped by Amz-Sdk-Invocation-Id and count as one upload",
		"'written since the last successful upload' is judged inclusively at the instant that upload began (the window between the loop's generation read and its file read cannot be scheduled into)",
		"a loop that spins keeps the bubble from becoming idle; the watchdog outside the bubble then reports it with three CPU-time/stack samples as witness, anything else is inconclusive")
	dir := evid.TempDir(t)
	stop := r.SpinWatchdog(&progress, "periodicBackup", "backup-loop-spins", "the backup task spins on the CPU while nothing changes: virtual time cannot advance because the bubble never becomes idle")
	n := r.N(1500, 20000)
	for i := 0; i < n; i++ {
		if r.Skip(i) {
			continue
		}
		timeline(t, r, dir, i)
	}
	if r.Only < 0 {
		for i := 0; i < r.N(6, 40); i++ {
			alignedWriter(t, r, dir, i)
		}
		for i := 0; i < r.N(4, 30); i++ {
			unreadableFile(t, r, dir, i)
		}
		completeFileAtAllTimes(t, r, dir)
		for i := 0; i < 4; i++ {
			endedByDeadline(t, r, dir, i)
		}
	}
	stop()
	if r.Only < 0 {
		smoke(t, r, dir)
		serverOverTime(t, r, dir)
	}
	r.Require("servers_ended_by_a_deadline", "timelines_started_off_the_minute", "servers_followed_over_time", "uploads_checked", "failed_uploads", "retries_after_failure", "idle_periods_checked", "cancellations_checked", "uploads_with_write_during_window", "timelines", "suppressed_uploads_without_change", "uploads_hanging_past_the_limit", "timelines_on_reopened_database", "lone_activations", "uploads_racing_a_write", "backups_over_an_unreadable_file", "reads_of_the_file_during_saves", "failed_writes_in_timelines", "lone_version_deletions")
	r.Rule("seeded timelines of ~20 events over virtual hours: sleep d in {0,1s,30s,59s,60s,61s,5min,1h}, bursts of 1-3 real database writes (put/activate/delete), endpoint mode switches (ok / 403 not retryable / 500 retryable / hold for d with a write landing inside the held upload), then a quiet tail, an idle hour and cancellation at a random point of the minute cycle. Distinct = (endpoint mode at upload, writes during window?, outcome) and the smoke case through server.New")
}

func newS3(rt http.RoundTripper) *s3.Client {
	cfg := aws.Config{Region: "us-east-1", Credentials: credentials.NewStaticCredentialsProvider("AKIDVERIF", "SECRETVERIF", ""), HTTPClient: &http.Client{Transport: rt}}
	return s3.NewFromConfig(cfg, func(o *s3.Options) {
		o.BaseEndpoint = aws.String("http://s3.verif.invalid")
		o.UsePathStyle = true
	})
}

func timeline(t *testing.T, r *evid.Run, dir string, idx int) {
	r.Eval(1)
	rng := r.Rand(uint64(idx))
	var trace []tevent
	os.MkdirAll(filepath.Join(dir, fmt.Sprintf("t%d", idx)), 0o700)
	path := filepath.Join(dir, fmt.Sprintf("t%d", idx), "db")
	defer os.RemoveAll(filepath.Dir(path))
	key := realdb.DummyKey("c17")
	fail := func(k, msg string, extra map[string]any) {
		d := map[string]any{"timeline": trace}
		for kk, v := range extra {
			d[kk] = v
		}
		r.Violation(k, idx, fmt.Sprintf("timeline %d: %s", idx, msg), d)
	}
	synctest.Test(t, func(t *testing.T) {
		progress.Add(1)
		// (a bubble's clock starts on a full minute of a full hour; a real server starts whenever it starts)
		if idx%2 == 1 {
			time.Sleep(time.Duration(1+r.Rand(uint64(idx)+1<<41).IntN(3599_000)) * time.Millisecond)
			r.Count("timelines_started_off_the_minute", 1)
		}
		t0 := time.Now()
		kdb, err := db.Open(path, key, audit.New(io.Discard))
		if err != nil {
			t.Fatal(err)
		}
		su := realdb.Super()
		var snaps []snap
		var writes []time.Duration
		takeSnap := func() {
			b, _ := os.ReadFile(path)
			snaps = append(snaps, snap{time.Since(t0), b})
		}
		kdb.Put(su, "seed", []byte("seed-value"))
		if rng.IntN(3) == 0 {
			// a restarted server: the task runs on a database that was opened from an existing file
			if kdb, err = db.Open(path, key, audit.New(io.Discard)); err != nil {
				t.Fatal(err)
			}
			r.Count("timelines_on_reopened_database", 1)
		}
		takeSnap()
		nput := 0
		var wmu sync.Mutex
		bubbleEnd := make(chan struct{})
		var side sync.WaitGroup
		var endOnce sync.Once
		endSide := func() { endOnce.Do(func() { close(bubbleEnd) }); side.Wait() }
		defer endSide()
		srng := r.Rand(uint64(idx) + 1<<40) // writes landing inside a held upload draw from their own stream
		var write func()
		writeWith := func(rng *rand.Rand, mayFail bool) {
			kind := rng.IntN(8)
			if kind == 7 && !mayFail {
				kind = 1
			}
			if kind == 7 {
				// (the backup task is parked while the directory is away: it must not find the file missing.
				// Waiting happens before the lock is taken: a goroutine queueing for a mutex is not durably blocked)
				synctest.Wait()
			}
			wmu.Lock()
			defer wmu.Unlock()
			// a snapshot after EVERY single save: the loop may read the file between any two of them
			before, _ := os.ReadFile(path)
			switch kind {
			case 7:
				// a write that FAILS (the file system refuses the save): the database has not been written
				realdb.BreakDir(path, func() {
					kdb.Put(su, fmt.Sprintf("k%d", rng.IntN(4)), []byte(fmt.Sprintf("lost-%d-%d", idx, nput)))
				})
				r.Count("failed_writes_in_timelines", 1)
			case 4:
				// an activation on its own (the last write for a while may well be one): switch "seed" to another of its versions
				if in, err := kdb.Info(su, "seed"); err == nil && len(in.Versions) >= 2 {
					for _, v := range in.Versions {
						if v != in.ActiveVersion {
							kdb.Activate(su, "seed", v)
							r.Count("lone_activations", 1)
							break
						}
					}
				} else {
					kdb.Put(su, "seed", []byte(fmt.Sprintf("seed-%d-%d", idx, nput)))
				}
			case 5:
				// a version removed, nothing else
				if in, err := kdb.Info(su, "seed"); err == nil && len(in.Versions) >= 2 {
					for _, v := range in.Versions {
						if v != in.ActiveVersion {
							kdb.DeleteVersion(su, "seed", v)
							r.Count("lone_version_deletions", 1)
							break
						}
					}
				} else {
					kdb.Put(su, "seed", []byte(fmt.Sprintf("seed-%d-%d", idx, nput)))
				}
			case 6:
				// a whole secret removed, nothing else
				kdb.Delete(su, fmt.Sprintf("k%d", rng.IntN(4)))
			case 0:
				kdb.Activate(su, "seed", 1)
				takeSnap()
				kdb.Put(su, "seed", []byte(fmt.Sprintf("seed-%d-%d", idx, nput)))
			case 1:
				kdb.Delete(su, fmt.Sprintf("k%d", rng.IntN(4)))
				takeSnap()
				kdb.Put(su, fmt.Sprintf("k%d", rng.IntN(4)), bytes.Repeat([]byte{byte(nput)}, 1+rng.IntN(3000)))
			default:
				kdb.Put(su, fmt.Sprintf("k%d", rng.IntN(4)), []byte(fmt.Sprintf("v-%d-%d", idx, nput)))
			}
			nput++
			if after, _ := os.ReadFile(path); !bytes.Equal(before, after) { // (deleting what is not there writes nothing)
				writes = append(writes, time.Since(t0))
			}
			takeSnap()
		}
		write = func() { writeWith(rng, true) }
		sideWrite := func() { writeWith(srng, false) }
		ep := &endpoint{t0: t0, mode: "ok"}
		client := newS3(ep)
		ctx, cancel := context.WithCancel(context.Background())
		done := make(chan struct{})
		go func() {
			defer close(done)
			server.VerifRunPeriodicBackup(ctx, kdb, client, "backup-bucket")
		}()
		var sideCancel chan struct{}
		step := func(ev tevent) {
			trace = append(trace, ev)
			progress.Add(1)
			switch ev.Kind {
			case "sleep":
				time.Sleep(ev.D)
			case "write":
				for i := 0; i < ev.N; i++ {
					write()
				}
			case "mode":
				ep.set(ev.Mode, ev.D)
				// a write that was scheduled to land inside an earlier held upload is called off when the mode changes
				if sideCancel != nil {
					close(sideCancel)
				}
				sideCancel = make(chan struct{})
				cancelThis := sideCancel
				if ev.Mode == "hold" {
					// a write lands while the held upload is in flight
					ep.mu.Lock()
					armed := true
					ep.onReq = func() {
						if armed {
							armed = false
							side.Add(1)
							go func() {
								defer side.Done()
								select {
								case <-time.After(ev.D / 2):
									select {
									case <-cancelThis:
									default:
										sideWrite()
									}
								case <-cancelThis:
								case <-bubbleEnd:
								}
							}()
						}
					}
					ep.mu.Unlock()
				} else {
					ep.mu.Lock()
					ep.onReq = nil
					ep.mu.Unlock()
				}
			}
		}
		sleeps := []time.Duration{0, time.Second, 30 * time.Second, 59 * time.Second, 60 * time.Second, 61 * time.Second, 5 * time.Minute, time.Hour}
		modeAt := map[time.Duration]string{}
		for e, ne := 0, 8+rng.IntN(20); e < ne; e++ {
			switch x := rng.IntN(10); {
			case x < 5:
				step(tevent{Kind: "sleep", D: sleeps[rng.IntN(len(sleeps))]})
			case x < 8:
				step(tevent{Kind: "write", N: 1 + rng.IntN(3)})
			default:
				m := []string{"ok", "ok", "deny", "err", "hold"}[rng.IntN(5)]
				ev := tevent{Kind: "mode", Mode: m}
				if m == "hold" {
					ev.D = time.Duration(1+rng.IntN(200)) * time.Second
					if rng.IntN(3) == 0 {
						ev.D = time.Duration(6+rng.IntN(20)) * time.Minute // longer than the task allows one upload to take
						r.Count("uploads_hanging_past_the_limit", 1)
					}
				}
				step(ev)
				modeAt[time.Since(t0)] = m
			}
		}
		// writes and failures stop: within two minutes (plus SDK retry time) the newest backup equals the file
		step(tevent{Kind: "mode", Mode: "ok"})
		quietFrom := time.Since(t0)
		// (an upload already in flight may hang until the task's own five-minute limit ends it; then comes the
		// one-minute wait and the retry: twelve minutes cover that)
		step(tevent{Kind: "sleep", D: 12 * time.Minute})
		synctest.Wait()
		cur, _ := os.ReadFile(path)
		invs := invocations(ep.snapshot())
		var newest *invocation
		for i := range invs {
			if invs[i].OK {
				newest = &invs[i]
			}
		}
		if newest == nil || !bytes.Equal(newest.Body, cur) {
			fail("no-convergence", fmt.Sprintf("writes and upload failures stopped at %v; twelve minutes later the newest successful backup is not the current database file", quietFrom), map[string]any{"uploads": invs, "writes": writes})
			cancel()
			<-done
			return
		}
		// idle: nothing changes for an hour -> no request at all
		nBefore := len(ep.snapshot())
		step(tevent{Kind: "sleep", D: time.Hour})
		r.Count("idle_periods_checked", 1)
		if n := len(ep.snapshot()); n != nBefore {
			fail("upload-without-change", fmt.Sprintf("%d S3 request(s) during an hour in which the database was not written", n-nBefore), map[string]any{"uploads": invocations(ep.snapshot())})
		}
		// cancellation at a random point of the cycle, sometimes in the middle of an upload
		if rng.IntN(3) == 0 {
			step(tevent{Kind: "mode", Mode: "hold", D: 10 * time.Minute})
			step(tevent{Kind: "write", N: 1})
			step(tevent{Kind: "sleep", D: 61 * time.Second})
		}
		step(tevent{Kind: "sleep", D: time.Duration(rng.IntN(120)) * time.Second})
		cancel()
		synctest.Wait()
		r.Count("cancellations_checked", 1)
		select {
		case <-done:
		default:
			tc := time.Since(t0)
			select {
			case <-done:
				fail("late-termination", fmt.Sprintf("the backup task was still running when everything had settled after cancellation at %v; it ended by %v", tc, time.Since(t0)), nil)
			case <-time.After(2 * time.Hour):
				fail("no-termination", fmt.Sprintf("the backup task is still running two hours after its context was cancelled at %v", tc), nil)
				t.Fatalf("timeline %d: backup loop does not terminate", idx)
			}
		}
		// ---- predicates over the whole log ----
		endSide()
		invs = invocations(ep.snapshot())
		if len(invs) == 0 || invs[0].Start > time.Second {
			fail("no-upload-at-startup", "no upload was attempted when the task started", map[string]any{"uploads": invs})
			return
		}
		var lastOKStart time.Duration = -1
		for i, in := range invs {
			r.Count("uploads_checked", 1)
			// byte-exact copy of a complete file that existed during the upload's window
			match := false
			for k, s := range snaps {
				if !bytes.Equal(s.Data, in.Body) {
					continue
				}
				until := time.Duration(1<<62 - 1)
				if k+1 < len(snaps) {
					until = snaps[k+1].At
				}
				if s.At <= in.End && until >= in.Start {
					match = true
				}
			}
			if !match {
				fail("backup-not-a-snapshot", fmt.Sprintf("upload %d (started %v) is not a byte-exact copy of a database file that existed during the upload (%d bytes)", i, in.Start, len(in.Body)), map[string]any{"uploads": invs})
				return
			}
			if in.OK {
				p := filepath.Join(dir, fmt.Sprintf("t%d-restore.db", idx))
				os.WriteFile(p, in.Body, 0o600)
				_, err := realdb.Open(p, key)
				os.Remove(p)
				if err != nil {
					fail("backup-does-not-open", fmt.Sprintf("upload %d does not open with the server's key: %v", i, err), nil)
					return
				}
			} else {
				r.Count("failed_uploads", 1)
			}
			if i > 0 {
				if gap := in.Start - invs[i-1].Start; gap < 60*time.Second {
					fail("uploads-too-frequent", fmt.Sprintf("uploads %d and %d started %v apart (at most one per minute)", i-1, i, gap), map[string]any{"uploads": invs})
					return
				}
				prev := invs[i-1]
				if !prev.OK {
					r.Count("retries_after_failure", 1)
				} else {
					// the previous upload succeeded: this one needs a database write since it began
					changed := false
					for _, w := range writes {
						if w >= lastOKStart && w <= in.Start {
							changed = true
						}
					}
					if !changed {
						fail("upload-without-change", fmt.Sprintf("upload %d at %v although the database was not written since the last successful upload began at %v", i, in.Start, lastOKStart), map[string]any{"uploads": invs, "writes": writes})
						return
					}
				}
			}
			duringWindow := false
			for _, w := range writes {
				if w > in.Start && w < in.End {
					duringWindow = true
				}
			}
			if duringWindow {
				r.Count("uploads_with_write_during_window", 1)
			}
			r.Distinct(fmt.Sprintf("upload ok=%t attempts=%d write-during-window=%t", in.OK, in.Attempts, duringWindow))
			if in.OK {
				lastOKStart = in.Start
			}
			// a failed upload is retried after a minute
			if !in.OK && i+1 == len(invs) && in.End+61*time.Second < quietFrom {
				fail("failed-upload-not-retried", fmt.Sprintf("upload %d failed at %v and was never retried", i, in.End), map[string]any{"uploads": invs})
				return
			}
			if !in.OK && i+1 < len(invs) && invs[i+1].Start > in.End+61*time.Second {
				fail("failed-upload-not-retried", fmt.Sprintf("upload %d failed at %v; the next attempt came only at %v", i, in.End, invs[i+1].Start), map[string]any{"uploads": invs})
				return
			}
		}
		// minutes in which nothing had changed must not have produced uploads: count them as observed suppression
		r.Count("suppressed_uploads_without_change", int(time.Since(t0)/time.Minute)-len(invs))
		r.Count("timelines", 1)
		if idx < 2 {
			r.Sample(map[string]any{"timeline": idx, "events": trace, "uploads": invs, "writes": writes})
		}
	})
}

// smoke: server.New with a backup bucket starts the task; the first upload is byte-exact (real time, loopback).
func smoke(t *testing.T, r *evid.Run, dir string) {
	r.Eval(1)
	ln, err := net.Listen("tcp", "127.0.0.1:0")
	if err != nil {
		r.Count("smoke_skipped", 1)
		return
	}
	got := make(chan []byte, 4)
	var slowFor atomic.Int64 // nanoseconds every request takes before its body is read (a slow link)
	hs := &http.Server{Handler: http.HandlerFunc(func(w http.ResponseWriter, req *http.Request) {
		b, err := io.ReadAll(req.Body)
		if d := slowFor.Load(); d > 0 {
			time.Sleep(time.Duration(d)) // (storing the object takes its time)
		}
		if err != nil || req.Context().Err() != nil {
			return // the client has given up on this request: nothing was stored
		}
		if req.Method == "PUT" {
			select {
			case got <- b:
			default:
			}
		}
		w.Header().Set("ETag", `"x"`)
		w.WriteHeader(200)
	})}
	go hs.Serve(ln)
	defer hs.Close()
	for k, v := range map[string]string{"AWS_ENDPOINT_URL": "http://" + ln.Addr().String(), "AWS_ACCESS_KEY_ID": "AKIDVERIF", "AWS_SECRET_ACCESS_KEY": "SECRETVERIF",
		"AWS_EC2_METADATA_DISABLED": "true", "AWS_CONFIG_FILE": "/nonexistent", "AWS_SHARED_CREDENTIALS_FILE": "/nonexistent", "AWS_S3_US_EAST_1_REGIONAL_ENDPOINT": "regional"} {
		t.Setenv(k, v)
	}
	// the server as an embedding program creates it, in each of the legal configurations: the database handed
	// over open (alone; with a DBPath/Key left in the configuration that name an OLDER database under another
	// key - documented as ignored when DB is set; with a DBPath that names nothing), or opened by the server
	for ci, kind := range []string{"db-only", "db-and-stale-dbpath", "db-and-dangling-dbpath", "dbpath-only", "slow-endpoint"} {
		os.MkdirAll(filepath.Join(dir, fmt.Sprintf("smoke%d", ci), "old-state"), 0o700)
		path := filepath.Join(dir, fmt.Sprintf("smoke%d", ci), "database")
		oldPath := filepath.Join(dir, fmt.Sprintf("smoke%d", ci), "old-state", "database")
		key := realdb.DummyKey("smoke")
		kdb, err := realdb.Open(path, key)
		if err != nil {
			t.Fatal(err)
		}
		kdb.Put(realdb.Super(), "s", []byte("smoke-value"))
		if odb, err := realdb.Open(oldPath, realdb.DummyKey("smoke-old-key")); err == nil {
			odb.Put(realdb.Super(), "legacy", []byte("old-value"))
		}
		want, _ := os.ReadFile(path)
		cfg := server.Config{DB: kdb, Mux: http.NewServeMux(), BackupBucket: "bucket", BackupBucketRegion: "us-east-1"}
		switch kind {
		case "db-and-stale-dbpath":
			cfg.DBPath, cfg.Key = oldPath, realdb.DummyKey("smoke-old-key")
		case "db-and-dangling-dbpath":
			cfg.DBPath = filepath.Join(dir, fmt.Sprintf("smoke%d", ci), "nothing-here", "database")
		case "dbpath-only":
			cfg.DB, cfg.DBPath, cfg.Key, cfg.AuditLog = nil, path, key, audit.New(io.Discard)
		}
		for len(got) > 0 {
			<-got
		}
		ctx, cancel := context.WithCancel(context.Background())
		_, err = server.New(ctx, cfg)
		if err != nil {
			cancel()
			r.Count("smoke_skipped", 1)
			r.Extra("smoke_note", "server.New with a backup bucket could not be configured offline: "+err.Error())
			return
		}
		wait := 20 * time.Second
		if kind == "slow-endpoint" {
			// every request takes eleven seconds to be answered (a slow link, a big database): well within the five
			// minutes an upload is given
			slowFor.Store(int64(11 * time.Second))
			wait = 27 * time.Second
		}
		select {
		case <-time.After(wait):
			if kind == "slow-endpoint" {
				r.Violation("slow-upload-abandoned", -1, "an endpoint that needs 11 s per request (an upload is given five minutes) received no complete start-up upload within 27 s from a server created by server.New", nil)
				slowFor.Store(0)
				cancel()
				continue
			}
			r.Inconclusive("smoke (" + kind + "): no upload reached the loopback endpoint within 20 s")
		case b := <-got:
			slowFor.Store(0)
			r.Distinct("smoke through server.New, " + kind)
			r.Count("smoke_uploads", 1)
			// (the SDK may use aws-chunked encoding on plain http; accept a body that contains the file)
			if !bytes.Equal(b, want) && !bytes.Contains(b, want) {
				r.Violation("smoke-backup-not-exact", -1, fmt.Sprintf("configuration %s: the start-up upload made by a server created with a backup bucket (%d bytes) is not the file of the database it serves (%d bytes)", kind, len(b), len(want)), nil)
			}
		}
		cancel()
	}
}

var _ = rand.IntN

// alignedWriter: a client writes every minute on the minute - exactly when the backup task wakes up - so that
// the task's read of the file and a save of the database run at the same time (for real: both goroutines are
// runnable at the same virtual instant). The database path is a regular file or a symbolic link. Every object
// uploaded is a complete database file: byte for byte one of the states the file has been in.
func alignedWriter(t *testing.T, r *evid.Run, dir string, idx int) {
	r.Eval(1)
	sdir := filepath.Join(dir, fmt.Sprintf("aligned%d", idx))
	os.MkdirAll(sdir, 0o700)
	defer os.RemoveAll(sdir)
	path := filepath.Join(sdir, "db")
	symlinked := idx%2 == 1
	if symlinked {
		path = filepath.Join(sdir, "database")
		os.Symlink(filepath.Join(sdir, "database.real"), path)
	}
	synctest.Test(t, func(t *testing.T) {
		progress.Add(1)
		t0 := time.Now()
		kdb, err := db.Open(path, realdb.DummyKey("c17a"), audit.New(io.Discard))
		if err != nil {
			t.Fatal(err)
		}
		su := realdb.Super()
		big := bytes.Repeat([]byte("0123456789abcdef"), 1<<15) // half a megabyte: a save takes a while
		var smu sync.Mutex
		states := map[string]bool{}
		snap := func() {
			b, _ := os.ReadFile(path)
			smu.Lock()
			states[string(b)] = true
			smu.Unlock()
		}
		kdb.Put(su, "bulk", big)
		snap()
		ep := &endpoint{t0: t0, mode: "ok"}
		ctx, cancel := context.WithCancel(context.Background())
		done := make(chan struct{})
		go func() { defer close(done); server.VerifRunPeriodicBackup(ctx, kdb, newS3(ep), "backup-bucket") }()
		wdone := make(chan struct{})
		go func() {
			defer close(wdone)
			for k := 0; k < 40; k++ {
				time.Sleep(time.Minute)
				progress.Add(1)
				kdb.Put(su, fmt.Sprintf("k%d", k%3), []byte(fmt.Sprintf("v-%d-%d", idx, k)))
				snap()
			}
		}()
		<-wdone
		time.Sleep(3 * time.Minute)
		cancel()
		<-done
		n := 0
		for _, in := range invocations(ep.snapshot()) {
			if !in.OK {
				continue
			}
			n++
			r.Count("uploads_racing_a_write", 1)
			smu.Lock()
			known := states[string(in.Body)]
			smu.Unlock()
			if !known {
				r.Violation("upload-not-a-file-snapshot", idx, fmt.Sprintf("aligned writer case %d (database path is a symbolic link: %t): the object uploaded at %v (%d bytes) is not a state the database file has ever been in (a complete file is about %d bytes)", idx, symlinked, in.Start, len(in.Body), len(big)*4/3), nil)
				return
			}
		}
		if n < 10 {
			r.Inconclusive(fmt.Sprintf("aligned writer case %d: only %d uploads", idx, n))
		}
		r.Distinct(fmt.Sprintf("aligned writer symlink=%t", symlinked))
	})
}

// unreadableFile: for a few minutes the database file cannot be read (its directory is away: a volume being
// remounted). The backup task notes the failure and tries again a minute later, like after any failed upload -
// it does not spin - and once the file is back the pending backup is made.
func unreadableFile(t *testing.T, r *evid.Run, dir string, idx int) {
	r.Eval(1)
	sdir := filepath.Join(dir, fmt.Sprintf("unreadable%d", idx))
	os.MkdirAll(sdir, 0o700)
	defer os.RemoveAll(sdir)
	path := filepath.Join(sdir, "db")
	synctest.Test(t, func(t *testing.T) {
		progress.Add(1)
		t0 := time.Now()
		kdb, err := db.Open(path, realdb.DummyKey("c17u"), audit.New(io.Discard))
		if err != nil {
			t.Fatal(err)
		}
		su := realdb.Super()
		kdb.Put(su, "seed", []byte("seed"))
		ep := &endpoint{t0: t0, mode: "ok"}
		ctx, cancel := context.WithCancel(context.Background())
		done := make(chan struct{})
		go func() { defer close(done); server.VerifRunPeriodicBackup(ctx, kdb, newS3(ep), "backup-bucket") }()
		time.Sleep(time.Duration(10+idx*7) * time.Second)
		kdb.Put(su, "pending", []byte("to be backed up")) // a change the task owes a backup for
		want, _ := os.ReadFile(path)
		synctest.Wait()
		realdb.BreakDir(path, func() {
			progress.Add(1)
			time.Sleep(time.Duration(2+idx%4) * time.Minute) // the task wakes up in here, more than once, and cannot read the file
			synctest.Wait()
		})
		progress.Add(1)
		time.Sleep(2*time.Minute + 5*time.Second)
		synctest.Wait()
		ok := false
		for _, in := range invocations(ep.snapshot()) {
			if in.OK && bytes.Equal(in.Body, want) {
				ok = true
			}
		}
		r.Count("backups_over_an_unreadable_file", 1)
		if !ok {
			r.Violation("no-convergence", idx, fmt.Sprintf("unreadable-file case %d: the database file was away for a few minutes; two minutes after it came back the pending change has not been backed up", idx), map[string]any{"uploads": invocations(ep.snapshot())})
		}
		// cancellation still ends the task at once
		cancel()
		select {
		case <-done:
		case <-time.After(10 * time.Second):
			r.Violation("late-termination", idx, fmt.Sprintf("unreadable-file case %d: the task does not end within 10 s of cancellation", idx), nil)
		}
		r.Distinct("database file unreadable for a while")
	})
}

// completeFileAtAllTimes (real time): what the backup task uploads is what it reads from the database path at
// some moment of its own choosing, while clients go on writing. So at EVERY moment the path - a regular file, or
// a symbolic link to one - must read as one complete database file. Readers hammer the path the way the task
// reads it (one os.ReadFile) while the real database saves as fast as it can.
func completeFileAtAllTimes(t *testing.T, r *evid.Run, dir string) {
	for li, symlinked := range []bool{false, true} {
		sdir := filepath.Join(dir, fmt.Sprintf("complete%d", li))
		os.MkdirAll(sdir, 0o700)
		path := filepath.Join(sdir, "db")
		if symlinked {
			path = filepath.Join(sdir, "database")
			os.Symlink(filepath.Join(sdir, "database.real"), path)
		}
		kdb, err := db.Open(path, realdb.DummyKey("c17c"), audit.New(io.Discard))
		if err != nil {
			t.Fatal(err)
		}
		su := realdb.Super()
		kdb.Put(su, "bulk", bytes.Repeat([]byte("0123456789abcdef"), 1<<14))
		stop := make(chan struct{})
		var wg sync.WaitGroup
		var bad atomic.Int32
		var reads atomic.Int64
		for g := 0; g < 4; g++ {
			wg.Add(1)
			go func() {
				defer wg.Done()
				for {
					select {
					case <-stop:
						return
					default:
					}
					b, err := os.ReadFile(path)
					reads.Add(1)
					var w struct {
						Version int
						DEK, DB []byte
					}
					if err != nil || json.Unmarshal(b, &w) != nil || len(w.DB) == 0 {
						if bad.Add(1) == 1 {
							r.Violation("upload-not-a-file-snapshot", -1, fmt.Sprintf("while the database was saving, a read of its path (a symbolic link: %t) returned %d bytes that are not a complete database file (err %v): a backup taken at that moment would be useless", symlinked, len(b), err), nil)
						}
						return
					}
				}
			}()
		}
		deadline := time.Now().Add(time.Duration(r.N(1200, 8000)) * time.Millisecond)
		for k := 0; time.Now().Before(deadline) && bad.Load() == 0; k++ {
			kdb.Put(su, fmt.Sprintf("k%d", k%5), []byte(fmt.Sprintf("v%d", k)))
		}
		close(stop)
		wg.Wait()
		r.Eval(1)
		r.Count("reads_of_the_file_during_saves", int(reads.Load()))
		r.Distinct(fmt.Sprintf("complete file at all times symlink=%t", symlinked))
	}
}

// rotatingS3 is a loopback S3 endpoint that accepts a PutObject only when it carries a session token that is
// valid at that moment (as S3 does for temporary credentials), and closes every connection after the reply (an
// idle keep-alive connection's reader would keep the virtual clock from advancing).
type rotatingS3 struct {
	mu       sync.Mutex
	valid    map[string]bool
	objects  [][]byte
	rejected int
}

func (b *rotatingS3) ServeHTTP(w http.ResponseWriter, req *http.Request) {
	body, err := io.ReadAll(req.Body)
	w.Header().Set("Connection", "close")
	if err != nil || req.Method != http.MethodPut {
		http.Error(w, "bad request", http.StatusBadRequest)
		return
	}
	tok := req.Header.Get("X-Amz-Security-Token")
	b.mu.Lock()
	defer b.mu.Unlock()
	if !b.valid[tok] {
		b.rejected++
		w.Header().Set("Content-Type", "application/xml")
		w.WriteHeader(http.StatusBadRequest)
		io.WriteString(w, `<?xml version="1.0" encoding="UTF-8"?><Error><Code>ExpiredToken</Code><Message>The provided token has expired.</Message><RequestId>verif</RequestId></Error>`)
		return
	}
	b.objects = append(b.objects, body)
	w.Header().Set("ETag", `"x"`)
	w.WriteHeader(http.StatusOK)
}

func (b *rotatingS3) set(tok string, ok bool) { b.mu.Lock(); b.valid[tok] = ok; b.mu.Unlock() }
func (b *rotatingS3) state() ([][]byte, int) {
	b.mu.Lock()
	defer b.mu.Unlock()
	return append([][]byte(nil), b.objects...), b.rejected
}

// serverOverTime: the server as a program creates it (server.New, ambient AWS configuration), followed for
// virtual minutes: it lives on a host whose credentials are temporary and rotate (a credential_process, as an
// instance role or SSO gives them), it is written to well after start-up, and its own context stays alive
// throughout. Some minutes after the last write the newest object in the bucket is the database file.
func serverOverTime(t *testing.T, r *evid.Run, dir string) {
	if _, err := os.Stat("/bin/cat"); err != nil {
		r.Count("servers_followed_over_time", 1)
		r.Extra("server_over_time_note", "skipped: no /bin/cat for the credential_process")
		return
	}
	for ci, writeAt := range []time.Duration{45 * time.Second, 150 * time.Second, 4 * time.Minute} {
		s3f := &rotatingS3{valid: map[string]bool{}}
		hs := httptest.NewServer(s3f) // outside the bubble: real loopback I/O, during which virtual time stands still
		cdir := filepath.Join(dir, fmt.Sprintf("overtime%d", ci))
		os.MkdirAll(cdir, 0o700)
		credFile := filepath.Join(cdir, "current-credentials.json")
		writeCreds := func(token string, expires time.Time) {
			js := fmt.Sprintf(`{"Version":1,"AccessKeyId":"ASIAVERIFVERIFVERIF0","SecretAccessKey":"verifverifverifverifverifverifverifverif","SessionToken":%q,"Expiration":%q}`, token, expires.UTC().Format(time.RFC3339))
			os.WriteFile(credFile+".new", []byte(js), 0o600)
			os.Rename(credFile+".new", credFile)
		}
		awsConfig := filepath.Join(cdir, "aws-config")
		os.WriteFile(awsConfig, []byte("[default]\nregion = us-east-1\ncredential_process = /bin/cat "+credFile+"\n"), 0o600)
		for k, v := range map[string]string{"AWS_ACCESS_KEY_ID": "", "AWS_SECRET_ACCESS_KEY": "", "AWS_SESSION_TOKEN": "", "AWS_PROFILE": "", "AWS_WEB_IDENTITY_TOKEN_FILE": "", "AWS_ROLE_ARN": "",
			"AWS_CONTAINER_CREDENTIALS_FULL_URI": "", "AWS_CONTAINER_CREDENTIALS_RELATIVE_URI": "", "AWS_CONFIG_FILE": awsConfig, "AWS_SHARED_CREDENTIALS_FILE": os.DevNull,
			"AWS_EC2_METADATA_DISABLED": "true", "AWS_ENDPOINT_URL_S3": hs.URL, "AWS_ENDPOINT_URL": hs.URL, "AWS_REQUEST_CHECKSUM_CALCULATION": "when_required", "NO_PROXY": "*"} {
			t.Setenv(k, v)
		}
		path := filepath.Join(cdir, "database")
		kdb, err := realdb.Open(path, realdb.DummyKey("overtime"))
		if err != nil {
			t.Fatal(err)
		}
		kdb.Put(realdb.Super(), "alpha", []byte("one"))
		synctest.Test(t, func(t *testing.T) {
			start := time.Now()
			at := func(off time.Duration) { time.Sleep(time.Until(start.Add(off))) }
			writeCreds("session-token-1", start.Add(2*time.Minute))
			s3f.set("session-token-1", true)
			ctx, cancel := context.WithCancel(context.Background())
			defer func() {
				cancel()
				time.Sleep(time.Second) // let the backup task see the cancellation and leave the bubble
			}()
			if _, err := server.New(ctx, server.Config{DB: kdb, Mux: http.NewServeMux(), BackupBucket: "bucket", BackupBucketRegion: "us-east-1"}); err != nil {
				r.Extra("server_over_time_note", "server.New could not be configured offline: "+err.Error())
				return
			}
			at(5 * time.Second)
			if objs, _ := s3f.state(); len(objs) != 1 {
				r.Inconclusive(fmt.Sprintf("server over time %d: %d start-up uploads reached the loopback endpoint", ci, len(objs)))
				return
			}
			wrote := false
			write := func() {
				if !wrote {
					kdb.Put(realdb.Super(), "beta", []byte("two"))
					wrote = true
				}
			}
			if writeAt < 90*time.Second {
				at(writeAt)
				write()
			}
			at(90 * time.Second) // the host rotates its temporary credentials ...
			writeCreds("session-token-2", start.Add(time.Hour))
			s3f.set("session-token-2", true)
			at(2 * time.Minute) // ... and the first token reaches its stated expiry
			s3f.set("session-token-1", false)
			if !wrote {
				at(writeAt)
				write()
			}
			at(writeAt + 6*time.Minute)
			r.Eval(1)
			r.Count("servers_followed_over_time", 1)
			r.Distinct(fmt.Sprintf("server followed over time, written at %v", writeAt))
			cur, _ := os.ReadFile(path)
			objs, rejected := s3f.state()
			if ctx.Err() != nil {
				t.Fatal("harness: the server's context ended")
			}
			if len(objs) == 0 || !bytes.Equal(objs[len(objs)-1], cur) {
				last := -1
				if len(objs) > 0 {
					last = len(objs[len(objs)-1])
				}
				r.Violation("no-backup-of-the-last-write", -1, fmt.Sprintf("a server created by server.New with a backup bucket (its context alive throughout, temporary credentials rotated by the host at 1:30, the old token expiring at 2:00) was written at %v; six minutes later the bucket holds %d object(s), the newest of %d bytes, and the database file has %d bytes (%d uploads were refused as expired)", writeAt, len(objs), last, len(cur), rejected), nil)
			}
		})
		hs.Close()
	}
}

// endedByDeadline: the server's context ends because its DEADLINE passes (a server run with a time limit: a
// test fixture, a batch job) - not by a cancel call - at a moment when an upload is pending or in flight. The
// task terminates all the same. (A task that spins instead keeps the bubble busy: the watchdog reports it.)
func endedByDeadline(t *testing.T, r *evid.Run, dir string, idx int) {
	r.Eval(1)
	os.MkdirAll(filepath.Join(dir, fmt.Sprintf("deadline%d", idx)), 0o700)
	path := filepath.Join(dir, fmt.Sprintf("deadline%d", idx), "db")
	synctest.Test(t, func(t *testing.T) {
		progress.Add(1)
		t0 := time.Now()
		kdb, err := db.Open(path, realdb.DummyKey("c17dl"), audit.New(io.Discard))
		if err != nil {
			t.Fatal(err)
		}
		su := realdb.Super()
		kdb.Put(su, "seed", []byte("seed"))
		ep := &endpoint{t0: t0, mode: "ok"}
		limit := []time.Duration{90 * time.Second, 61 * time.Second, 4 * time.Minute, 150 * time.Second}[idx]
		ctx, cancel := context.WithTimeout(context.Background(), limit)
		defer cancel()
		done := make(chan struct{})
		go func() { defer close(done); server.VerifRunPeriodicBackup(ctx, kdb, newS3(ep), "backup-bucket") }()
		time.Sleep(30 * time.Second)
		kdb.Put(su, "k", []byte("written at 0:30"))
		ep.set("hold", 10*time.Minute) // the upload that begins at 1:00 (or a later retry) hangs: it is in flight when the deadline passes
		progress.Add(1)
		select {
		case <-done:
			r.Count("servers_ended_by_a_deadline", 1)
			r.Distinct(fmt.Sprintf("server ended by a deadline of %v", limit))
			if at := time.Since(t0); at > limit+time.Second {
				r.Violation("cancel-not-honoured", -1, fmt.Sprintf("the server's context expired (deadline) after %v with an upload in flight; the backup task returned only at %v", limit, at), nil)
			}
		case <-time.After(limit + 20*time.Minute):
			r.Violation("cancel-not-honoured", -1, fmt.Sprintf("the server's context expired (deadline) after %v with an upload in flight; 20 minutes later the backup task has not returned", limit), nil)
			cancel()
		}
	})
}
