// C01 — no operation takes effect or reveals data without a matching ACL
// grant. Reference-model monitor with an independent glob matcher: for
// generated (database state, rule set) cases every operation is issued on
// every name of a hostile pool, at the DB API and through the real HTTP
// handlers; result class, full state, refusal text and marker disclosure are
// checked after every call.
package c01

import (
	"bytes"
	"context"
	"encoding/base64"
	"encoding/json"
	"errors"
	"fmt"
	"github.com/tailscale/setec/audit"
	"io"
	"math/rand/v2"
	"net/http"
	"net/http/httptest"
	"path/filepath"
	"runtime"
	"strings"
	"sync"
	"sync/atomic"
	"testing"
	"time"

	"github.com/tailscale/setec/db"
	"github.com/tailscale/setec/server"
	"github.com/tailscale/setec/types/api"
	"tailscale.com/client/tailscale/apitype"

	"verif/harness/internal/evid"
	"verif/harness/internal/httpdrv"
	"verif/harness/internal/ops"
	"verif/harness/internal/realdb"
	"verif/harness/internal/refmodel"
)

var names = []string{"a", "a/b", "b", "a\nb", "x*y", "ab", "_internal/x", "", "a/../b", "a/b/", "a//b", "a/../_internal/x", "x", " a", "a\n"}
var patterns = []string{"a", "a/b", "b", "a\nb", "x*y", "ab", "_internal/x", "", "*", "a/*", "*b", "a*", "**", "a*b", "a.b", "x\\*y", "_internal/*", "[ab]", "?", "a/*/b", "a*a", "ab*b", "*a*b*", " a", "a\n", "*\n", "x"}
var actions = []string{"get", "info", "put", "activate", "delete"}

func genRules(rng *rand.Rand) []refmodel.Rule {
	n := rng.IntN(4)
	if rng.IntN(4) == 0 {
		n = 3 + rng.IntN(3) // a peer covered by several grants
	}
	var rules []refmodel.Rule
	for i := 0; i < n; i++ {
		var ru refmodel.Rule
		for _, a := range actions {
			if rng.IntN(3) == 0 {
				ru.Actions = append(ru.Actions, a)
			}
		}
		if rng.IntN(8) == 0 {
			ru.Actions = append(ru.Actions, []string{"list", "*", "GET", "get ", "deleteversion"}[rng.IntN(5)])
		}
		np := 1 + rng.IntN(2)
		switch rng.IntN(6) {
		case 0:
			np = 0 // a grant that lists actions but no pattern (a policy typo): it grants nothing
		case 1:
			np = 3 + rng.IntN(5) // a long list of patterns (3..7)
		}
		for j := 0; j < np; j++ {
			ru.Patterns = append(ru.Patterns, patterns[rng.IntN(len(patterns))])
		}
		rules = append(rules, ru)
	}
	return rules
}

func marker(rng *rand.Rand) []byte {
	b := make([]byte, 16)
	for i := range b {
		b[i] = byte(rng.IntN(256))
	}
	return b
}

// leaks reports whether data contains one of the marker values, raw or base64.
func leaks(data []byte, markers [][]byte) bool {
	for _, m := range markers {
		if bytes.Contains(data, m) {
			return true
		}
		for _, enc := range []*base64.Encoding{base64.StdEncoding, base64.RawStdEncoding, base64.URLEncoding} {
			e := enc.EncodeToString(m)
			// any alignment of the marker inside a longer base64 stream is not searched; values are
			// returned as whole fields, so the aligned encoding is what a leak would look like
			if bytes.Contains(data, []byte(e[:len(e)-2])) {
				return true
			}
		}
	}
	return false
}

type level struct {
	name string
	d    *db.DB // database under test
	twin *db.DB // empty twin: every name is absent there
	srv  *httpdrv.Srv
	tsrv *httpdrv.Srv
	m    *refmodel.Model
}

func TestC01(t *testing.T) {
	r := evid.Start("C01", "exploration")
	defer r.Finish(t)
	r.Assume("refmodel + independent glob matcher are the meaning of the property",
		"for a request that is both unauthorised and ill-formed (empty name on put/activate, version 0, reserved prefix on a mutation) either the denied class or another error class is accepted; a reserved-prefix name is a name like any other (refusal must be access-denied)")
	dir := evid.TempDir(t)
	nCases := r.N(600, 8000)
	// the caller's source address: a tailnet address, or loopback (a client on the server's own host)
	addrs := []string{"100.64.0.2:4711", "127.0.0.1:4711", "[::1]:4711", "[::ffff:127.0.0.1]:4711", "[fd7a:115c:a1e0::2]:4711"}
	const superIP = "100.64.9.9"
	var wg sync.WaitGroup
	nw := runtime.NumCPU()
	for w := 0; w < nw; w++ {
		wg.Add(1)
		go func(w int) {
			defer wg.Done()
			for c := w; c < nCases; c += nw {
				if r.Skip(c) {
					continue
				}
				rng := r.Rand(uint64(c))
				addr := addrs[c%len(addrs)]
				// half of the cases also CLAIM, in request headers, to be the all-powerful peer
				var spoof map[string]string
				if sh := httpdrv.SpoofHeaders(superIP, "super@verif"); c%2 == 1 {
					spoof = sh[(c/2)%len(sh)]
					r.Count("http_cases_with_spoofed_identity_headers", 1)
				}
				var lv [2]*level
				ok := true
				for li, ln := range []string{"db", "http"} {
					d, err := realdb.Open(filepath.Join(dir, fmt.Sprintf("c%d-%s.db", c, ln)), realdb.DummyKey("c01"))
					tw, err2 := realdb.Open(filepath.Join(dir, fmt.Sprintf("c%d-%s-twin.db", c, ln)), realdb.DummyKey("c01"))
					if err != nil || err2 != nil {
						r.Violation("open-fails", c, fmt.Sprint(err, err2), nil)
						ok = false
						break
					}
					l := &level{name: ln, d: d, twin: tw, m: refmodel.New()}
					if ln == "http" {
						if l.srv, err = httpdrv.New(d); err != nil {
							t.Errorf("server.New: %v", err)
							ok = false
							break
						}
						l.tsrv, _ = httpdrv.New(tw)
					}
					lv[li] = l
				}
				if !ok {
					continue
				}
				// 1. reach a database state (same on both levels) as superuser
				var markers [][]byte
				su := realdb.Super()
				var setup []string
				for i, n := 0, 4+rng.IntN(10); i < n; i++ {
					op := ops.Op{Kind: ops.Put, Name: append(names[:6:6], names[8:]...)[rng.IntN(13)]}
					switch rng.IntN(6) {
					case 0:
						op.Kind = ops.Act
						op.Version = ops.GenVersion(rng, lv[0].m, op.Name)
					case 1:
						op.Kind = ops.DelVer
						op.Version = ops.GenVersion(rng, lv[0].m, op.Name)
					default:
						op.Value = marker(rng)
						markers = append(markers, op.Value)
					}
					setup = append(setup, op.String())
					for _, l := range lv {
						ops.ApplyModel(l.m, nil, true, op)
						ops.ApplyReal(l.d, su, op)
					}
				}
				// 2. the caller's rules
				rules := genRules(rng)
				for _, ru := range rules {
					if len(ru.Patterns) == 0 {
						r.Count("rules_without_patterns", 1)
					}
				}
				caller := realdb.Caller("eve@verif", rules)
				who := httpdrv.Who{Login: "eve@verif", Node: "eve.verif", Rules: rules}
				lv[1].srv.SetWho(addr, who)
				lv[1].tsrv.SetWho(addr, who)
				superWho := httpdrv.Who{Login: "super@verif", Node: "super.verif", Rules: []refmodel.Rule{{Actions: []string{"get", "info", "put", "activate", "delete"}, Patterns: []string{"*"}}}}
				lv[1].srv.SetWhoIP(superIP, superWho)
				lv[1].tsrv.SetWhoIP(superIP, superWho)
				// 3. every operation on every name
				var calls []ops.Op
				for _, k := range ops.AllKinds {
					if k == ops.List {
						calls = append(calls, ops.Op{Kind: k})
						continue
					}
					for _, n := range names {
						op := ops.Op{Kind: k, Name: n}
						switch k {
						case ops.Put:
							op.Value = marker(rng)
							calls = append(calls, op)
						case ops.GetVer, ops.GetCond, ops.Act, ops.DelVer:
							for _, v := range []uint32{0, 1, 2, 9} {
								op.Version = v
								calls = append(calls, op)
							}
						default:
							calls = append(calls, op)
						}
					}
				}
				rng.Shuffle(len(calls), func(i, j int) { calls[i], calls[j] = calls[j], calls[i] })
				var trace []string
				// the HTML listing ("GET /") is a list like the API's: exactly the secrets the caller holds info on
				dashboard := func(when string) {
					l := lv[1]
					want := l.m.List(func(n string) bool { return refmodel.Allowed(rules, "info", n) })
					got, rep, ok := l.srv.Dashboard(addr, spoof)
					r.Count("dashboard_pages_checked", 1)
					r.Eval(1)
					if !ok {
						r.Violation("http-dashboard-differs", c, fmt.Sprintf("case %d, caller rules %v, %s: the listing page is a %d / cannot be parsed", c, rules, when, rep.Status), map[string]any{"rules": rules})
					} else if fmt.Sprint(got) != fmt.Sprint(want) {
						r.Violation("http-dashboard-differs", c, fmt.Sprintf("case %d, caller rules %v, %s: the listing page shows %v, the caller holds info on %v", c, rules, when, got, want), map[string]any{"setup": setup, "rules": rules})
					}
					if leaks(rep.Body, markers) {
						r.Violation("http-metadata-carries-value", c, "the listing page contains secret value bytes", nil)
					}
				}
				for ci, op := range calls {
					if op.Kind == ops.Put {
						markers = append(markers, op.Value)
					}
					if ci == len(calls)/2 {
						dashboard("before the policy change")
						// policy changes: from now on the same caller, at the same address, holds other rules
						rules = genRules(rng)
						caller = realdb.Caller("eve@verif", rules)
						who = httpdrv.Who{Login: "eve@verif", Node: "eve.verif", Rules: rules}
						lv[1].srv.SetWho(addr, who)
						lv[1].tsrv.SetWho(addr, who)
						r.Count("rule_changes_mid_case", 1)
						dashboard("right after the policy change (no write in between)")
					}
					for _, l := range lv {
						pre := l.m.Clone()
						_, exists := pre.S[op.Name]
						mop := op
						if l.name == "http" && op.Kind == ops.GetVer && op.Version == 0 {
							mop.Kind = ops.Get // on the wire version 0 means "the active version"
						}
						want := ops.ApplyModel(l.m, rules, false, mop)
						var got ops.Result
						var rep httpdrv.Reply
						decoded := true
						if l.name == "db" {
							got = ops.ApplyReal(l.d, caller, op)
						} else {
							got, rep, decoded = l.srv.DoWith(addr, op, spoof)
						}
						r.Eval(1)
						if ci < 6 && l.name == "db" {
							trace = append(trace, fmt.Sprintf("%s -> %s", op, got))
						}
						authorised := op.Kind == ops.List || refmodel.Allowed(rules, op.Kind.Action(), op.Name)
						r.Distinct(fmt.Sprintf("%s/%s/auth=%t/exists=%t/%s/rules=%d", l.name, op.Kind, authorised, exists, want.Class, len(rules)))
						fail := func(key, msg string) {
							r.Violation(l.name+"-"+key, c, fmt.Sprintf("case %d %s level, caller rules %v, %s: %s", c, l.name, rules, op, msg),
								map[string]any{"setup": setup, "rules": rules, "op": op, "real": got.String(), "model": want.String(), "err": got.Err})
						}
						if !decoded {
							fail("undecodable-200", fmt.Sprintf("200 reply body does not decode: %q", rep.Body))
							continue
						}
						if !ops.Agree(want, got) {
							key := "result-differs"
							if !authorised && got.Class == refmodel.OK {
								key = "unauthorised-call-succeeded"
							} else if !authorised {
								key = "refusal-not-access-denied"
							}
							fail(key, fmt.Sprintf("real %s (%s), model %s", got, got.Err, want))
						}
						if authorised {
							r.Count("allowed_calls", 1)
						} else {
							r.Count("denied_calls", 1)
							if exists {
								r.Count("denied_on_existing", 1)
							} else {
								r.Count("denied_on_absent", 1)
							}
							// identical refusal whether or not the secret exists: same call on the empty twin
							var tgot ops.Result
							var trep httpdrv.Reply
							if l.name == "db" {
								tgot = ops.ApplyReal(l.twin, caller, op)
								if tgot.Err != got.Err || tgot.Class != got.Class {
									fail("refusal-depends-on-existence", fmt.Sprintf("refusal is %q (%s) here but %q (%s) where nothing exists", got.Err, got.Class, tgot.Err, tgot.Class))
								}
							} else {
								tgot, trep, _ = l.tsrv.DoWith(addr, op, spoof)
								if trep.Status != rep.Status || !bytes.Equal(trep.Body, rep.Body) {
									fail("refusal-depends-on-existence", fmt.Sprintf("reply is %d %q here but %d %q where nothing exists", rep.Status, rep.Body, trep.Status, trep.Body))
								}
							}
							// no disclosure in a refusal
							if leaks([]byte(got.Err), markers) || leaks(rep.Body, markers) || got.HasVal || got.Meta != "" {
								fail("refusal-discloses", "a refused call carried secret material or metadata")
							}
						}
						if op.Kind == ops.List || op.Kind == ops.Info {
							if leaks(rep.Body, markers) || leaks([]byte(got.Meta), markers) {
								fail("metadata-carries-value", "list/info result contains secret value bytes")
							}
						}
						// full state after the call
						real, err := realdb.Dump(l.d)
						if err != nil {
							fail("state-inconsistent", err.Error())
						} else if real.Canon() != l.m.Canon() {
							key := "state-differs"
							if !authorised {
								key = "unauthorised-call-changed-state"
							}
							fail(key, fmt.Sprintf("state %s, model %s", real.Canon(), l.m.Canon()))
							// resynchronise is impossible; stop this level of the case
							l.m = real
						}
					}
				}
				dashboard("after the calls of the case")
				// the hidden part of the state: a refused call has not used up a version number either. The next put
				// by an entitled caller gets the number the acknowledged history says.
				for _, l := range lv {
					for _, n := range realdb.SortedNames(l.m) {
						fresh := ops.Op{Kind: ops.Put, Name: n, Value: []byte("fresh-probe-value-\x00-" + n)}
						want := ops.ApplyModel(l.m, nil, true, fresh)
						got := ops.ApplyReal(l.d, realdb.Super(), fresh)
						r.Count("version_counter_probes", 1)
						if !ops.Agree(want, got) {
							r.Violation(l.name+"-unauthorised-call-changed-state", c, fmt.Sprintf("case %d %s level, caller rules %v: after the calls of this case (refused ones included) a put on %q by an entitled caller returned %s; the acknowledged history says %s - a refused call has moved the version counter", c, l.name, rules, n, got, want), map[string]any{"rules": rules})
							break
						}
					}
				}
				// the twins must still be empty
				for _, l := range lv {
					if tm, err := realdb.Dump(l.twin); err != nil || len(tm.S) != 0 {
						// allowed calls are never sent to the twin, so anything there came from a refused call
						r.Violation(l.name+"-unauthorised-call-changed-state", c, "a refused call created state in an empty database", map[string]any{"rules": rules})
					}
				}
				if c < 2 {
					r.Sample(map[string]any{"case": c, "setup": setup, "rules": rules, "first_calls": trace, "calls_per_level": len(calls)})
				}
				r.Count("cases", 1)
			}
		}(w)
	}
	wg.Wait()
	if r.Only < 0 {
		for i := 0; i < r.N(10, 150); i++ {
			concurrentDenied(t, r, dir, i)
		}
		concurrentPeers(t, r, dir)
		manyCallers(t, r, dir)
		sameLoginOtherGrants(t, r, dir)
		denialWithFlakyAudit(t, r, dir)
		serverWithoutWhoIs(t, r, dir)
		metricsNameNothing(t, r, dir)
	}
	r.Require("metrics_renderings_scanned", "requests_to_a_server_without_whois", "dashboard_pages_checked", "dashboard_pages_same_login_other_grants", "rules_without_patterns", "decisions_in_a_long_lived_server", "version_counter_probes", "overlapping_requests_same_login_other_grants", "denied_calls_with_flaky_audit", "rule_changes_mid_case", "concurrent_peer_replies", "concurrent_denied_calls", "cases", "http_cases_with_spoofed_identity_headers", "allowed_calls", "denied_calls", "denied_on_existing", "denied_on_absent")
	r.Rule("case = (database state reached by 4-13 random superuser operations over a hostile 12-name pool incl. empty, reserved, newline, literal-'*' and path-like ('a/../b', 'a//b', 'a/b/') names; 0-3 random rules over the 5 actions (+unknown ones) and 23 exact/wildcard/regexp-meta patterns); then all 9 operations x all 8 names x versions {0,1,2,9} in random order, at the DB API and through the HTTP handlers. Distinct = (level, operation, authorised?, secret exists?, model outcome class, rule count)")
}

// concurrentDenied: while authorised callers are busy, a caller without any matching grant must be
// refused every single time, and must leave no trace in the stored state.
func concurrentDenied(t *testing.T, r *evid.Run, dir string, idx int) {
	r.Eval(1)
	d, err := realdb.Open(filepath.Join(dir, fmt.Sprintf("conc%d.db", idx)), realdb.DummyKey("c01c"))
	if err != nil {
		t.Error(err)
		return
	}
	su := realdb.Super()
	d.Put(su, "hot", []byte("the-value"))
	stop := make(chan struct{})
	var wg sync.WaitGroup
	for g := 0; g < 6; g++ {
		wg.Add(1)
		go func() {
			defer wg.Done()
			for {
				select {
				case <-stop:
					return
				default:
				}
				d.Get(su, "hot")
				d.Info(su, "hot")
			}
		}()
	}
	nobody := realdb.Caller("nobody@verif", []refmodel.Rule{{Actions: []string{"get", "info", "put", "activate", "delete"}, Patterns: []string{"elsewhere/*"}}})
	for i := 0; i < 4000; i++ {
		var res ops.Result
		switch i % 4 {
		case 0:
			res = ops.ApplyReal(d, nobody, ops.Op{Kind: ops.Get, Name: "hot"})
		case 1:
			res = ops.ApplyReal(d, nobody, ops.Op{Kind: ops.Info, Name: "hot"})
		case 2:
			res = ops.ApplyReal(d, nobody, ops.Op{Kind: ops.Put, Name: "hot", Value: []byte("intruder")})
		case 3:
			res = ops.ApplyReal(d, nobody, ops.Op{Kind: ops.GetVer, Name: "hot", Version: 1})
		}
		r.Count("concurrent_denied_calls", 1)
		if res.Class != refmodel.Denied {
			r.Violation("db-unauthorised-call-succeeded", -1, fmt.Sprintf("concurrent run %d: a caller without a matching grant got %s while authorised callers were active", idx, res), nil)
			break
		}
	}
	close(stop)
	wg.Wait()
	if m, err := realdb.Dump(d); err != nil || len(m.S) != 1 || len(m.S["hot"].Versions) != 1 {
		r.Violation("db-unauthorised-call-changed-state", -1, fmt.Sprintf("concurrent run %d: refused calls changed the stored state (%v)", idx, err), nil)
	}
	r.Distinct("concurrent-denied")
}

// concurrentPeers: peers with disjoint grants talk to the real HTTP server over loopback sockets at the same
// time, some reading slowly. Nobody may ever receive bytes of a secret it holds no grant on, and what is
// refused sequentially stays refused under load.
func concurrentPeers(t *testing.T, r *evid.Run, dir string) {
	d, err := realdb.Open(filepath.Join(dir, "peers.db"), realdb.DummyKey("c01p"))
	if err != nil {
		t.Fatal(err)
	}
	const N = 12
	su := realdb.Super()
	rng := r.Rand(4242)
	vals := make([][]byte, N)
	for i := range vals {
		size := 60_000 + rng.IntN(200_000)
		if i < 4 {
			size = 3 << 20 // the slow readers fetch megabytes, so the server is still writing their reply while others are served
		}
		vals[i] = append(marker(rng), bytes.Repeat([]byte{byte('a' + i)}, size)...)
		d.Put(su, fmt.Sprintf("peer%d/big", i), vals[i])
	}
	srv, err := httpdrv.New(d)
	if err != nil {
		t.Fatal(err)
	}
	var mu sync.Mutex
	next := 0
	assigned := map[string]int{}
	srv.Override = func(ctx context.Context, addr string) (*apitype.WhoIsResponse, error) {
		mu.Lock()
		i, ok := assigned[addr]
		if !ok {
			i = next % N
			next++
			assigned[addr] = i
		}
		mu.Unlock()
		return httpdrv.WhoResponse(httpdrv.Who{Login: fmt.Sprintf("peer%d@verif", i), Node: fmt.Sprintf("peer%d", i),
			Rules: []refmodel.Rule{{Actions: []string{"get"}, Patterns: []string{fmt.Sprintf("peer%d/*", i)}}}}, server.ACLCap), nil
	}
	hs := httptest.NewServer(srv.Mux)
	defer hs.Close()
	// few processors: handlers of different peers then share per-processor resources (allocator caches,
	// sync.Pool slots), which is where cross-talk between responses would come from
	defer runtime.GOMAXPROCS(runtime.GOMAXPROCS(2))
	var wg sync.WaitGroup
	var bad atomic.Int32
	var slowDone atomic.Int32
	rounds := r.N(40, 400)
	for c := 0; c < N; c++ {
		wg.Add(1)
		go func(c int) {
			defer wg.Done()
			tr := &http.Transport{MaxIdleConnsPerHost: 1}
			defer tr.CloseIdleConnections()
			hc := &http.Client{Transport: tr}
			get := func(name string, slow bool) (int, []byte, error) {
				body, _ := json.Marshal(api.GetRequest{Name: name})
				req, _ := http.NewRequest("POST", hs.URL+"/api/get", bytes.NewReader(body))
				req.Header.Set("Content-Type", "application/json")
				req.Header.Set("Sec-X-Tailscale-No-Browsers", "setec")
				resp, err := hc.Do(req)
				if err != nil {
					return 0, nil, err
				}
				defer resp.Body.Close()
				var buf bytes.Buffer
				if slow {
					chunk := make([]byte, 64<<10)
					for {
						n, err := resp.Body.Read(chunk)
						buf.Write(chunk[:n])
						if err != nil {
							break
						}
						time.Sleep(time.Millisecond)
					}
				} else {
					buf.ReadFrom(resp.Body)
				}
				return resp.StatusCode, buf.Bytes(), nil
			}
			mine := -1
			for i := 0; i < N && mine < 0; i++ {
				if code, _, err := get(fmt.Sprintf("peer%d/big", i), false); err == nil && code == 200 {
					mine = i
				}
			}
			if mine < 0 {
				return
			}
			if mine < 4 {
				defer slowDone.Add(1)
			}
			myRounds := rounds * 8
			if mine < 4 {
				myRounds = rounds / 3
			}
			for k := 0; k < myRounds && slowDone.Load() < 4; k++ {
				code, body, err := get(fmt.Sprintf("peer%d/big", mine), mine < 4)
				if err != nil || code == 403 {
					return // the connection (and with it the source address) was replaced
				}
				r.Count("concurrent_peer_replies", 1)
				var sv api.SecretValue
				if code != 200 || json.Unmarshal(body, &sv) != nil || !bytes.Equal(sv.Value, vals[mine]) {
					if bad.Add(1) <= 2 {
						whose := ""
						for j := range vals {
							if j != mine && bytes.Contains(body, []byte(base64.StdEncoding.EncodeToString(vals[j][:3000])[:3000])) {
								whose = fmt.Sprintf(" and contains bytes of peer %d's secret", j)
							}
						}
						r.Violation("http-reply-carries-foreign-secret", -1, fmt.Sprintf("under concurrent load the reply (status %d, %d bytes) to peer %d's get of its own secret is not that secret%s", code, len(body), mine, whose), nil)
					}
					continue
				}
				if k%8 == 0 {
					if code, body, err := get(fmt.Sprintf("peer%d/big", (mine+1)%N), false); err == nil && (code != 403 || leaks(body, [][]byte{vals[(mine+1)%N][:16]})) && bad.Add(1) <= 2 {
						r.Violation("http-unauthorised-call-succeeded", -1, fmt.Sprintf("under concurrent load peer %d's get of peer %d's secret answered %d", mine, (mine+1)%N, code), nil)
					}
				}
			}
		}(c)
	}
	wg.Wait()
	r.Eval(1)
	r.Distinct("concurrent peers over loopback")
}

type slowAudit struct{ wait time.Duration }

func (s *slowAudit) Write(p []byte) (int, error) { time.Sleep(s.wait); return len(p), nil }

// sameLoginOtherGrants: peers that share a login name (tagged nodes have none at all; one person uses several
// devices) but hold different grants ask for the same secret at the same moment, the audit sink being slow so
// that the requests overlap inside the server. Each answer is decided by the grant of the peer it goes to.
func sameLoginOtherGrants(t *testing.T, r *evid.Run, dir string) {
	d, err := db.Open(filepath.Join(dir, "samelogin.db"), realdb.DummyKey("c01s"), audit.New(&slowAudit{wait: 300 * time.Microsecond}))
	if err != nil {
		t.Fatal(err)
	}
	rng := r.Rand(60606)
	val := marker(rng)
	d.Put(realdb.Super(), "prod/key", val)
	srv, err := httpdrv.New(d)
	if err != nil {
		t.Fatal(err)
	}
	type peer struct {
		addr    string
		who     httpdrv.Who
		allowed bool
	}
	get := func(p string) []refmodel.Rule {
		return []refmodel.Rule{{Actions: []string{"get", "info"}, Patterns: []string{p}}}
	}
	peers := []peer{
		{"100.71.0.1:1", httpdrv.Who{Node: "prod-1", Tags: []string{"tag:prod"}, Rules: get("prod/*")}, true},
		{"100.71.0.2:1", httpdrv.Who{Node: "dev-1", Tags: []string{"tag:dev"}, Rules: get("dev/*")}, false},
		{"100.71.0.3:1", httpdrv.Who{Login: "tagged-devices", Node: "prod-2", Tags: []string{"tag:prod"}, Rules: get("prod/*")}, true},
		{"100.71.0.4:1", httpdrv.Who{Login: "tagged-devices", Node: "dev-2", Tags: []string{"tag:dev"}, Rules: get("dev/*")}, false},
		{"100.71.0.5:1", httpdrv.Who{Login: "pat@verif", Node: "pat-workstation", Rules: get("prod/*")}, true},
		{"100.71.0.6:1", httpdrv.Who{Login: "pat@verif", Node: "pat-phone", Rules: get("dev/*")}, false},
		{"100.71.0.7:1", httpdrv.Who{Login: "pat@verif", Node: "pat-laptop"}, false},
	}
	for _, p := range peers {
		srv.SetWho(p.addr, p.who)
	}
	kinds := []ops.Op{{Kind: ops.Get, Name: "prod/key"}, {Kind: ops.GetVer, Name: "prod/key", Version: 1}, {Kind: ops.GetCond, Name: "prod/key", Version: 7}, {Kind: ops.Info, Name: "prod/key"}}
	var bad atomic.Int32
	for round := 0; round < r.N(120, 1200); round++ {
		op := kinds[round%len(kinds)]
		var wg sync.WaitGroup
		var gate atomic.Bool
		order := rng.Perm(len(peers))
		for _, pi := range order {
			p := peers[pi]
			wg.Add(1)
			go func() {
				defer wg.Done()
				for !gate.Load() {
				}
				res, rep, _ := srv.Do(p.addr, op)
				r.Count("overlapping_requests_same_login_other_grants", 1)
				switch {
				case p.allowed && res.Class != refmodel.OK && bad.Add(1) <= 3:
					r.Violation("http-authorised-call-refused", -1, fmt.Sprintf("round %d: %s by %s (login %q, tags %v, entitled) among %d overlapping requests got status %d", round, op, p.who.Node, p.who.Login, p.who.Tags, len(peers), rep.Status), nil)
				case !p.allowed && (res.Class != refmodel.Denied || leaks(rep.Body, [][]byte{val})) && bad.Add(1) <= 3:
					r.Violation("http-unauthorised-call-succeeded", -1, fmt.Sprintf("round %d: %s by %s (login %q, tags %v, NOT entitled) among %d overlapping requests got status %d (secret bytes in the reply: %t)", round, op, p.who.Node, p.who.Login, p.who.Tags, len(peers), rep.Status, leaks(rep.Body, [][]byte{val})), nil)
				}
			}()
		}
		gate.Store(true)
		wg.Wait()
	}
	// the listing page, loaded one after the other by peers that share a login name (or have none) but not their
	// grants, with no write in between: each page is the loading peer's own
	for round := 0; round < r.N(6, 40); round++ {
		for _, pi := range rng.Perm(len(peers)) {
			p := peers[pi]
			got, rep, ok := srv.Dashboard(p.addr, nil)
			r.Count("dashboard_pages_same_login_other_grants", 1)
			want := "[]"
			if p.allowed {
				want = `["prod/key"[1]@1]`
			}
			if (!ok || fmt.Sprint(got) != want) && bad.Add(1) <= 3 {
				r.Violation("http-dashboard-differs", -1, fmt.Sprintf("round %d: the listing page loaded by %s (login %q, tags %v, entitled=%t) is a %d showing %v, want %s", round, p.who.Node, p.who.Login, p.who.Tags, p.allowed, rep.Status, got, want), nil)
			}
		}
	}
	r.Eval(1)
	r.Distinct("overlapping requests, same login, other grants")
}

// denialWithFlakyAudit: the audit log hiccups (one fsync fails, the next succeeds) exactly while a request
// without a grant is being refused: whatever is reported, nothing is revealed and nothing changes.
func denialWithFlakyAudit(t *testing.T, r *evid.Run, dir string) {
	snk := &onceFailingSink{}
	d, err := db.Open(filepath.Join(dir, "flakyaudit.db"), realdb.DummyKey("c01f"), audit.New(snk))
	if err != nil {
		t.Fatal(err)
	}
	rng := r.Rand(70707)
	su := realdb.Super()
	v1, v2 := marker(rng), marker(rng)
	d.Put(su, "prod/db-password", v1)
	d.Put(su, "prod/db-password", v2)
	before, _ := realdb.Dump(d)
	who := realdb.Caller("dev@verif", []refmodel.Rule{{Actions: []string{"info", "get", "put", "activate", "delete"}, Patterns: []string{"dev/*"}}})
	for rep := 0; rep < 3; rep++ {
		for _, op := range []ops.Op{{Kind: ops.Get, Name: "prod/db-password"}, {Kind: ops.GetVer, Name: "prod/db-password", Version: 2}, {Kind: ops.GetCond, Name: "prod/db-password", Version: 2},
			{Kind: ops.GetCond, Name: "prod/db-password", Version: 1}, {Kind: ops.Info, Name: "prod/db-password"}, {Kind: ops.Put, Name: "prod/db-password", Value: []byte("overwritten")},
			{Kind: ops.Act, Name: "prod/db-password", Version: 2}, {Kind: ops.DelVer, Name: "prod/db-password", Version: 2}, {Kind: ops.Delete, Name: "prod/db-password"}} {
			snk.failNext.Store(int32(1 + rep%2)) // the next one (or two) Sync calls fail, later ones succeed
			res := ops.ApplyReal(d, who, op)
			snk.failNext.Store(0)
			r.Eval(1)
			r.Count("denied_calls_with_flaky_audit", 1)
			if res.Class == refmodel.OK || res.Class == refmodel.NotChanged || res.HasVal || res.Meta != "" {
				r.Violation("db-unauthorised-call-succeeded", -1, fmt.Sprintf("%s by a caller without a matching grant, while the audit log's fsync failed %d time(s) and then recovered: %s", op, 1+rep%2, res), nil)
				return
			}
			now, err := realdb.Dump(d)
			if err != nil || now.Canon() != before.Canon() {
				r.Violation("db-unauthorised-call-changed-state", -1, fmt.Sprintf("%s by a caller without a matching grant (audit fsync failing once): the stored state changed (err %v)", op, err), nil)
				return
			}
		}
	}
	r.Distinct("denials with a flaky audit log")
}

type onceFailingSink struct{ failNext atomic.Int32 }

func (s *onceFailingSink) Write(p []byte) (int, error) { return len(p), nil }
func (s *onceFailingSink) Sync() error {
	if s.failNext.Load() > 0 {
		s.failNext.Add(-1)
		return errors.New("injected: audit log fsync failed")
	}
	return nil
}

// manyCallers: ONE server process serves hundreds of callers, each with a pattern of its own, for a long time;
// early callers come back after many others have been served. Each decision is still made on the caller's own
// rules (whatever the server may have remembered about patterns it saw before).
func manyCallers(t *testing.T, r *evid.Run, dir string) {
	d, err := realdb.Open(filepath.Join(dir, "many.db"), realdb.DummyKey("c01m"))
	if err != nil {
		t.Fatal(err)
	}
	su := realdb.Super()
	rng := r.Rand(50505)
	const N = 220
	vals := make([][]byte, N)
	for i := 0; i < N; i++ {
		vals[i] = marker(rng)
		d.Put(su, fmt.Sprintf("team-%d/key", i), vals[i])
	}
	callers := make([]db.Caller, N)
	for i := range callers {
		callers[i] = realdb.Caller(fmt.Sprintf("team-%d@verif", i), []refmodel.Rule{{Actions: []string{"get", "info"}, Patterns: []string{fmt.Sprintf("team-%d/*", i)}}})
	}
	for pass := 0; pass < 3; pass++ {
		for i := 0; i < N; i++ {
			own := ops.ApplyReal(d, callers[i], ops.Op{Kind: ops.Get, Name: fmt.Sprintf("team-%d/key", i)})
			j := (i + 1 + rng.IntN(N-1)) % N
			other := ops.ApplyReal(d, callers[i], ops.Op{Kind: []ops.Kind{ops.Get, ops.Info, ops.GetVer}[rng.IntN(3)], Name: fmt.Sprintf("team-%d/key", j), Version: 1})
			r.Eval(1)
			r.Count("decisions_in_a_long_lived_server", 2)
			if own.Class != refmodel.OK || own.Bytes != string(vals[i]) {
				r.Violation("db-authorised-call-refused", -1, fmt.Sprintf("long-lived server, pass %d: caller %d (pattern team-%d/*) asks for its own secret: %s", pass, i, i, own), nil)
				return
			}
			if other.Class != refmodel.Denied || other.HasVal || other.Meta != "" {
				r.Violation("db-unauthorised-call-succeeded", -1, fmt.Sprintf("long-lived server, pass %d (after %d other callers with other patterns were served): caller %d (pattern team-%d/*) asks about team-%d/key: %s", pass, pass*N+i, i, i, j, other), nil)
				return
			}
		}
		// a listing too
		if l, err := d.List(callers[pass]); err != nil || len(l) != 1 || l[0].Name != fmt.Sprintf("team-%d/key", pass) {
			r.Violation("db-result-differs", -1, fmt.Sprintf("long-lived server: caller %d lists %v (err %v)", pass, l, err), nil)
			return
		}
	}
	r.Distinct("long-lived server, many callers")
}

// serverWithoutWhoIs: a server created without any WhoIs function (a legal configuration: nothing in
// server.New rejects it) has no way to learn a caller's grants. Whatever it does with a request - fail it,
// abort the handler - it must not serve it: nobody holds a grant there.
func serverWithoutWhoIs(t *testing.T, r *evid.Run, dir string) {
	rng := r.Rand(70707)
	for ci, kind := range []string{"db handed over", "db opened by the server"} {
		path := filepath.Join(dir, fmt.Sprintf("nowhois%d.db", ci))
		d, err := realdb.Open(path, realdb.DummyKey("c01nw"))
		if err != nil {
			t.Fatal(err)
		}
		val := marker(rng)
		d.Put(realdb.Super(), "kept", val)
		d.Put(realdb.Super(), "kept", marker(rng))
		before, _ := realdb.Dump(d)
		mux := http.NewServeMux()
		cfg := server.Config{DB: d, Mux: mux}
		if ci == 1 {
			// (the file is opened a second time by the server; the handle above only reads from now on)
			cfg = server.Config{DBPath: path, Key: realdb.DummyKey("c01nw"), AuditLog: audit.New(io.Discard), Mux: mux}
		}
		if _, err := server.New(context.Background(), cfg); err != nil {
			r.Count("requests_to_a_server_without_whois", 1) // refusing the configuration outright is fine as well
			continue
		}
		for _, op := range []ops.Op{{Kind: ops.List}, {Kind: ops.Info, Name: "kept"}, {Kind: ops.Get, Name: "kept"}, {Kind: ops.GetVer, Name: "kept", Version: 1}, {Kind: ops.GetCond, Name: "kept", Version: 1},
			{Kind: ops.Put, Name: "kept", Value: marker(rng)}, {Kind: ops.Put, Name: "new", Value: marker(rng)}, {Kind: ops.Act, Name: "kept", Version: 2}, {Kind: ops.DelVer, Name: "kept", Version: 2}, {Kind: ops.Delete, Name: "kept"}} {
			for _, addr := range []string{"100.64.0.2:4711", "127.0.0.1:4711"} {
				pathq, body := httpdrv.Request(op)
				req := httptest.NewRequest("POST", pathq, bytes.NewReader(body))
				req.RemoteAddr = addr
				for k, v := range httpdrv.GoodHeaders {
					req.Header.Set(k, v)
				}
				rec := httptest.NewRecorder()
				aborted := func() (p any) {
					defer func() { p = recover() }()
					mux.ServeHTTP(rec, req)
					return nil
				}()
				r.Eval(1)
				r.Count("requests_to_a_server_without_whois", 1)
				r.Distinct("server without WhoIs, " + string(op.Kind))
				if aborted == nil && rec.Code >= 200 && rec.Code < 300 {
					r.Violation("http-unauthorised-call-succeeded", -1, fmt.Sprintf("a server created without a WhoIs function (%s) answered %s from %s with %d %.80q: it served a caller whose grants it cannot know", kind, op, addr, rec.Code, rec.Body.Bytes()), nil)
					return
				}
				if leaks(rec.Body.Bytes(), [][]byte{val}) {
					r.Violation("http-refusal-discloses", -1, fmt.Sprintf("a server created without a WhoIs function (%s): the reply to %s carries secret bytes", kind, op), nil)
					return
				}
			}
		}
		var after *refmodel.Model
		if ci == 0 {
			after, _ = realdb.Dump(d)
		} else {
			d2, err := realdb.Open(path, realdb.DummyKey("c01nw"))
			if err != nil {
				r.Violation("http-unauthorised-call-changed-state", -1, "server without WhoIs: the database no longer opens: "+err.Error(), nil)
				return
			}
			after, _ = realdb.Dump(d2)
		}
		if after == nil || after.Canon() != before.Canon() {
			r.Violation("http-unauthorised-call-changed-state", -1, fmt.Sprintf("requests to a server created without a WhoIs function (%s) changed the stored state", kind), nil)
			return
		}
	}
}

// metricsNameNothing: the server's metrics are published beside the API for anybody on the tailnet to read
// (cmd/setec hands Server.Metrics to expvar; the debug pages check the network, not setec grants). Whatever the
// entitled callers have done, a rendering of the metrics names no secret and carries no value.
func metricsNameNothing(t *testing.T, r *evid.Run, dir string) {
	d, err := realdb.Open(filepath.Join(dir, "metrics.db"), realdb.DummyKey("c01m"))
	if err != nil {
		t.Fatal(err)
	}
	srv, err := httpdrv.New(d)
	if err != nil {
		t.Fatal(err)
	}
	rng := r.Rand(80808)
	const addr = "100.64.8.8:8"
	srv.SetWho(addr, httpdrv.Who{Login: "ops@verif", Node: "ops", Rules: []refmodel.Rule{{Actions: []string{"get", "info", "put", "activate", "delete"}, Patterns: []string{"*"}}}})
	names := []string{"prod/zq9-db-password-x7", "prod/zq9-stripe-live-key-x7", "zq9-only-put-never-fetched-x7"}
	var vals [][]byte
	for _, n := range names {
		v := marker(rng)
		vals = append(vals, v)
		srv.Do(addr, ops.Op{Kind: ops.Put, Name: n, Value: v})
		srv.Do(addr, ops.Op{Kind: ops.Put, Name: n, Value: marker(rng)})
	}
	for round := 0; round < 3; round++ {
		for _, n := range names[:2] {
			for _, op := range []ops.Op{{Kind: ops.Get, Name: n}, {Kind: ops.GetVer, Name: n, Version: 1}, {Kind: ops.GetCond, Name: n, Version: 9}, {Kind: ops.Info, Name: n}, {Kind: ops.Act, Name: n, Version: 2}, {Kind: ops.List}} {
				srv.Do(addr, op)
			}
		}
		if round == 1 {
			srv.Do(addr, ops.Op{Kind: ops.Delete, Name: names[1]})
		}
		out := srv.S.Metrics().String()
		r.Eval(1)
		r.Count("metrics_renderings_scanned", 1)
		for _, n := range names {
			if strings.Contains(out, n) || strings.Contains(out, "zq9") {
				r.Violation("metrics-name-a-secret", -1, fmt.Sprintf("after entitled callers used the API, the server's metrics (readable without any setec grant) contain the secret name %q: %.300s", n, out), nil)
				return
			}
		}
		if leaks([]byte(out), vals) {
			r.Violation("metrics-carry-a-value", -1, "the server's metrics contain secret value bytes", nil)
			return
		}
	}
	r.Distinct("metrics name nothing")
}
