// C07 — ACL patterns are whole-name globs; '*' matches any run of characters.
// Differential monitor: the real acl.Secret.Match / acl.Rules.Allow against an
// independent dynamic-programming glob matcher, exhaustively over a small
// hostile alphabet up to a length bound, plus random Unicode strings and
// random rule sets (incl. monotonicity under adding a rule).
package c07

import (
	"encoding/json"
	"fmt"
	"github.com/tailscale/setec/types/api"
	"math/rand/v2"
	"path/filepath"
	"runtime"
	"strings"
	"sync"
	"testing"
	"unicode/utf8"
	"verif/harness/internal/httpdrv"
	"verif/harness/internal/ops"
	"verif/harness/internal/realdb"

	"github.com/tailscale/setec/acl"

	"verif/harness/internal/evid"
	"verif/harness/internal/refmodel"
)

var sigma = []string{"a", "b", "*", "/", ".", "\n", "+", "(", "[", "\\", "$", "^", "é", "!"}

func allStrings(alpha []string, maxLen int) []string {
	out := []string{""}
	level := []string{""}
	for l := 1; l <= maxLen; l++ {
		var next []string
		for _, p := range level {
			for _, s := range alpha {
				next = append(next, p+s)
			}
		}
		out = append(out, next...)
		level = next
	}
	return out
}

func shape(pat string, match bool) string {
	stars := strings.Count(pat, "*")
	if stars > 2 {
		stars = 3
	}
	return fmt.Sprintf("stars=%d lead=%t trail=%t meta=%t nl=%t match=%t", stars,
		strings.HasPrefix(pat, "*"), strings.HasSuffix(pat, "*"),
		strings.ContainsAny(pat, ".+([\\$^"), strings.Contains(pat, "\n"), match)
}

func safeMatch(pat, name string) (res bool, panicked any) {
	defer func() {
		if p := recover(); p != nil {
			panicked = p
		}
	}()
	return acl.Secret(pat).Match(name), nil
}

func safeAllow(rr acl.Rules, act acl.Action, name string) (res bool, panicked any) {
	defer func() {
		if p := recover(); p != nil {
			panicked = p
		}
	}()
	return rr.Allow(act, name), nil
}

func TestC07(t *testing.T) {
	r := evid.Start("C07", "exploration")
	defer r.Finish(t)
	r.Assume("patterns and names are valid UTF-8 (the domain reachable through JSON)",
		"the reference matcher (O(|p||n|) dynamic programming over bytes, no regexp) is the meaning of the property statement")

	// ---- bounded-exhaustive part ----
	alpha := sigma
	maxP, maxN := 3, 3
	if r.Thorough() {
		maxP, maxN = 4, 4
		alpha = []string{"a", "b", "*", "/", ".", "\n", "(", "\\", "é"} // 9 symbols keep 4x4 at ~54M pairs
	}
	spaces := []struct {
		alpha      []string
		maxP, maxN int
	}{{alpha, maxP, maxN}}
	if r.Thorough() {
		spaces = append(spaces, struct {
			alpha      []string
			maxP, maxN int
		}{sigma, 3, 4})
	}
	var spaceDesc []string
	for si, sp := range spaces {
		pats := allStrings(sp.alpha, sp.maxP)
		names := allStrings(sp.alpha, sp.maxN)
		spaceDesc = append(spaceDesc, fmt.Sprintf("all %d patterns of length<=%d x all %d names of length<=%d over %q", len(pats), sp.maxP, len(names), sp.maxN, sp.alpha))
		if r.Only >= 0 {
			continue
		}
		var wg sync.WaitGroup
		nw := runtime.NumCPU()
		for w := 0; w < nw; w++ {
			wg.Add(1)
			go func(w int) {
				defer wg.Done()
				seen := map[string]bool{}
				var evals, matches int
				// every worker walks ALL patterns in the same order and takes its own share of the names, so the
				// same pattern is being matched against different names on all processors at once
				for pi := 0; pi < len(pats); pi++ {
					pat := pats[pi]
					for ni := w; ni < len(names); ni += nw {
						name := names[ni]
						want := refmodel.GlobMatch(pat, name)
						got, pan := safeMatch(pat, name)
						evals++
						if want {
							matches++
						}
						if pan != nil {
							r.Violation("match-panic", -1, fmt.Sprintf("Match(%q,%q) panicked: %v", pat, name, pan), map[string]any{"pattern": pat, "name": name})
							continue
						}
						if got != want {
							r.Violation("match-differs", -1, fmt.Sprintf("Secret(%q).Match(%q) = %t, glob semantics say %t", pat, name, got, want),
								map[string]any{"pattern": pat, "name": name, "got": got, "want": want, "space": si})
						}
						k := shape(pat, want)
						if !seen[k] {
							seen[k] = true
							r.Distinct(k)
						}
					}
				}
				r.Eval(evals)
				r.Count("exhaustive_pairs", evals)
				r.Count("exhaustive_pairs_matching", matches)
			}(w)
		}
		wg.Wait()
	}
	r.Extra("exhaustive_spaces", spaceDesc)
	r.Exhaustive(true)

	// ---- concurrent part: a handful of patterns and names, asked about over and over from all processors ----
	if r.Only < 0 {
		cpats := []string{"*", "a*", "*b", "a*b", "dev/*", "*/key", "a", "d*v/*y"}
		cnames := []string{"a", "b", "ab", "axb", "dev/key", "dev/", "x/key", "ba", ""}
		var cwg sync.WaitGroup
		per := r.N(60000, 600000)
		for w := 0; w < runtime.NumCPU(); w++ {
			cwg.Add(1)
			go func(w int) {
				defer cwg.Done()
				crng := r.Rand(uint64(500 + w))
				bad := 0
				for i := 0; i < per && bad < 2; i++ {
					pat, name := cpats[crng.IntN(len(cpats))], cnames[crng.IntN(len(cnames))]
					if i%3 != 0 {
						name = cnames[(i/7)%len(cnames)] // the same few names in bursts
					}
					want := refmodel.GlobMatch(pat, name)
					got, pan := safeMatch(pat, name)
					if pan != nil || got != want {
						bad++
						r.Violation("match-differs-under-concurrency", -1, fmt.Sprintf("while %d goroutines were matching the same patterns: Secret(%q).Match(%q) = %t (panic %v), glob semantics say %t", runtime.NumCPU(), pat, name, got, pan, want), map[string]any{"pattern": pat, "name": name})
					}
				}
				r.Eval(per)
				r.Count("concurrent_matches", per)
			}(w)
		}
		cwg.Wait()
		r.Distinct("concurrent repeated queries")
	}

	// ---- random Unicode part ----
	nRand := r.N(20000, 500000)
	pieces := []string{"a", "b", "prod", "dev", "/", ".", "\n", "\r\n", "\t", " ", "+", "(", ")", "[", "]", "{", "}", "\\", "$", "^", "|", "?",
		"é", "日本", "🙂", " ", "\x00", "\\E", "\\Q", ".*", "(?s)", "(?i)", "[^/]", "%", "key", "-", "_"}
	randStr := func(rng *rand.Rand, maxPieces int, star bool) string {
		var sb strings.Builder
		n := rng.IntN(maxPieces + 1)
		for i := 0; i < n; i++ {
			if star && rng.IntN(4) == 0 {
				sb.WriteString("*")
			} else if rng.IntN(8) == 0 {
				sb.WriteRune(rune(rng.IntN(0x2fff) + 1))
			} else {
				sb.WriteString(pieces[rng.IntN(len(pieces))])
			}
		}
		return sb.String()
	}
	rng := r.Rand(1)
	for i := 0; i < nRand; i++ {
		if r.Skip(i) {
			continue
		}
		pat := randStr(rng, 1+rng.IntN(40), true)
		// derive a name from the pattern: each '*' replaced by a random run, then maybe perturbed
		var nb strings.Builder
		for _, part := range strings.SplitAfter(pat, "*") {
			if strings.HasSuffix(part, "*") {
				nb.WriteString(strings.TrimSuffix(part, "*"))
				nb.WriteString(randStr(rng, 4, true))
			} else {
				nb.WriteString(part)
			}
		}
		name := nb.String()
		switch rng.IntN(6) {
		case 0: // perturb one byte-position rune
			if len(name) > 0 {
				rs := []rune(name)
				rs[rng.IntN(len(rs))] = rune('A' + rng.IntN(26))
				name = string(rs)
			}
		case 1:
			name = name + pieces[rng.IntN(len(pieces))]
		case 2:
			name = pieces[rng.IntN(len(pieces))] + name
		case 3:
			name = randStr(rng, 10, true)
		}
		if !utf8.ValidString(pat) || !utf8.ValidString(name) {
			continue
		}
		want := refmodel.GlobMatch(pat, name)
		got, pan := safeMatch(pat, name)
		r.Eval(1)
		r.Count("random_pairs", 1)
		if want {
			r.Count("random_pairs_matching", 1)
		}
		if pan != nil {
			r.Violation("match-panic", i, fmt.Sprintf("Match(%q,%q) panicked: %v", pat, name, pan), map[string]any{"pattern": pat, "name": name})
			continue
		}
		if got != want {
			r.Violation("match-differs", i, fmt.Sprintf("Secret(%q).Match(%q) = %t, glob semantics say %t", pat, name, got, want),
				map[string]any{"pattern": pat, "name": name, "got": got, "want": want})
		}
		r.Distinct("rand " + shape(pat, want))
		if i < 3 {
			r.Sample(map[string]any{"pattern": pat, "name": name, "match": got})
		}
	}

	// ---- rule sets ----
	acts := []string{"get", "info", "put", "activate", "delete", "ge", "gett", "", "*", "GET"}
	rpats := []string{"a", "b", "a/b", "*", "a/*", "*b", "a*b", "**", "", "a.b", "a\nb", "x", "dev/*", "*/key", "é", "équipe/*", "秘密/*", "*/🔑", "é*é", "日本", "a\\E*", " a", "a\n", "*\n", " ", "\ta/*\t", "a ", "!x", "!*", "!a/*", "!", "!dev/*", "#a", "~a/*", "-*", "a/b c", "a/* b/*"}
	rnames := []string{"a", "b", "a/b", "ab", "a/x/b", "", "a.b", "axb", "a\nb", "dev/key", "x", "dev/", "_internal/x", "é", "équipe/", "équipe/x", "秘密/db", "秘密/", "k/🔑", "éé", "日本", "a\\Eb", " a", "a\n", "x\n", " ", "\ta/b\t", "a ", "a/b", "!x", "!", "!a/b", "!dev/key", "#a", "~a/b", "-x", "a/b c", "a/x b/y"}
	genRules := func(rng *rand.Rand) []refmodel.Rule {
		n := rng.IntN(5)
		long := rng.IntN(8) == 0
		if long {
			n = 12 + rng.IntN(22) // a peer covered by a lot of grants: 12..33 rules
		}
		rules := make([]refmodel.Rule, 0, n)
		for i := 0; i < n; i++ {
			var ru refmodel.Rule
			if long && i < n-3 && rng.IntN(4) != 0 {
				// (most rules of a long list do not concern the names asked about: what grants, if anything
				// does, tends to be a single rule somewhere - also among the last ones)
				rules = append(rules, refmodel.Rule{Actions: []string{acts[rng.IntN(len(acts))]}, Patterns: []string{fmt.Sprintf("unrelated/%d/*", i)}})
				continue
			}
			for j, na := 0, rng.IntN(4); j < na; j++ {
				ru.Actions = append(ru.Actions, acts[rng.IntN(len(acts))])
			}
			for j, np := 0, rng.IntN(4); j < np; j++ {
				ru.Patterns = append(ru.Patterns, rpats[rng.IntN(len(rpats))])
			}
			rules = append(rules, ru)
		}
		return rules
	}
	toACL := func(rules []refmodel.Rule) acl.Rules {
		var out acl.Rules
		for _, ru := range rules {
			var ar acl.Rule
			for _, a := range ru.Actions {
				ar.Action = append(ar.Action, acl.Action(a))
			}
			for _, p := range ru.Patterns {
				ar.Secret = append(ar.Secret, acl.Secret(p))
			}
			out = append(out, ar)
		}
		return out
	}
	// every pattern of the pool against every name of the pool, through Rules.Allow (one rule, one pattern)
	for _, pat := range rpats {
		for _, name := range rnames {
			want := refmodel.GlobMatch(pat, name)
			got, pan := safeAllow(acl.Rules{{Action: []acl.Action{"get"}, Secret: []acl.Secret{acl.Secret(pat)}}}, "get", name)
			r.Eval(1)
			r.Count("ruleset_decisions", 1)
			if pan != nil || got != want {
				r.Violation("allow-differs", -1, fmt.Sprintf("Rules{{get,[%q]}}.Allow(get,%q)=%t (panic %v), the pattern matches the name: %t", pat, name, got, pan, want), map[string]any{"pattern": pat, "name": name})
			}
			// the same rule as it really arrives: as JSON (policy file / capability grant)
			doc, _ := json.Marshal([]refmodel.Rule{{Actions: []string{"get"}, Patterns: []string{pat}}})
			var viaJSON acl.Rules
			if err := json.Unmarshal(doc, &viaJSON); err != nil {
				r.Violation("rule-json-rejected", -1, fmt.Sprintf("a rule with pattern %q does not decode from JSON: %v", pat, err), nil)
				continue
			}
			gotJ, panJ := safeAllow(viaJSON, "get", name)
			r.Count("ruleset_decisions_via_json", 1)
			if panJ != nil || gotJ != want {
				r.Violation("allow-differs-via-json", -1, fmt.Sprintf("the rule {get,[%q]} decoded from JSON %s: Allow(get,%q)=%t (panic %v), the pattern matches the name: %t", pat, doc, name, gotJ, panJ, want), map[string]any{"pattern": pat, "name": name})
			}
		}
	}
	nSets := r.N(5000, 100000)
	rng = r.Rand(2)
	for i := 0; i < nSets; i++ {
		ci := nRand + i
		rules := genRules(rng)
		extra := genRules(rng)
		if r.Skip(ci) {
			continue
		}
		real := toACL(rules)
		realPlus := toACL(append(append([]refmodel.Rule{}, rules...), extra...))
		for k := 0; k < 12; k++ {
			act := acts[rng.IntN(5)]
			if rng.IntN(6) == 0 {
				act = acts[rng.IntN(len(acts))]
			}
			name := rnames[rng.IntN(len(rnames))]
			want := refmodel.Allowed(rules, act, name)
			got, pan := safeAllow(real, acl.Action(act), name)
			r.Eval(1)
			r.Count("ruleset_decisions", 1)
			if want {
				r.Count("ruleset_allowed", 1)
			} else {
				r.Count("ruleset_refused", 1)
			}
			if pan != nil {
				r.Violation("allow-panic", ci, fmt.Sprintf("Allow panicked: %v", pan), map[string]any{"rules": rules, "action": act, "name": name})
				continue
			}
			if got != want {
				r.Violation("allow-differs", ci, fmt.Sprintf("Rules.Allow(%q,%q)=%t but a single rule listing the action with a matching pattern exists=%t", act, name, got, want),
					map[string]any{"rules": rules, "action": act, "name": name, "got": got, "want": want})
			}
			if k == 0 {
				doc, _ := json.Marshal(rules)
				var viaJSON acl.Rules
				if err := json.Unmarshal(doc, &viaJSON); err == nil {
					if gj, _ := safeAllow(viaJSON, acl.Action(act), name); gj != want {
						r.Violation("allow-differs-via-json", ci, fmt.Sprintf("rule set decoded from JSON %s: Allow(%q,%q)=%t, want %t", doc, act, name, gj, want), map[string]any{"rules": rules})
					}
				}
			}
			gotPlus, _ := safeAllow(realPlus, acl.Action(act), name)
			if got && !gotPlus {
				r.Violation("allow-not-monotone", ci, "adding rules revoked access", map[string]any{"rules": rules, "extra": extra, "action": act, "name": name})
			}
			if len(rules) == 0 && got {
				r.Violation("empty-set-allows", ci, "the empty rule set allowed something", map[string]any{"action": act, "name": name})
			}
			r.Distinct(fmt.Sprintf("rules=%d allowed=%t", len(rules), want))
			if i == 0 && k < 2 {
				r.Sample(map[string]any{"rules": rules, "action": act, "name": name, "allowed": got})
			}
		}
	}
	// ---- the same rule VALUES used again after they were changed: a rule is what its fields say now ----
	rng = r.Rand(3)
	for i := 0; i < r.N(3000, 40000); i++ {
		rules := genRules(rng)
		if len(rules) == 0 {
			continue
		}
		real := toACL(rules)
		query := func(stage string) bool {
			for k := 0; k < 6; k++ {
				act := acts[rng.IntN(5)]
				name := rnames[rng.IntN(len(rnames))]
				want := refmodel.Allowed(rules, act, name)
				got, pan := safeAllow(real, acl.Action(act), name)
				r.Eval(1)
				r.Count("decisions_on_edited_rules", 1)
				if pan != nil || got != want {
					r.Violation("allow-differs-after-edit", -1, fmt.Sprintf("%s: Rules.Allow(%q,%q)=%t (panic %v), the rules as they stand now say %t", stage, act, name, got, pan, want), map[string]any{"rules": rules})
					return false
				}
			}
			return true
		}
		if !query("fresh") {
			break
		}
		switch rng.IntN(4) {
		case 0: // one pattern edited in place (same number of patterns)
			ri := rng.IntN(len(rules))
			if len(rules[ri].Patterns) == 0 {
				continue
			}
			pi := rng.IntN(len(rules[ri].Patterns))
			np := rpats[rng.IntN(len(rpats))]
			rules[ri].Patterns[pi] = np
			real[ri].Secret[pi] = acl.Secret(np)
		case 1: // an equally long list assigned
			ri := rng.IntN(len(rules))
			nl := make([]string, len(rules[ri].Patterns))
			al := make([]acl.Secret, len(nl))
			for k := range nl {
				nl[k] = rpats[rng.IntN(len(rpats))]
				al[k] = acl.Secret(nl[k])
			}
			rules[ri].Patterns, real[ri].Secret = nl, al
		case 2: // the next policy decoded into the same variable
			next := genRules(rng)
			for len(next) != len(rules) {
				next = genRules(rng)
			}
			doc, _ := json.Marshal(next)
			if err := json.Unmarshal(doc, &real); err != nil {
				continue
			}
			// (decoding into an existing value keeps what the document does not mention: mirror that)
			var mirror []refmodel.Rule
			b, _ := json.Marshal(real)
			json.Unmarshal(b, &mirror)
			rules = mirror
		case 3: // a copy of a rule with other patterns, beside the original
			ri := rng.IntN(len(rules))
			cp := real[ri]
			cp.Secret = []acl.Secret{acl.Secret(rpats[rng.IntN(len(rpats))])}
			for len(cp.Secret) < len(real[ri].Secret) {
				cp.Secret = append(cp.Secret, acl.Secret(rpats[rng.IntN(len(rpats))]))
			}
			real = acl.Rules{cp}
			mr := refmodel.Rule{Actions: rules[ri].Actions}
			for _, sp := range cp.Secret {
				mr.Patterns = append(mr.Patterns, string(sp))
			}
			rules = []refmodel.Rule{mr}
		}
		if !query("after an edit") {
			break
		}
	}

	// ---- rule sets as a peer presents them: through the capability map and the real front door ----
	frontDoor(t, r, genRules, rpats, rnames)

	r.Require("decisions_for_look_alike_rule_sets", "listings_through_the_front_door", "decisions_on_edited_rules", "decisions_through_the_front_door", "exhaustive_pairs", "exhaustive_pairs_matching", "random_pairs", "random_pairs_matching", "ruleset_allowed", "ruleset_refused", "ruleset_decisions_via_json", "concurrent_matches")
	r.Rule("exhaustive: every (pattern,name) pair of the bounded spaces listed in exhaustive_spaces; random: Unicode patterns up to ~40 pieces with names derived by substituting each '*' and optionally perturbing; rule sets of 0-4 rules with 0-3 actions/patterns. A case is non-trivial/distinct by (number of stars capped at 3, leading star, trailing star, has regexp metacharacter, has newline, expected outcome) resp. (rule-set size, expected decision)")
}

// frontDoor: the decision a peer actually gets. Rule sets (also with repeated rules, rules that look alike
// when printed, patterns with spaces) are delivered as the peer's capability grant; an info request per name
// is refused (403) exactly when no single rule lists the action with a pattern matching the whole name.
func frontDoor(t *testing.T, r *evid.Run, genRules func(*rand.Rand) []refmodel.Rule, rpats, rnames []string) {
	dir := evid.TempDir(t)
	d, err := realdb.Open(filepath.Join(dir, "frontdoor.db"), realdb.DummyKey("c07fd"))
	if err != nil {
		t.Fatal(err)
	}
	srv, err := httpdrv.New(d)
	if err != nil {
		t.Fatal(err)
	}
	const addr = "100.64.0.7:7"
	rng := r.Rand(4)
	lookalikes := [][]refmodel.Rule{
		{{Actions: []string{"info"}, Patterns: []string{"dev ops"}}, {Actions: []string{"info"}, Patterns: []string{"dev", "ops"}}},
		{{Actions: []string{"info", "get"}, Patterns: []string{"a"}}, {Actions: []string{"info"}, Patterns: []string{"get a"}}, {Actions: []string{"info get"}, Patterns: []string{"a"}}},
		{{Actions: []string{"info"}, Patterns: []string{"a b", "x"}}, {Actions: []string{"info"}, Patterns: []string{"a", "b x"}}, {Actions: []string{"info"}, Patterns: []string{"a", "b", "x"}}},
		{{Actions: []string{"info"}, Patterns: []string{"x"}}, {Actions: []string{"info"}, Patterns: []string{"x"}}, {Actions: []string{"info"}, Patterns: []string{"dev/*"}}},
	}
	names := append(append([]string{}, rnames...), "dev", "ops", "dev ops", "get a", "a b", "b x", "b",
		"dev/🔑", "dev/\U0001F600x", "dev/\uffffz", "dev/\U0010FFFF", "a\U0001F511b", "équipe/\U0001F510", "dev/~", "dev/\u007f")
	// every name of the pool exists, so that a listing has something to show
	stored := map[string]bool{}
	for _, n := range names {
		if n != "" && !stored[n] {
			stored[n] = true
			if _, err := d.Put(realdb.Super(), n, []byte("v")); err != nil {
				delete(stored, n) // (reserved names cannot be created)
			}
		}
	}
	for i := 0; i < r.N(400, 6000); i++ {
		rules := genRules(rng)
		if i < 4*len(lookalikes) {
			rules = lookalikes[i%len(lookalikes)]
		} else if rng.IntN(4) == 0 && len(rules) > 0 {
			rules = append(rules, rules[rng.IntN(len(rules))]) // a genuinely repeated rule
		}
		srv.SetWho(addr, httpdrv.Who{Login: "peer@verif", Node: "peer", Rules: rules})
		// the listing shows exactly the stored names on which the rules give info
		if rep := srv.Raw("POST", "/api/list", addr, httpdrv.GoodHeaders, []byte("{}")); rep.Status == 200 {
			var infos []*api.SecretInfo
			json.Unmarshal(rep.Body, &infos)
			listed := map[string]bool{}
			for _, in := range infos {
				listed[in.Name] = true
			}
			r.Count("listings_through_the_front_door", 1)
			for n := range stored {
				if want := refmodel.Allowed(rules, "info", n); want != listed[n] {
					r.Violation("allow-differs-at-the-front-door", -1, fmt.Sprintf("a peer presenting the rules %+v lists the secrets: %q listed=%t, but a single rule giving info with a matching pattern exists: %t", rules, n, listed[n], want), map[string]any{"rules": rules, "name": n})
					return
				}
			}
		} else {
			r.Violation("allow-differs-at-the-front-door", -1, fmt.Sprintf("list answered %d", rep.Status), nil)
			return
		}
		for k := 0; k < 10; k++ {
			name := names[rng.IntN(len(names))]
			if name == "" {
				continue
			}
			want := refmodel.Allowed(rules, "info", name)
			res, rep, _ := srv.Do(addr, ops.Op{Kind: ops.Info, Name: name})
			r.Eval(1)
			r.Count("decisions_through_the_front_door", 1)
			got := res.Class != refmodel.Denied
			if rep.Status >= 500 || got != want {
				r.Violation("allow-differs-at-the-front-door", -1, fmt.Sprintf("a peer presenting the rules %+v asks for info on %q: status %d; a single rule listing the action with a matching pattern exists: %t", rules, name, rep.Status, want), map[string]any{"rules": rules, "name": name})
				return
			}
		}
	}
	// rule SETS of different callers that look alike when written out (one pattern with a blank in it against two
	// patterns; one action with a blank against two actions): on one long-lived server, each caller's requests -
	// all three get variants and info - are decided by that caller's own rules, whoever asked before
	for _, n := range []string{"dev/k", "prod/k", "dev/k prod/k", "a", "b", "a b"} {
		d.Put(realdb.Super(), n, []byte("v"))
	}
	sets := [][][]refmodel.Rule{
		{{{Actions: []string{"get", "info"}, Patterns: []string{"dev/*", "prod/*"}}}, {{Actions: []string{"get", "info"}, Patterns: []string{"dev/* prod/*"}}}},
		{{{Actions: []string{"get"}, Patterns: []string{"a", "b"}}}, {{Actions: []string{"get"}, Patterns: []string{"a b"}}}},
		{{{Actions: []string{"get", "info"}, Patterns: []string{"a"}}}, {{Actions: []string{"get info"}, Patterns: []string{"a"}}}},
		{{{Actions: []string{"get"}, Patterns: []string{"a"}}, {Actions: []string{"info"}, Patterns: []string{"b"}}}, {{Actions: []string{"get"}, Patterns: []string{"a}", "{[info] [b"}}}},
	}
	for si, pair := range sets {
		for _, order := range [][2]int{{0, 1}, {1, 0}, {0, 1}} {
			for _, wi := range order {
				rules := pair[wi]
				a := fmt.Sprintf("100.64.7.%d:7", 10+2*si+wi)
				srv.SetWho(a, httpdrv.Who{Login: fmt.Sprintf("peer-%d-%d@verif", si, wi), Node: "peer", Rules: rules})
				for _, name := range []string{"dev/k", "prod/k", "dev/k prod/k", "a", "b", "a b"} {
					for _, op := range []ops.Op{{Kind: ops.GetCond, Name: name, Version: 7}, {Kind: ops.Get, Name: name}, {Kind: ops.GetVer, Name: name, Version: 1}, {Kind: ops.Info, Name: name}} {
						want := refmodel.Allowed(rules, op.Kind.Action(), name)
						res, rep, _ := srv.Do(a, op)
						r.Eval(1)
						r.Count("decisions_for_look_alike_rule_sets", 1)
						if got := res.Class == refmodel.OK; rep.Status >= 500 || got != want {
							r.Violation("allow-differs-at-the-front-door", -1, fmt.Sprintf("a peer presenting the rules %+v: %s answered %d; one of ITS rules lists the action with a matching pattern: %t (another peer, whose rules look alike when written out, uses the same server)", rules, op, rep.Status, want), map[string]any{"rules": rules, "name": name})
							return
						}
					}
				}
			}
		}
	}
	r.Distinct("front door")
}
