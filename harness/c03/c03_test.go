// C03 — acknowledged state survives restart exactly; schema-v1 files stay
// readable. Reference-model monitor with a clean stop/restart (second
// db.Open of the same path with the same key) after EVERY operation of
// generated histories, a next-version-counter probe on a copy of the file,
// an "Open never modifies the file" check, and fixture files written by the
// pinned commit.
package c03

import (
	"bytes"
	"compress/gzip"
	"crypto/sha256"
	"encoding/base64"
	"encoding/json"
	"fmt"
	"os"
	"path/filepath"
	"runtime"
	"sort"
	"sync"
	"sync/atomic"
	"syscall"
	"testing"

	"github.com/tailscale/setec/types/api"
	"github.com/tink-crypto/tink-go/v2/aead"
	"github.com/tink-crypto/tink-go/v2/insecurecleartextkeyset"
	"github.com/tink-crypto/tink-go/v2/keyset"
	"github.com/tink-crypto/tink-go/v2/tink"

	"verif/harness/internal/evid"
	"verif/harness/internal/ops"
	"verif/harness/internal/realdb"
	"verif/harness/internal/refmodel"
)

type fstate struct {
	sum   [32]byte
	size  int64
	mtime int64
	ino   uint64
}

func statFile(path string) (fstate, error) {
	b, err := os.ReadFile(path)
	if err != nil {
		return fstate{}, err
	}
	st, err := os.Stat(path)
	if err != nil {
		return fstate{}, err
	}
	return fstate{sha256.Sum256(b), st.Size(), st.ModTime().UnixNano(), st.Sys().(*syscall.Stat_t).Ino}, nil
}

func copyFile(dst, src string) error {
	b, err := os.ReadFile(src)
	if err != nil {
		return err
	}
	st, err := os.Stat(src)
	if err != nil {
		return err
	}
	if err := os.WriteFile(dst, b, st.Mode().Perm()); err != nil {
		return err
	}
	return os.Chmod(dst, st.Mode().Perm())
}

// probeCounters opens a copy of the file and checks that the next put of a
// fresh value on every name receives the model's Latest+1.
func probeCounters(path, scratch string, key tink.AEAD, m *refmodel.Model) error {
	if err := copyFile(scratch, path); err != nil {
		return err
	}
	defer os.Remove(scratch)
	d, err := realdb.Open(scratch, key)
	if err != nil {
		return fmt.Errorf("copy of the file does not open: %v", err)
	}
	for _, n := range realdb.SortedNames(m) {
		got := ops.ApplyReal(d, realdb.Super(), ops.Op{Kind: ops.Put, Name: n, Value: []byte("fresh-probe-value-\x00-" + n)})
		if got.Class != refmodel.OK || got.Version != m.S[n].Latest+1 {
			return fmt.Errorf("after restart the next put on %q returned %s; %d versions had been issued before the restart, so it must be v%d", n, got, m.S[n].Latest, m.S[n].Latest+1)
		}
	}
	return nil
}

// gzipOf returns a complete, valid gzip stream (values that ARE archives: a .gz, a .tar.gz bundle).
func gzipOf(unit string, n int) []byte {
	var buf bytes.Buffer
	zw := gzip.NewWriter(&buf)
	for i := 0; i < n; i++ {
		zw.Write([]byte(unit))
	}
	zw.Close()
	return buf.Bytes()
}

func TestC03(t *testing.T) {
	r := evid.Start("C03", "exploration")
	defer r.Finish(t)
	r.Assume("clean stop/restart = a second db.Open of the same path with the same key while the first handle is idle",
		"'earlier build' is represented by the pinned commit a4360df, which wrote the fixture files under /verif/fixtures")
	dir := evid.TempDir(t)
	nHist := r.N(1500, 20000)
	cfg := ops.GenCfg{
		Names: []string{"a", "a", "b", "c/d\n", "", "_internal/x", "alerts/disk%20full", "t/acme%2Fprod", "100%", "pct%zz"},
		Values: [][]byte{[]byte(""), []byte("one"), []byte("two"), {0, 255, 254, '"', '\\'}, gzipOf("a certificate bundle, compressed by whoever stored it\n", 40), gzipOf("x", 1),
			[]byte("eyJhbGciOiJIUzI1NiJ9.e30.c2ln"), []byte("-----BEGIN KEY-----\nQUJD\n-----END KEY-----\n"), []byte(`{"Value":"QUJD","Version":3}`), []byte("QUJD"), bytes.Repeat([]byte("compressible "), 200)},
		Weights: map[ops.Kind]int{ops.List: 0, ops.Info: 1, ops.Get: 1, ops.GetVer: 1, ops.GetCond: 1,
			ops.Put: 10, ops.Act: 5, ops.DelVer: 6, ops.Delete: 2},
	}
	su := realdb.Super()
	var wg sync.WaitGroup
	nw := runtime.NumCPU()
	for w := 0; w < nw; w++ {
		wg.Add(1)
		go func(w int) {
			defer wg.Done()
			for h := w; h < nHist; h += nw {
				if r.Skip(h) {
					continue
				}
				rng := r.Rand(uint64(h))
				os.MkdirAll(filepath.Join(dir, fmt.Sprintf("h%d", h)), 0o700)
				path := filepath.Join(dir, fmt.Sprintf("h%d", h), "db")
				key := realdb.DummyKey(fmt.Sprintf("c03-%d", h))
				snk := &realdb.FlakySink{}
				d, err := realdb.OpenFlaky(path, key, snk)
				if err != nil {
					r.Violation("create-fails", h, err.Error(), nil)
					continue
				}
				m := refmodel.New()
				var trace []string
				for i, n := 0, 20+rng.IntN(11); i < n; i++ {
					op := ops.Gen(rng, m, cfg)
					ioFails := op.Kind.Mutating() && rng.IntN(10) == 0
					if rng.IntN(8) == 0 {
						// leftovers of a save that a crash interrupted earlier: an abandoned, longer image beside the database
						img, _ := os.ReadFile(path)
						img = append(img, bytes.Repeat([]byte("\n{\"abandoned\":true}"), 1+rng.IntN(4000))...)
						leftover := []string{".tmp", ".tmp0", ".tmp1234567890", ".new", "~", ".bak", ".lock"}[rng.IntN(7)]
						os.WriteFile(path+leftover, img, 0o600)
						trace = append(trace, "(stale file db"+leftover+" appears)")
						r.Count("stale_sibling_files", 1)
					}
					var want, got ops.Result
					auditFails := !ioFails && op.Kind.Mutating() && rng.IntN(10) == 0
					if auditFails {
						// the audit log cannot be made durable during this call: whatever the call reports, only
						// acknowledged effects may survive a restart, and everything acknowledged before must
						snk.FailSync.Store(true)
						got = ops.ApplyReal(d, su, op)
						snk.FailSync.Store(false)
						if got.Class == refmodel.Other {
							want = got
						} else {
							want = ops.ApplyModel(m, nil, true, op)
						}
						trace = append(trace, fmt.Sprintf("%s (audit log sync fails) -> %s", op, got))
						r.Count("restarts_after_audit_failure", 1)
					} else if ioFails {
						// the file system fails during this call: whatever it reports, only acknowledged effects may survive a restart
						realdb.BreakDir(path, func() { got = ops.ApplyReal(d, su, op) })
						if got.Class == refmodel.OK {
							probe := m.Clone()
							if ops.ApplyModel(probe, nil, true, op); probe.CanonFull() != m.CanonFull() {
								r.Violation("io-failure-reported-success", h, fmt.Sprintf("history %d (%s): the save could not be written but the call reported success", h, op), map[string]any{"history": trace})
								break
							}
						}
						want = got
						trace = append(trace, fmt.Sprintf("%s (file system fails) -> %s", op, got))
						r.Count("restarts_after_io_failure", 1)
					} else {
						want = ops.ApplyModel(m, nil, true, op)
						got = ops.ApplyReal(d, su, op)
						trace = append(trace, fmt.Sprintf("%s -> %s", op, got))
					}
					fail := func(key, msg string) {
						r.Violation(key, h, fmt.Sprintf("history %d after step %d (%s): %s", h, i, op, msg), map[string]any{"history": trace})
					}
					if !ops.Agree(want, got) {
						// C02's business; a divergent live state makes restart checks meaningless
						fail("live-result-differs", fmt.Sprintf("real %s, model %s", got, want))
						break
					}
					r.Eval(1)
					before, err := statFile(path)
					if err != nil {
						fail("file-unreadable", err.Error())
						break
					}
					d2, err := realdb.OpenFlaky(path, key, snk)
					if err != nil {
						fail("reopen-fails", "reopening with the same key failed: "+err.Error())
						break
					}
					after, _ := statFile(path)
					if before != after {
						fail("open-modified-file", fmt.Sprintf("opening changed the file (size %d->%d, inode %d->%d, mtime or bytes differ=%t)", before.size, after.size, before.ino, after.ino, before.sum != after.sum || before.mtime != after.mtime))
					}
					re, err := realdb.Dump(d2)
					if err != nil {
						fail("reopened-state-inconsistent", err.Error())
						break
					}
					if re.Canon() != m.Canon() {
						key := "restart-state-differs"
						fail(key, fmt.Sprintf("state after restart %s, acknowledged state %s", re.Canon(), m.Canon()))
						break
					}
					if err := probeCounters(path, path+".probe", key, m); err != nil {
						fail("restart-counter-lost", err.Error())
						break
					}
					r.Count("restarts", 1)
					cls := "read"
					if op.Kind.Mutating() {
						cls = string(op.Kind)
					}
					r.Distinct(fmt.Sprintf("restart-after/%s/%s/names=%d", cls, want.Class, len(m.S)))
					if op.Kind.Mutating() && want.Class == refmodel.OK {
						r.Count("restarts_after_acknowledged_mutation", 1)
					} else if op.Kind.Mutating() {
						r.Count("restarts_after_failed_mutation", 1)
					}
					for _, s := range m.S {
						if _, ok := s.Versions[s.Latest]; !ok {
							r.Count("restarts_with_newest_version_deleted", 1)
							break
						}
					}
					// continue the history on the reopened handle half of the time (restart semantics)
					if rng.IntN(2) == 0 {
						d = d2
					}
				}
				if h < 2 {
					r.Sample(map[string]any{"history": h, "steps_each_followed_by_restart": trace})
				}
				r.Count("histories", 1)
			}
		}(w)
	}
	wg.Wait()
	if r.Only < 0 {
		for i := 0; i < r.N(30, 600); i++ {
			concurrentWriters(t, r, dir, i)
		}
	}

	// ---- Open never modifies the file, also when its permissions are not the ones the server would give it ----
	if r.Only < 0 {
		mdir := filepath.Join(dir, "modes")
		os.MkdirAll(mdir, 0o700)
		src := filepath.Join(mdir, "src.db")
		key := realdb.DummyKey("c03-modes")
		d0, err := realdb.Open(src, key)
		if err != nil {
			t.Fatal(err)
		}
		for k := 0; k < 4; k++ {
			d0.Put(realdb.Super(), fmt.Sprintf("m%d", k%2), []byte(fmt.Sprintf("v%d", k)))
		}
		raw, _ := os.ReadFile(src)
		oldMask := syscall.Umask(0)
		for _, mode := range []os.FileMode{0o600, 0o400, 0o640, 0o644, 0o664, 0o666} {
			p := filepath.Join(mdir, fmt.Sprintf("copy-%o.db", mode))
			os.WriteFile(p, raw, mode)
			os.Chmod(p, mode)
			before, _ := statFile(p)
			stBefore, _ := os.Stat(p)
			r.Eval(1)
			for open := 1; open <= 2; open++ {
				if _, err := realdb.Open(p, key); err != nil {
					r.Violation("reopen-fails", -1, fmt.Sprintf("a copy of the database with mode %o does not open: %v", mode, err), nil)
					break
				}
				after, _ := statFile(p)
				stAfter, _ := os.Stat(p)
				if before != after || stBefore.Mode() != stAfter.Mode() {
					r.Violation("open-modified-file", -1, fmt.Sprintf("opening (#%d) a database file with mode %o changed it (size %d->%d, inode %d->%d, mode %o->%o, bytes or mtime differ=%t)", open, mode, before.size, after.size, before.ino, after.ino, stBefore.Mode().Perm(), stAfter.Mode().Perm(), before.sum != after.sum || before.mtime != after.mtime), nil)
					break
				}
			}
			r.Count("opens_of_files_with_other_modes", 1)
			r.Distinct(fmt.Sprintf("open file with mode %o", mode))
		}
		syscall.Umask(oldMask)
	}

	if r.Only < 0 {
		largeDatabase(t, r, dir)
		longLivedInstance(t, r, dir)
		symlinkedDatabase(t, r, dir)
		racingPairs(t, r, dir)
	}

	// ---- fixtures written by the pinned commit ----
	fdir := filepath.Join(os.Getenv("VERIF_DIR"), "fixtures")
	if os.Getenv("VERIF_DIR") == "" {
		fdir = "/verif/fixtures"
	}
	exps, _ := filepath.Glob(filepath.Join(fdir, "*.expect.json"))
	sort.Strings(exps)
	for fi, ef := range exps {
		if r.Only >= 0 {
			break
		}
		var exp struct {
			KeyKind string `json:"key_kind"`
			KeyData string `json:"key_data"`
			Secrets map[string]struct {
				Versions map[string]string `json:"versions"`
				Active   uint32            `json:"active"`
				NextPut  uint32            `json:"next_put_version"`
			} `json:"secrets"`
		}
		eb, err := os.ReadFile(ef)
		if err != nil || json.Unmarshal(eb, &exp) != nil {
			t.Fatalf("fixture expectation %s unreadable", ef)
		}
		var key tink.AEAD
		if exp.KeyKind == "dummy" {
			key = realdb.DummyKey(exp.KeyData)
		} else {
			kb, _ := base64.StdEncoding.DecodeString(exp.KeyData)
			h, err := insecurecleartextkeyset.Read(keyset.NewBinaryReader(bytes.NewReader(kb)))
			if err != nil {
				t.Fatalf("fixture key: %v", err)
			}
			if key, err = aead.New(h); err != nil {
				t.Fatalf("fixture key: %v", err)
			}
		}
		base := ef[:len(ef)-len(".expect.json")]
		work := filepath.Join(dir, fmt.Sprintf("fixture%d.db", fi))
		if err := copyFile(work, base+".db"); err != nil {
			t.Fatal(err)
		}
		name := filepath.Base(base)
		m := refmodel.New()
		for n, s := range exp.Secrets {
			ms := &refmodel.Secret{Versions: map[uint32]string{}, Active: s.Active, Latest: s.NextPut - 1}
			for vs, b64 := range s.Versions {
				var v uint32
				fmt.Sscan(vs, &v)
				b, _ := base64.StdEncoding.DecodeString(b64)
				ms.Versions[v] = string(b)
			}
			m.S[n] = ms
		}
		r.Eval(1)
		r.Count("fixtures", 1)
		r.Distinct("fixture/" + name)
		before, _ := statFile(work)
		d, err := realdb.Open(work, key)
		if err != nil {
			r.Violation("fixture-does-not-open", -1, fmt.Sprintf("%s (written by the pinned commit in the schema-v1 layout) does not open: %v", name, err), map[string]any{"fixture": name})
			continue
		}
		after, _ := statFile(work)
		if before != after {
			r.Violation("open-modified-file", -1, "opening fixture "+name+" changed the file", map[string]any{"fixture": name})
		}
		re, err := realdb.Dump(d)
		if err != nil {
			r.Violation("fixture-state-inconsistent", -1, name+": "+err.Error(), map[string]any{"fixture": name})
			continue
		}
		if re.Canon() != m.Canon() {
			r.Violation("fixture-contents-differ", -1, fmt.Sprintf("%s opens with contents different from what the pinned commit stored (%d vs %d secrets)", name, len(re.S), len(m.S)), map[string]any{"fixture": name})
			continue
		}
		if err := probeCounters(work, work+".probe", key, m); err != nil {
			r.Violation("fixture-counter-lost", -1, name+": "+err.Error(), map[string]any{"fixture": name})
			continue
		}
		// the server goes on working on the old file: every acknowledged change must survive the next restart too
		fcfg := cfg
		fcfg.Names = append([]string{"added-later"}, realdb.SortedNames(m)...)
		frng := r.Rand(uint64(900000 + fi))
		var ftrace []string
		for step := 0; step < 12; step++ {
			op := ops.Gen(frng, m, fcfg)
			if step == 0 {
				op = ops.Op{Kind: ops.Put, Name: "added-later", Value: []byte("written by the current build")}
			}
			want := ops.ApplyModel(m, nil, true, op)
			got := ops.ApplyReal(d, su, op)
			ftrace = append(ftrace, fmt.Sprintf("%s -> %s", op, got))
			r.Eval(1)
			if !ops.Agree(want, got) {
				r.Violation("live-result-differs", -1, fmt.Sprintf("fixture %s, step %d (%s): real %s, model %s", name, step, op, got, want), map[string]any{"fixture": name, "history": ftrace})
				break
			}
			d2, err := realdb.Open(work, key)
			if err != nil {
				r.Violation("reopen-fails", -1, fmt.Sprintf("fixture %s after %s: reopening with the same key failed: %v", name, op, err), map[string]any{"fixture": name, "history": ftrace})
				break
			}
			re, err := realdb.Dump(d2)
			if err != nil {
				r.Violation("reopened-state-inconsistent", -1, fmt.Sprintf("fixture %s after %s: %v", name, op, err), map[string]any{"fixture": name, "history": ftrace})
				break
			}
			if re.Canon() != m.Canon() {
				r.Violation("restart-state-differs", -1, fmt.Sprintf("fixture %s after %s: state after restart %s, acknowledged state %s", name, op, re.Canon(), m.Canon()), map[string]any{"fixture": name, "history": ftrace})
				break
			}
			r.Count("restarts_of_continued_fixtures", 1)
			if frng.IntN(2) == 0 {
				d = d2
			}
		}
	}
	r.Require("opens_of_files_with_other_modes", "restarts_after_io_failure", "restarts_after_concurrent_writes", "histories", "restarts", "restarts_after_acknowledged_mutation", "restarts_after_failed_mutation", "restarts_with_newest_version_deleted", "fixtures", "restarts_of_continued_fixtures", "stale_sibling_files", "restarts_after_audit_failure", "restarts_of_large_databases", "restarts_beside_a_long_lived_instance", "restarts_of_symlinked_databases", "racing_pairs")
	r.Rule("seeded random histories of 20-30 operations over 3 ordinary names (+ empty and reserved), with a restart (second db.Open of the same path, full-state comparison with the model, per-name next-version probe on a copy, before/after hash+inode+mtime of the file) after EVERY operation; the history continues on the reopened handle half of the time. Plus 6 fixture databases written by the pinned commit. Distinct = (kind of the operation preceding the restart, its outcome class, number of names) and one class per fixture")
}

// largeDatabase: a database that grows by multi-megabyte values up to tens of megabytes. Each acknowledged
// put must survive the next restart; a put that is refused (should the server have a size limit) must leave
// the database as it was and openable.
func largeDatabase(t *testing.T, r *evid.Run, dir string) {
	os.MkdirAll(filepath.Join(dir, "large"), 0o700)
	path := filepath.Join(dir, "large", "db")
	key := realdb.DummyKey("c03-large")
	d, err := realdb.Open(path, key)
	if err != nil {
		t.Error(err)
		return
	}
	su := realdb.Super()
	m := refmodel.New()
	rng := r.Rand(424242)
	total := 0
	for i := 0; total < r.N(24, 120)<<20; i++ {
		n := []int{3<<20 + 512<<10, 1 << 20, 2<<20 + 7, 700 << 10}[rng.IntN(4)]
		val := make([]byte, n)
		for k := 0; k < n; k += 8 {
			x := rng.Uint64()
			for b := 0; b < 8 && k+b < n; b++ {
				val[k+b] = byte(x >> (8 * b))
			}
		}
		op := ops.Op{Kind: ops.Put, Name: fmt.Sprintf("large/%d", i%5), Value: val}
		probe := m.Clone()
		want := ops.ApplyModel(probe, nil, true, op)
		got := ops.ApplyReal(d, su, op)
		r.Eval(1)
		if got.Class == refmodel.OK {
			if !ops.Agree(want, got) {
				r.Violation("live-result-differs", -1, fmt.Sprintf("large database, put #%d of %d bytes: real %s, model %s", i, n, got, want), nil)
				return
			}
			m = probe
			total += n
		} else {
			total += n // a refusal: fine, but nothing may have changed
		}
		d2, err := realdb.Open(path, key)
		if err != nil {
			r.Violation("reopen-fails", -1, fmt.Sprintf("large database: after put #%d (%d bytes, returned %s, %d MiB of values acknowledged so far) the file does not open again: %v", i, n, got, total>>20, err), nil)
			return
		}
		re, err := realdb.Dump(d2)
		if err != nil || re.Canon() != m.Canon() {
			r.Violation("restart-state-differs", -1, fmt.Sprintf("large database: after put #%d (%d bytes, returned %s) the reopened state differs from the acknowledged state (err %v)", i, n, got, err), nil)
			return
		}
		r.Count("restarts_of_large_databases", 1)
		if i%2 == 1 {
			d = d2
		}
	}
	r.Distinct("large database")
}

// longLivedInstance: ONE server instance stays up for thousands of acknowledged writes (a counter that only
// a long-running process reaches, a cache that only then fills up ...); after EVERY one of them the file is
// opened a second time, as a restart at that very moment would, and must show the acknowledged state.
func longLivedInstance(t *testing.T, r *evid.Run, dir string) {
	os.MkdirAll(filepath.Join(dir, "longlived"), 0o700)
	path := filepath.Join(dir, "longlived", "db")
	key := realdb.DummyKey("c03-longlived")
	d, err := realdb.Open(path, key)
	if err != nil {
		t.Error(err)
		return
	}
	su := realdb.Super()
	m := refmodel.New()
	rng := r.Rand(515253)
	cfg := ops.GenCfg{Names: []string{"p", "q", "r"}, Values: [][]byte{[]byte("one"), []byte("two"), []byte("three"), []byte("four")},
		Weights: map[ops.Kind]int{ops.Put: 10, ops.Act: 4, ops.DelVer: 4, ops.Delete: 1}}
	n := r.N(2600, 12000)
	for i := 0; i < n; i++ {
		op := ops.Gen(rng, m, cfg)
		if op.Kind == ops.Put {
			op.Value = []byte(fmt.Sprintf("%s-%d", op.Value, i)) // (every put really stores something)
		}
		want := ops.ApplyModel(m, nil, true, op)
		got := ops.ApplyReal(d, su, op)
		if !ops.Agree(want, got) {
			r.Violation("live-result-differs", -1, fmt.Sprintf("long-lived instance, call #%d (%s): real %s, model %s", i, op, got, want), nil)
			return
		}
		if want.Class != refmodel.OK {
			continue
		}
		r.Eval(1)
		d2, err := realdb.Open(path, key)
		if err != nil {
			r.Violation("reopen-fails", -1, fmt.Sprintf("long-lived instance: after its acknowledged write #%d (%s) the file does not open: %v", i, op, err), nil)
			return
		}
		if i%16 == 0 || i > n-40 {
			re, err := realdb.Dump(d2)
			if err != nil || re.Canon() != m.Canon() {
				r.Violation("restart-state-differs", -1, fmt.Sprintf("long-lived instance: after acknowledged write #%d (%s) the reopened state differs from the acknowledged one (err %v)", i, op, err), nil)
				return
			}
		}
		r.Count("restarts_beside_a_long_lived_instance", 1)
	}
	r.Distinct("long-lived instance")
}

// symlinkedDatabase: the path the server is given is a symbolic link (state directories are often laid out
// that way), with an absolute or a relative target, while the process's working directory is somewhere else.
// What is acknowledged through that path is there when the same path is opened again.
func symlinkedDatabase(t *testing.T, r *evid.Run, dir string) {
	for li, rel := range []bool{false, true} {
		sdir := filepath.Join(dir, fmt.Sprintf("symlinked%d", li), "state")
		os.MkdirAll(sdir, 0o700)
		target := filepath.Join(sdir, "database.real")
		link := filepath.Join(sdir, "database")
		key := realdb.DummyKey("c03-symlink")
		d0, err := realdb.Open(target, key)
		if err != nil {
			t.Error(err)
			return
		}
		su := realdb.Super()
		m := refmodel.New()
		first := ops.Op{Kind: ops.Put, Name: "kept", Value: []byte("written before the link existed")}
		ops.ApplyModel(m, nil, true, first)
		ops.ApplyReal(d0, su, first)
		lt := target
		if rel {
			lt = "database.real"
		}
		if err := os.Symlink(lt, link); err != nil {
			t.Error(err)
			return
		}
		d, err := realdb.Open(link, key)
		if err != nil {
			r.Violation("reopen-fails", -1, fmt.Sprintf("a database reached through a symbolic link (relative target: %t) does not open: %v", rel, err), nil)
			continue
		}
		rng := r.Rand(uint64(626262 + li))
		cfg := ops.GenCfg{Names: []string{"kept", "x", "y"}, Values: [][]byte{[]byte("one"), []byte("two"), []byte("three")},
			Weights: map[ops.Kind]int{ops.Put: 8, ops.Act: 3, ops.DelVer: 3, ops.Delete: 1}}
		for i := 0; i < 25; i++ {
			op := ops.Gen(rng, m, cfg)
			want := ops.ApplyModel(m, nil, true, op)
			got := ops.ApplyReal(d, su, op)
			if !ops.Agree(want, got) {
				r.Violation("live-result-differs", -1, fmt.Sprintf("symlinked database, %s: real %s, model %s", op, got, want), nil)
				return
			}
			d2, err := realdb.Open(link, key)
			r.Eval(1)
			r.Count("restarts_of_symlinked_databases", 1)
			if err != nil {
				r.Violation("reopen-fails", -1, fmt.Sprintf("symlinked database (relative target: %t) after %s: %v", rel, op, err), nil)
				return
			}
			re, err := realdb.Dump(d2)
			if err != nil || re.Canon() != m.Canon() {
				r.Violation("restart-state-differs", -1, fmt.Sprintf("a database opened through a symbolic link (relative target: %t; working directory elsewhere): after the acknowledged %s the same path opens with another state (err %v)", rel, op, err), nil)
				os.Remove("database.real") // (whatever a confused writer may have left in the working directory)
				return
			}
		}
		os.Remove("database.real")
		r.Distinct(fmt.Sprintf("symlinked database relative=%t", rel))
	}
}

// racingPairs: two calls whose preconditions exclude each other are made at the same moment on one secret
// (activate version v / delete version v; activate v / delete the secret; delete version v twice). Whichever of
// them are acknowledged, the file that is there afterwards opens with a self-consistent state equal to what the
// running process serves.
func racingPairs(t *testing.T, r *evid.Run, dir string) {
	os.MkdirAll(filepath.Join(dir, "pairs"), 0o700)
	path := filepath.Join(dir, "pairs", "db")
	key := realdb.DummyKey("c03-pairs")
	d, err := realdb.Open(path, key)
	if err != nil {
		t.Error(err)
		return
	}
	su := realdb.Super()
	rng := r.Rand(737373)
	for round := 0; round < r.N(2500, 20000); round++ {
		name := fmt.Sprintf("pair/%d", round%4)
		d.Delete(su, name)
		for v := 1; v <= 3; v++ {
			d.Put(su, name, []byte(fmt.Sprintf("%s-%d-%d", name, round, v)))
		}
		kind := []int{0, 0, 0, 1, 2}[rng.IntN(5)]
		opA := ops.Op{Kind: ops.Act, Name: name, Version: 2}
		opB := ops.Op{Kind: ops.DelVer, Name: name, Version: 2}
		switch kind {
		case 1:
			opB = ops.Op{Kind: ops.Delete, Name: name}
		case 2:
			opA = ops.Op{Kind: ops.DelVer, Name: name, Version: 2}
		}
		var resA, resB ops.Result
		var wg sync.WaitGroup
		var gate atomic.Bool
		// (two more callers of each kind make the same two calls: whoever comes second of a kind is refused
		// or finds nothing to do, and the chance that an A and a B meet grows)
		for extra := 0; extra < 4; extra++ {
			op := opA
			if extra%2 == 1 {
				op = opB
			}
			wg.Add(1)
			go func() {
				defer wg.Done()
				for !gate.Load() {
				}
				ops.ApplyReal(d, su, op)
			}()
		}
		wg.Add(2)
		go func() {
			defer wg.Done()
			for !gate.Load() {
			}
			resA = ops.ApplyReal(d, su, opA)
		}()
		jitter := rng.IntN(40) // B starts a few hundred nanoseconds later, or not
		go func() {
			defer wg.Done()
			for !gate.Load() {
			}
			for k := 0; k < jitter*10; k++ {
				_ = gate.Load()
			}
			resB = ops.ApplyReal(d, su, opB)
		}()
		gate.Store(true)
		wg.Wait()
		r.Eval(1)
		r.Count("racing_pairs", 1)
		what := fmt.Sprintf("round %d: %s -> %s at the same moment as %s -> %s", round, opA, resA, opB, resB)
		live, err := realdb.Dump(d)
		if err != nil {
			r.Violation("live-state-inconsistent", -1, what+": the served state is inconsistent: "+err.Error(), nil)
			return
		}
		d2, err := realdb.Open(path, key)
		if err != nil {
			r.Violation("reopen-fails", -1, what+": "+err.Error(), nil)
			return
		}
		re, err := realdb.Dump(d2)
		if err != nil {
			r.Violation("reopened-state-inconsistent", -1, what+": after a restart: "+err.Error(), nil)
			return
		}
		if re.Canon() != live.Canon() {
			r.Violation("restart-state-differs", -1, what+": the reopened state differs from the served one", nil)
			return
		}
		if kind == 0 && resA.Class == refmodel.OK && resB.Class == refmodel.OK {
			r.Violation("restart-state-differs", -1, what+": both were acknowledged, but no order of the two allows that (an active version cannot be deleted, a deleted one not activated)", nil)
			return
		}
	}
	r.Distinct("racing pairs")
}

// concurrentWriters: several clients write at the same time; once every call has been acknowledged the
// file must hold all of it (the order in which snapshots reach the disk must follow the order of the changes).
func concurrentWriters(t *testing.T, r *evid.Run, dir string, idx int) {
	r.Eval(1)
	os.MkdirAll(filepath.Join(dir, fmt.Sprintf("cw%d", idx)), 0o700)
	path := filepath.Join(dir, fmt.Sprintf("cw%d", idx), "db")
	key := realdb.DummyKey("c03-cw")
	d, err := realdb.Open(path, key)
	if err != nil {
		t.Error(err)
		return
	}
	su := realdb.Super()
	const G, K = 8, 6
	var wg sync.WaitGroup
	start := make(chan struct{})
	for g := 0; g < G; g++ {
		wg.Add(1)
		go func(g int) {
			defer wg.Done()
			<-start
			for k := 0; k < K; k++ {
				name := fmt.Sprintf("w%d", g)
				d.Put(su, name, []byte(fmt.Sprintf("%d-%d", g, k)))
				if k%3 == 2 {
					d.Activate(su, name, api.SecretVersion(k+1))
				}
				if k == K-1 {
					d.DeleteVersion(su, name, 2)
				}
			}
		}(g)
	}
	close(start)
	wg.Wait()
	live, err := realdb.Dump(d)
	if err != nil {
		r.Violation("live-state-inconsistent", -1, err.Error(), nil)
		return
	}
	d2, err := realdb.Open(path, key)
	if err != nil {
		r.Violation("reopen-fails", -1, fmt.Sprintf("concurrent writers %d: %v", idx, err), nil)
		return
	}
	re, err := realdb.Dump(d2)
	r.Count("restarts_after_concurrent_writes", 1)
	r.Distinct("restart-after/concurrent-writers")
	if err != nil || re.Canon() != live.Canon() {
		r.Violation("restart-state-differs", -1, fmt.Sprintf("concurrent writers %d: every call had been acknowledged, the running process serves %s, but after a restart the file holds %v (err %v)", idx, live.Canon(), re.Canon(), err), nil)
		return
	}
	for g := 0; g < G; g++ {
		s := live.S[fmt.Sprintf("w%d", g)]
		if s == nil || len(s.Versions) != K-1 || s.Active != K {
			r.Violation("live-state-wrong", -1, fmt.Sprintf("concurrent writers %d: client %d's acknowledged writes are not all there: %+v", idx, g, s), nil)
			return
		}
	}
}
