// C19 — only stale, unreferenced, undeclared secrets expire from the store.
// Reference-model monitor on an injected whole-second clock: histories of
// lookups, reads, handle/watcher creation, polls, clock jumps and restarts
// from the written cache; presence is observed through every cache payload,
// the request log of the scripted service and (at the end of each process
// incarnation) Secret(name).
package c19

import (
	"context"
	"encoding/json"
	"errors"
	"fmt"
	"reflect"
	"sort"
	"strconv"
	"strings"
	"sync"
	"sync/atomic"
	"testing"
	"time"

	"github.com/tailscale/setec/client/setec"
	"github.com/tailscale/setec/types/api"

	"verif/harness/internal/evid"
	"verif/harness/internal/fakesvc"
)

type mstate struct {
	declared   bool
	lastAccess int64
	pinned     bool
	present    bool
	droppable  bool // the model allowed a drop at some poll of this incarnation
}

type idleTicker struct{ ch chan time.Time }

func (idleTicker) Stop()                    {}
func (i idleTicker) Chan() <-chan time.Time { return i.ch }
func (idleTicker) Done()                    {}

type entry struct {
	Secret     *api.SecretValue `json:"secret"`
	LastAccess string           `json:"lastAccess"`
}

var names = []string{"decl/a", "decl/b", "u/one", "u/two", "u/three", "u/four"}

// valueOf: the bytes of version v of name n. In every third history one undeclared secret is EMPTY in all its
// versions (a feature switched off, a cleared password): an empty value is a value, also in a cache.
func valueOf(idx int, n string, v uint32) []byte {
	if idx%3 == 0 && n == "u/three" {
		return []byte{}
	}
	return []byte(fmt.Sprintf("%s#%d", n, v))
}

func TestC19(t *testing.T) {
	r := evid.Start("C19", "exploration")
	defer r.Finish(t)
	r.Assume("the clock is injected (StoreConfig.TimeNow) and moves in whole seconds, as last-access stamps are Unix seconds",
		"presence is observed through cache payloads, the request log and, at the end of an incarnation, Secret(name); keeping a secret the rule would allow to drop is not a violation ('only if')")
	n := r.N(15000, 300000)
	for i := 0; i < n; i++ {
		if r.Skip(i) {
			continue
		}
		runCase(t, r, i)
	}
	r.Require("declarations_not_in_sorted_order", "polls_whose_cache_write_failed", "handles_taken_during_a_failing_updater_build", "incarnations_without_lookup", "drops_observed", "kept_declared", "kept_fresh", "kept_pinned", "kept_no_expiry_age", "restarts", "polls", "reads", "payloads_checked", "kept_exactly_at_age", "handle_grabbed_during_poll_of_stale_secret", "racing_lookups", "polls_with_not_found", "reads_through_struct_fields", "lookups_during_a_poll_cache_write")
	r.Rule("seeded histories over 2 declarable + 4 undeclared names: a first process started from a crafted cache (last-access stamps incl. 0, stale, fresh, far future), then events {restart from the last payload with a new declared set and expiry age in {0,-1s,1s,1h,30d}; clock jump in {0, age-1s, age, age+1s, 10*age}; read through a handle; obtain a handle without reading; new watcher; lookup; service change; poll}. Distinct = (event kind, expiry-age class, what the poll dropped/kept and why)")
}

func runCase(t *testing.T, r *evid.Run, idx int) {
	slowWriteDone := false
	rng := r.Rand(uint64(idx))
	r.Eval(1)
	var trace []string
	fail := func(key, msg string, extra map[string]any) {
		d := map[string]any{"events": trace}
		for k, v := range extra {
			d[k] = v
		}
		r.Violation(key, idx, fmt.Sprintf("case %d: %s", idx, msg), d)
	}
	now := int64(1_700_000_000)
	clock := func() time.Time { return time.Unix(now, 0) }
	svc := fakesvc.New()
	ver := map[string]uint32{}
	for _, n := range names {
		ver[n] = 1
		svc.Set(n, 1, valueOf(idx, n, 1))
	}
	ages := []time.Duration{0, -time.Second, time.Second, time.Hour, 30 * 24 * time.Hour}

	// the cache the first process starts from
	first := map[string]*entry{}
	for _, n := range names[2:] {
		if rng.IntN(2) == 0 {
			stamp := []int64{0, now - 100*24*3600, now - 3600, now - 1, now, now + 365*24*3600}[rng.IntN(6)]
			first[n] = &entry{Secret: &api.SecretValue{Value: valueOf(idx, n, 1), Version: 1}, LastAccess: strconv.FormatInt(stamp, 10)}
		}
	}
	doc, _ := json.Marshal(first)

	for inc := 0; inc < 1+rng.IntN(4); inc++ {
		age := ages[rng.IntN(len(ages))]
		var decl []string
		for _, n := range names[:2] {
			if rng.IntN(3) != 0 {
				decl = append(decl, n)
			}
		}
		if len(decl) == 0 {
			decl = []string{names[0]}
		}
		// sometimes a formerly looked-up name is declared now
		if rng.IntN(5) == 0 {
			decl = append(decl, names[2+rng.IntN(4)])
		}
		// (programs list their secrets in whatever order they were written down in)
		rng.Shuffle(len(decl), func(i, j int) { decl[i], decl[j] = decl[j], decl[i] })
		if len(decl) > 1 && decl[0] > decl[1] {
			r.Count("declarations_not_in_sorted_order", 1)
		}
		cache := &fakesvc.MonCache{Initial: doc}
		// the poller either gets an injected ticker that never fires, or the built-in one with an interval
		// far longer than this test (polls are explicit Refresh calls either way)
		// (a process that does not look anything up - a later release of the program, say - inherits the cache of
		// one that did: what it inherits stays until the rule allows a poll to drop it)
		allowLookup := rng.IntN(4) != 0
		if !allowLookup {
			r.Count("incarnations_without_lookup", 1)
		}
		cfg := setec.StoreConfig{Client: svc, Secrets: append([]string(nil), decl...), AllowLookup: allowLookup,
			Cache: cache, ExpiryAge: age, TimeNow: clock, Logf: func(string, ...any) {}}
		tickerKind := []string{"injected", "built-in default interval", "built-in 24h", "built-in 1h"}[rng.IntN(4)]
		switch tickerKind {
		case "injected":
			cfg.PollTicker = idleTicker{ch: make(chan time.Time)}
		case "built-in 24h":
			cfg.PollInterval = 24 * time.Hour
		case "built-in 1h":
			cfg.PollInterval = time.Hour
		}
		r.Distinct("ticker " + tickerKind)
		trace = append(trace, fmt.Sprintf("START incarnation %d: declared=%v age=%v lookups=%t now=%d ticker=%s cache=%s", inc, decl, age, allowLookup, now, tickerKind, doc))
		for _, n := range names { // whatever the service had forgotten is back before the next process starts
			if _, ok := svc.Active(n); !ok {
				ver[n]++
				svc.Set(n, ver[n], valueOf(idx, n, ver[n]))
			}
		}
		st, err := setec.NewStore(context.Background(), cfg)
		if err != nil {
			fail("newstore-fails", err.Error(), nil)
			return
		}
		r.Count("restarts", 1)
		// model of this incarnation
		m := map[string]*mstate{}
		var prev map[string]*entry
		json.Unmarshal(doc, &prev)
		for n, e := range prev {
			la, _ := strconv.ParseInt(e.LastAccess, 10, 64)
			m[n] = &mstate{present: true, lastAccess: la}
		}
		for _, d := range decl {
			if m[d] == nil {
				m[d] = &mstate{present: true, lastAccess: now}
			}
			m[d].declared = true
		}
		handles := map[string]setec.Secret{}
		gone := map[string]bool{} // names the service currently answers "not found" for
		seenWrites := cache.NumWrites()
		ageClass := "none"
		if age > 0 {
			ageClass = age.String()
		}
		// checkPayloads compares every cache payload written since the last call with the model.
		checkPayloads := func(event string, isPoll bool) bool {
			for ; seenWrites < cache.NumWrites(); seenWrites++ {
				var p map[string]*entry
				if err := json.Unmarshal(cache.Writes[seenWrites], &p); err != nil {
					fail("cache-not-a-document", err.Error(), nil)
					return false
				}
				r.Count("payloads_checked", 1)
				for n, s := range m {
					if !s.present {
						if _, ok := p[n]; ok && s.droppable {
							// dropped earlier, must not come back by itself
							fail("dropped-secret-reappeared", fmt.Sprintf("%q was dropped but is in a later cache payload (%s)", n, event), nil)
							return false
						}
						continue
					}
					e, ok := p[n]
					if !ok {
						switch {
						case !isPoll:
							fail("dropped-outside-a-poll", fmt.Sprintf("%q disappeared from the cache at %s, which is not a poll", n, event), map[string]any{"payload": string(cache.Writes[seenWrites])})
							return false
						case !s.droppable:
							why := "it was read within the expiry age"
							switch {
							case s.declared:
								why = "it is declared"
							case age <= 0:
								why = "no expiry age is configured"
							case s.pinned:
								why = "a handle or watcher for it was handed out"
							}
							fail("dropped-illegally", fmt.Sprintf("%q was dropped at %s although %s (last access %d, now %d, age %v)", n, event, why, s.lastAccess, now, age),
								map[string]any{"payload": string(cache.Writes[seenWrites])})
							return false
						}
						s.present = false
						r.Count("drops_observed", 1)
						r.Distinct("dropped age=" + ageClass)
						continue
					}
					if la, _ := strconv.ParseInt(e.LastAccess, 10, 64); la != s.lastAccess {
						fail("last-access-not-persisted", fmt.Sprintf("cache payload written at %s records last access %s for %q; it was last read at %d", event, e.LastAccess, n, s.lastAccess), nil)
						return false
					}
				}
			}
			return true
		}
		if !checkPayloads("start-up", false) {
			st.Close()
			return
		}
		nEv := 4 + rng.IntN(14)
		for e := 0; e < nEv; e++ {
			var present []string
			for n, s := range m {
				if s.present {
					present = append(present, n)
				}
			}
			sort.Strings(present)
			pick := present[rng.IntN(len(present))]
			ev := ""
			isPoll := false
			switch x := rng.IntN(20); {
			case x < 4: // clock jump
				base := age
				if base <= 0 {
					base = time.Hour
				}
				j := []time.Duration{0, base - time.Second, base, base + time.Second, 10 * base}[rng.IntN(5)]
				now += int64(j / time.Second)
				ev = fmt.Sprintf("clock +%v -> %d", j, now)
			case x < 7: // read via a (fresh or existing) handle
				if handles[pick] == nil {
					handles[pick] = st.Secret(pick)
				}
				if handles[pick] == nil {
					fail("present-secret-has-no-handle", fmt.Sprintf("Secret(%q) is nil although it has not been dropped", pick), nil)
					st.Close()
					return
				}
				handles[pick].Get()
				m[pick].pinned, m[pick].lastAccess = true, now
				r.Count("reads", 1)
				ev = "read " + pick
			case x < 8 && rng.IntN(3) == 0: // read by copying the value into a struct field (ParseFields + Apply)
				var dst struct {
					V string `setec:"v"`
				}
				// the tag names the last path element; the prefix is the rest
				pfx, base := "", pick
				if k := strings.LastIndex(pick, "/"); k >= 0 {
					pfx, base = pick[:k], pick[k+1:]
				}
				_ = base
				ok := false
				if f, err := parseOne(&dst, pfx, base); err == nil {
					if err := f.Apply(context.Background(), st); err == nil {
						ok = true
					}
				}
				if !ok {
					// names that cannot be expressed as prefix/tag are read through a handle instead
					if handles[pick] == nil {
						handles[pick] = st.Secret(pick)
					}
					handles[pick].Get()
				} else {
					r.Count("reads_through_struct_fields", 1)
				}
				m[pick].pinned, m[pick].lastAccess = true, now
				r.Count("reads", 1)
				ev = "read-into-field " + pick
			case x < 8: // handle without reading
				handles[pick] = st.Secret(pick)
				m[pick].pinned = true
				ev = "handle " + pick
			case x < 9 && rng.IntN(3) == 0: // an updater whose first build fails; while it was being built a plain handle was taken
				var h setec.Secret
				_, uerr := setec.NewUpdater(context.Background(), st, pick, func(b []byte) (string, error) {
					h = st.Secret(pick)
					return "", errors.New("this program cannot parse the value")
				})
				if uerr == nil || h == nil {
					fail("updater-fails", fmt.Sprintf("NewUpdater with a failing builder on %q: err=%v handle=%v", pick, uerr, h != nil), nil)
					st.Close()
					return
				}
				handles[pick] = h
				m[pick].pinned, m[pick].lastAccess = true, now
				r.Count("handles_taken_during_a_failing_updater_build", 1)
				ev = "failed-updater+handle " + pick
			case x < 9: // watcher
				if _, err := setec.NewUpdater(context.Background(), st, pick, func(b []byte) (string, error) { return string(b), nil }); err != nil {
					fail("updater-fails", err.Error(), nil)
					st.Close()
					return
				}
				m[pick].pinned, m[pick].lastAccess = true, now
				ev = "watcher " + pick
			case x < 11: // lookup of a name the store does not have
				var cand []string
				for _, n := range names[2:] {
					if s := m[n]; (s == nil || !s.present) && !gone[n] {
						cand = append(cand, n)
					}
				}
				if len(cand) == 0 || !allowLookup {
					continue
				}
				n := cand[rng.IntN(len(cand))]
				if rng.IntN(2) == 0 {
					// several callers look the same new name up at the same moment
					var lw sync.WaitGroup
					var gate atomic.Bool
					var lerr atomic.Value
					for g := 0; g < 6; g++ {
						lw.Add(1)
						go func() {
							defer lw.Done()
							for !gate.Load() {
							}
							if _, err := st.LookupSecret(context.Background(), n); err != nil {
								lerr.Store(err)
							}
						}()
					}
					gate.Store(true)
					lw.Wait()
					if e := lerr.Load(); e != nil {
						fail("lookup-fails", e.(error).Error(), nil)
						st.Close()
						return
					}
					r.Count("racing_lookups", 1)
					ev = "racing lookups " + n
				} else {
					if _, err := st.LookupSecret(context.Background(), n); err != nil {
						fail("lookup-fails", err.Error(), nil)
						st.Close()
						return
					}
					ev = "lookup " + n
				}
				m[n] = &mstate{present: true, pinned: true, lastAccess: now}
			case x < 12 && len(gone) == 0: // the service no longer knows a secret (for now)
				svc.Remove(pick)
				gone[pick] = true
				ev = "service-forgets " + pick
			case x == 12 && len(gone) == 0 && rng.IntN(2) == 0: // a poll with something to write while the cache cannot be written
				// (only when the rule allows no drop right now: what such a poll drops in memory would otherwise
				// first show in a payload written by some later event that is not a poll)
				safe := true
				for _, s := range m {
					if s.present && !s.declared && age > 0 && !s.pinned && (s.lastAccess == 0 || time.Duration(now-s.lastAccess)*time.Second > age) {
						safe = false
					}
				}
				if !safe {
					continue
				}
				ver[pick]++
				svc.Set(pick, ver[pick], valueOf(idx, pick, ver[pick]))
				cache.WriteErr = func(int) error { return errors.New("injected: no space left on device") }
				st.Refresh(context.Background()) // (reports the cache fault)
				cache.WriteErr = nil
				r.Count("polls_whose_cache_write_failed", 1)
				ev = "poll with a failing cache write, after service-change " + pick
			case x < 13: // service change (forces a cache write at the next poll)
				delete(gone, pick)
				ver[pick]++
				svc.Set(pick, ver[pick], valueOf(idx, pick, ver[pick]))
				ev = "service-change " + pick
			default: // poll
				isPoll = true
				for _, s := range m {
					if !s.present {
						continue
					}
					old := now - s.lastAccess
					can := !s.declared && age > 0 && !s.pinned && (s.lastAccess == 0 || time.Duration(old)*time.Second > age)
					if can {
						s.droppable = true
					} else {
						switch {
						case s.declared:
							r.Count("kept_declared", 1)
						case age <= 0:
							r.Count("kept_no_expiry_age", 1)
						case s.pinned:
							r.Count("kept_pinned", 1)
						default:
							r.Count("kept_fresh", 1)
							if time.Duration(old)*time.Second == age {
								r.Count("kept_exactly_at_age", 1)
							}
						}
						r.Distinct(fmt.Sprintf("kept declared=%t age=%s pinned=%t", s.declared, ageClass, s.pinned))
					}
				}
				before := svc.NumRequests()
				// Sometimes a handle is handed out while the poll is in flight (its first request is
				// parked): that secret now has a handle and must survive this very poll.
				var grabbed string
				if rng.IntN(3) == 0 && len(gone) == 0 {
					parked := make(chan struct{}, 1)
					release := make(chan struct{})
					firstReq := true
					svc.Behave = func(q *fakesvc.Req) fakesvc.Behaviour {
						if firstReq {
							firstReq = false
							parked <- struct{}{}
							return fakesvc.Behaviour{Hold: release}
						}
						return fakesvc.Behaviour{}
					}
					var cands []string
					for n, s := range m {
						if s.present {
							cands = append(cands, n)
						}
					}
					sort.Strings(cands)
					grabbed = cands[rng.IntN(len(cands))]
					errCh := make(chan error, 1)
					go func() { errCh <- st.Refresh(context.Background()) }()
					select {
					case <-parked:
						handles[grabbed] = st.Secret(grabbed)
						if handles[grabbed] == nil {
							fail("present-secret-has-no-handle", fmt.Sprintf("Secret(%q) is nil during a poll although it has not been dropped", grabbed), nil)
						}
						if s := m[grabbed]; s.droppable && !s.pinned {
							// the model had allowed the drop at the snapshot; the handle now forbids it
							s.droppable = false
							r.Count("handle_grabbed_during_poll_of_stale_secret", 1)
						}
						m[grabbed].pinned = true
						close(release)
					case err := <-errCh:
						// every secret was stale, so no request was made at all
						errCh <- err
						grabbed = ""
					}
					err := <-errCh
					svc.Behave = nil
					if err != nil {
						fail("poll-fails", err.Error(), nil)
						st.Close()
						return
					}
				} else if cn := unknownName(m, gone); cn != "" && allowLookup && len(gone) == 0 && idx%12 == 0 && !slowWriteDone {
					slowWriteDone = true // (one per history: each costs real milliseconds)
					// The poll has something to write (a present secret has a new version), its cache write is
					// slow, and meanwhile another goroutine looks a new name up. Whatever order the two writes
					// are made in, the cache ends up holding the newcomer (it has a handle).
					ver[pick]++
					svc.Set(pick, ver[pick], valueOf(idx, pick, ver[pick]))
					lookupDone := make(chan error, 1)
					var started atomic.Bool
					cache.SetOnWrite(func(int, []byte) {
						if !started.CompareAndSwap(false, true) {
							return // (the lookup's own write, or a later one)
						}
						res := make(chan error, 1)
						go func() { _, err := st.LookupSecret(context.Background(), cn); res <- err }()
						select {
						case err := <-res: // the lookup went through while this write was pending
							lookupDone <- err
						case <-time.After(15 * time.Millisecond): // it has to wait for this write: let it
							go func() { lookupDone <- <-res }()
						}
					})
					err := st.Refresh(context.Background())
					cache.SetOnWrite(nil)
					if err != nil {
						fail("poll-fails", err.Error(), nil)
						st.Close()
						return
					}
					select {
					case lerr := <-lookupDone:
						if lerr != nil {
							fail("lookup-fails", lerr.Error(), nil)
							st.Close()
							return
						}
						m[cn] = &mstate{present: true, pinned: true, lastAccess: now}
						r.Count("lookups_during_a_poll_cache_write", 1)
						// only the final payload is judged: the earlier one of the two predates the newcomer
						if nw := cache.NumWrites(); nw > seenWrites+1 {
							seenWrites = nw - 1
						}
					case <-time.After(5 * time.Second):
						// the poll had nothing to write after all (the hook never ran)
					}
				} else if err := st.Refresh(context.Background()); err != nil {
					expected := false
					for n := range gone {
						if s := m[n]; s != nil && s.present {
							expected = true // the service said "not found" for a secret the store holds: the poll reports it
						}
					}
					if !expected {
						fail("poll-fails", err.Error(), nil)
						st.Close()
						return
					}
					r.Count("polls_with_not_found", 1)
					// an unknown-to-the-service secret is an error, not a reason to forget it (unless the rule allows the drop anyway)
				}
				r.Count("polls", 1)
				ev = fmt.Sprintf("poll at %d", now)
				trace = append(trace, ev)
				if !checkPayloads(ev, true) {
					st.Close()
					return
				}
				// request log: present names that cannot be dropped must have been polled; dropped names never again
				asked := map[string]bool{}
				for _, q := range svc.Log()[before:] {
					asked[q.Name] = true
				}
				for n, s := range m {
					if s.present && !s.droppable && !asked[n] && n != grabbed && len(gone) == 0 { // a name pinned mid-poll is covered from the next poll on
						fail("kept-secret-not-polled", fmt.Sprintf("%q is in the store and may not expire, but the poll did not ask the service for it", n), nil)
						st.Close()
						return
					}
					if !s.present && asked[n] {
						fail("dropped-secret-still-polled", fmt.Sprintf("%q was dropped but is still polled", n), nil)
						st.Close()
						return
					}
				}
				continue
			}
			trace = append(trace, ev)
			if !checkPayloads(ev, isPoll) {
				st.Close()
				return
			}
		}
		// end of the incarnation: presence through the API (this pins, but the process ends here)
		for n, s := range m {
			h := func() (h setec.Secret) {
				defer func() { recover() }()
				return st.Secret(n)
			}()
			if s.present && !s.droppable && h == nil {
				fail("dropped-illegally", fmt.Sprintf("at shutdown Secret(%q) is nil although the rule never allowed dropping it", n), nil)
				st.Close()
				return
			}
			if !s.present && h != nil {
				fail("dropped-secret-reappeared", fmt.Sprintf("%q vanished from the cache but Secret() still returns a handle", n), nil)
				st.Close()
				return
			}
			if s.present && h == nil {
				s.present = false // dropped legally without a cache write being observed
			}
			if s.present && h != nil {
				// a handle obtained earlier must still work
				if hh := handles[n]; hh != nil {
					if p := func() (p any) { defer func() { p = recover() }(); hh.Get(); return nil }(); p != nil {
						fail("live-handle-broken", fmt.Sprintf("handle of %q panics: %v", n, p), nil)
						st.Close()
						return
					}
					s.lastAccess = now
				}
			}
		}
		st.Close() // the poller's shutdown flush persists the last-access stamps
		trace = append(trace, "CLOSE")
		if cache.NumWrites() == seenWrites {
			// nothing was written at shutdown: acceptable only if the last payload already says everything
			var last map[string]*entry
			if lb := cache.Last(); lb != nil {
				json.Unmarshal(lb, &last)
			} else {
				json.Unmarshal(doc, &last)
			}
			for n, s := range m {
				if !s.present {
					continue
				}
				e := last[n]
				if e == nil || e.LastAccess != strconv.FormatInt(s.lastAccess, 10) {
					fail("last-access-not-persisted", fmt.Sprintf("%q was last read at %d but after a clean shutdown the cache still records %+v", n, s.lastAccess, e), nil)
					return
				}
			}
		}
		if !checkPayloads("shutdown", false) {
			return
		}
		doc = cache.Last()
		if idx < 2 && inc == 0 {
			r.Sample(map[string]any{"case": idx, "events": append([]string(nil), trace...)})
		}
	}
}

// parseOne builds a Fields value for a one-field struct whose tag is base (the struct type is made at run time).
func parseOne(dst any, prefix, base string) (*setec.Fields, error) {
	st := reflect.StructOf([]reflect.StructField{{Name: "V", Type: reflect.TypeOf(""), Tag: reflect.StructTag(fmt.Sprintf(`setec:%q`, base))}})
	return setec.ParseFields(reflect.New(st).Interface(), prefix)
}

// unknownName returns an undeclared name the store does not hold (and the service knows), or "".
func unknownName(m map[string]*mstate, gone map[string]bool) string {
	for _, n := range names[2:] {
		if s := m[n]; (s == nil || !s.present) && !gone[n] {
			return n
		}
	}
	return ""
}
