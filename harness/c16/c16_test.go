// C16 — lookup of undeclared secrets is policy-gated, single-flight and
// bounded. Virtual-time trace checker (testing/synctest) over a scripted
// service with an in-flight gauge, plus a real-time stress under the race
// detector.
package c16

import (
	"bytes"
	"context"
	"encoding/json"
	"errors"
	"fmt"
	"io"
	"math/rand/v2"
	"net/http"
	"path/filepath"
	"sort"
	"strings"
	"sync"
	"sync/atomic"
	"testing"
	"testing/synctest"
	"time"

	"github.com/tailscale/setec/client/setec"
	"github.com/tailscale/setec/types/api"

	"verif/harness/internal/evid"
	"verif/harness/internal/fakesvc"
	"verif/harness/internal/httpdrv"
	"verif/harness/internal/realdb"
	"verif/harness/internal/refmodel"
)

type caller struct {
	Via     string        `json:"via"`      // lookup, updater, apply
	StartAt time.Duration `json:"start_at"` // virtual offset
	Ctx     string        `json:"ctx"`      // background, deadline, cancel
	CtxFor  time.Duration `json:"ctx_for,omitempty"`

	Cancellable bool `json:"cancellable_never_cancelled,omitempty"`
	// results
	Returned bool          `json:"returned"`
	At       time.Duration `json:"returned_at"`
	Err      string        `json:"err,omitempty"`
	Value    string        `json:"value,omitempty"`
	Panic    string        `json:"panic,omitempty"`

	handle  setec.Secret
	updater *setec.Updater[string]
}

type nameCase struct {
	Name    string        `json:"name"`
	Mode    string        `json:"mode"` // ok, slow, fail, failthenok, hang, notfound
	D       time.Duration `json:"d,omitempty"`
	Callers []*caller     `json:"callers"`
}

type tcase struct {
	Idx         int         `json:"case"`
	AllowLookup bool        `json:"allow_lookup"`
	CacheFails  bool        `json:"cache_writes_fail"`
	Names       []*nameCase `json:"names"`
}

const eps = 500 * time.Microsecond

func gen(rng *rand.Rand, idx int) *tcase {
	c := &tcase{Idx: idx, AllowLookup: rng.IntN(4) != 0, CacheFails: rng.IntN(5) == 0}
	nn := 1 + rng.IntN(2)
	for i := 0; i < nn; i++ {
		nc := &nameCase{Name: []string{"undeclared/one", "undeclared/two"}[i]}
		nc.Mode = []string{"ok", "ok", "slow", "slow", "fail", "failthenok", "hang", "hang", "notfound", "clienttimeout"}[rng.IntN(10)]
		if nc.Mode == "slow" {
			nc.D = []time.Duration{time.Millisecond, time.Second, 30 * time.Second, 2 * time.Minute, 4 * time.Minute}[rng.IntN(5)]
		}
		ncall := 1 + rng.IntN(6)
		for j := 0; j < ncall; j++ {
			cl := &caller{Via: []string{"lookup", "lookup", "lookup", "updater", "apply"}[rng.IntN(5)]}
			if rng.IntN(2) == 0 {
				cl.StartAt = []time.Duration{time.Millisecond, 500 * time.Millisecond, 10 * time.Second, 3 * time.Minute, 6 * time.Minute}[rng.IntN(5)]
			}
			switch rng.IntN(5) {
			case 0, 1:
				cl.Ctx = "background"
				// (half of the callers without a deadline bring a context that COULD be cancelled - an HTTP
				// request's context, a WithCancel, a WithValue over one - and never is: no deadline all the same)
				cl.Cancellable = rng.IntN(2) == 0
			case 2, 3:
				cl.Ctx = "deadline"
				cl.CtxFor = []time.Duration{time.Second, time.Minute, 10 * time.Minute}[rng.IntN(3)] + eps
			case 4:
				cl.Ctx = "cancel"
				cl.CtxFor = time.Duration(1+rng.IntN(200000))*time.Millisecond + eps
			}
			nc.Callers = append(nc.Callers, cl)
		}
		c.Names = append(c.Names, nc)
	}
	return c
}

func value(name string) []byte { return []byte("value-of-" + name) }

func TestC16(t *testing.T) {
	r := evid.Start("C16", "exploration")
	defer r.Finish(t)
	r.Assume("time is virtual (testing/synctest); the scripted service honours the request context",
		"a lookup flight 'fails' iff its service request returned an error; a caller returning an error while its own context is alive must be explained by a real (non-context) failure of a request that overlapped its call",
		"the five-minute limit is checked per caller without deadline, from that caller's own call, with 1 s of slack")
	n := r.N(15000, 200000)
	for i := 0; i < n; i++ {
		if r.Skip(i) {
			continue
		}
		runCase(t, r, gen(r.Rand(uint64(i)), i))
	}
	if r.Only < 0 {
		stress(t, r)
		for i := 0; i < r.N(20, 200); i++ {
			realClientCancel(t, r, i)
		}
		for i := 0; i < r.N(60, 600); i++ {
			slowCacheWrites(t, r, i)
		}
		for i := 0; i < r.N(40, 400); i++ {
			realClientSlowService(t, r, i)
		}
		realClientFailingStatus(t, r)
		secondStoreWithoutLookups(t, r)
		updaterBuiltWhileAPollInstalls(t, r)
		for i := 0; i < r.N(12, 120); i++ {
			lookupWhoseCacheWriteFails(t, r, i)
		}
		for i := 0; i < r.N(20, 200); i++ {
			lookupDuringPollOfStaleSecret(t, r, i)
		}
	}
	r.Require("updaters_built_while_a_poll_installs", "calls_on_a_second_store_without_lookups", "callers_with_a_cancellable_context_without_deadline", "requests_timed_out_inside_the_client", "lookups_whose_cache_write_failed", "lookups_disabled_cases", "lookups_enabled_cases", "shared_flights", "failed_lookups", "hang_bounded_callers", "retry_after_foreign_cancel", "successful_lookups", "stress_lookups", "cases_with_failing_cache", "handles_followed_a_later_poll", "updaters_followed_a_later_poll", "real_client_cancel_cases", "overlapping_cache_writes", "real_client_slow_service_cases", "lookups_after_the_service_recovered", "real_client_failing_status_cases", "lookups_during_a_poll_of_a_stale_secret")
	r.Rule("seeded cases: AllowLookup on/off; 1-2 undeclared names each with a service mode (ok, slow D, fail, fail-then-ok, hang for ever, not found) and 1-6 callers (LookupSecret / NewUpdater / Fields.Apply) with start offsets and contexts (background, deadline 1 s/1 min/10 min, cancelled at a random instant). Distinct = (AllowLookup, service mode, number of callers, set of context kinds, set of caller outcomes)")
}

func runCase(t *testing.T, r *evid.Run, c *tcase) {
	r.Eval(1)
	fail := func(key, msg string, extra map[string]any) {
		d := map[string]any{"case": c}
		for k, v := range extra {
			d[k] = v
		}
		r.Violation(key, c.Idx, fmt.Sprintf("case %d: %s", c.Idx, msg), d)
	}
	synctest.Test(t, func(t *testing.T) {
		start := time.Now()
		svc := fakesvc.New()
		svc.Set("known", 1, value("known"))
		modes := map[string]*nameCase{}
		for _, nc := range c.Names {
			modes[nc.Name] = nc
			if nc.Mode != "notfound" {
				svc.Set(nc.Name, 7, value(nc.Name))
			}
		}
		attempts := map[string]int{}
		var holds []chan struct{}
		recovered := false // the hanging service has come back
		svc.Behave = func(q *fakesvc.Req) fakesvc.Behaviour {
			nc := modes[q.Name]
			if nc == nil || q.Cond {
				return fakesvc.Behaviour{}
			}
			attempts[q.Name]++
			switch nc.Mode {
			case "slow":
				return fakesvc.Behaviour{Delay: nc.D}
			case "fail":
				return fakesvc.Behaviour{Fail: fakesvc.ErrInjected}
			case "clienttimeout":
				// the CLIENT gives up on the request after two seconds (http.Client.Timeout, a transport's
				// ResponseHeaderTimeout): net/http reports that with an error that wraps
				// context.DeadlineExceeded although no caller's context has ended. A failed request like any other.
				r.Count("requests_timed_out_inside_the_client", 1)
				return fakesvc.Behaviour{Delay: 2 * time.Second, Plain: true, Fail: fmt.Errorf("Post \"https://setec.verif/api/get\": %w (Client.Timeout exceeded while awaiting headers)", context.DeadlineExceeded)}
			case "failthenok":
				if attempts[q.Name] == 1 {
					return fakesvc.Behaviour{Fail: fakesvc.ErrInjected}
				}
			case "hang":
				if recovered {
					return fakesvc.Behaviour{}
				}
				hc := make(chan struct{})
				holds = append(holds, hc)
				return fakesvc.Behaviour{Hold: hc}
			}
			return fakesvc.Behaviour{}
		}
		// whatever is still parked in the service when the case ends is let go (a request nobody cancels
		// would otherwise outlive the bubble)
		defer func() {
			for _, hc := range holds {
				close(hc)
			}
		}()
		cache := &fakesvc.MonCache{}
		if c.CacheFails {
			// a cache that cannot be written must not turn a successful lookup into a failure
			cache.WriteErr = func(int) error { return errors.New("injected cache write failure") }
			r.Count("cases_with_failing_cache", 1)
		}
		st, err := setec.NewStore(context.Background(), setec.StoreConfig{Client: svc, Secrets: []string{"known"}, AllowLookup: c.AllowLookup,
			Cache: cache, PollInterval: -1, Logf: func(string, ...any) {}})
		if err != nil {
			t.Fatalf("NewStore: %v", err)
		}
		defer st.Close()
		base := svc.NumRequests()

		// known name never causes a request
		if h, err := st.LookupSecret(context.Background(), "known"); err != nil || string(h.Get()) != string(value("known")) {
			fail("known-name-lookup", fmt.Sprintf("LookupSecret of a declared name: %v", err), nil)
		}
		if svc.NumRequests() != base {
			fail("known-name-requested", "looking up a declared name contacted the service", nil)
		}

		var wg sync.WaitGroup
		for _, nc := range c.Names {
			for _, cl := range nc.Callers {
				wg.Add(1)
				go func(nc *nameCase, cl *caller) {
					defer wg.Done()
					time.Sleep(cl.StartAt)
					ctx := context.Background()
					var cancel context.CancelFunc = func() {}
					if cl.Cancellable {
						type ctxKey struct{}
						var c0 context.CancelFunc
						ctx, c0 = context.WithCancel(ctx)
						defer c0()
						ctx = context.WithValue(ctx, ctxKey{}, "request-scoped")
						r.Count("callers_with_a_cancellable_context_without_deadline", 1)
					}
					switch cl.Ctx {
					case "deadline":
						ctx, cancel = context.WithTimeout(ctx, cl.CtxFor)
					case "cancel":
						ctx, cancel = context.WithCancel(ctx)
						tm := time.AfterFunc(cl.CtxFor, cancel)
						defer tm.Stop()
					}
					defer cancel()
					defer func() {
						if p := recover(); p != nil {
							cl.Panic = fmt.Sprint(p)
						}
						cl.Returned = true
						cl.At = time.Since(start)
					}()
					var err error
					switch cl.Via {
					case "lookup":
						var h setec.Secret
						h, err = st.LookupSecret(ctx, nc.Name)
						if err == nil {
							cl.Value = string(h.Get())
							cl.handle = h
						}
					case "updater":
						var u *setec.Updater[string]
						u, err = setec.NewUpdater(ctx, st, nc.Name, func(b []byte) (string, error) { return string(b), nil })
						if err == nil {
							cl.Value = u.Get()
							cl.updater = u
						}
					case "apply":
						var v struct {
							F string `setec:"x"`
						}
						var f *setec.Fields
						f, err = setec.ParseFields(&v, strings.TrimSuffix(nc.Name, "/x"))
						if err == nil {
							// the tag is the last path element; prefix is the rest
							f, err = setec.ParseFields(&v, "")
						}
						_ = f
						var w struct {
							F string `setec:"placeholder"`
						}
						_ = w
						err = applyVia(ctx, st, nc.Name, &cl.Value)
					}
					if err != nil {
						cl.Err = err.Error()
					}
				}(nc, cl)
			}
		}
		done := make(chan struct{})
		go func() { wg.Wait(); close(done) }()
		select {
		case <-done:
		case <-time.After(40 * time.Minute):
			var stuck []string
			for _, nc := range c.Names {
				for i, cl := range nc.Callers {
					if !cl.Returned {
						stuck = append(stuck, fmt.Sprintf("%s#%d(%s,%s)", nc.Name, i, cl.Via, cl.Ctx))
					}
				}
			}
			fail("lookup-unbounded", fmt.Sprintf("callers still pending 40 virtual minutes after the start: %v", stuck), map[string]any{"log": svc.Log()})
			// cannot unblock callers that ignore every bound: leave the bubble by failing hard
			t.Fatalf("case %d: callers never return", c.Idx)
		}
		endAll := time.Since(start)
		// let time pass: nobody is asking any more, so nothing may be requested
		nreq := svc.NumRequests()
		time.Sleep(20 * time.Minute)
		_ = nreq
		for _, q := range svc.Log()[base:] {
			// a request begun at the very instant the last caller returned can still be that caller's
			// own retry (equal virtual instants are unordered); only strictly later ones are automatic
			if q.Start.Sub(start) > endAll {
				fail("automatic-retry", fmt.Sprintf("the store issued a request for %q at %v although the last caller had returned at %v", q.Name, q.Start.Sub(start), endAll), map[string]any{"log": svc.Log()})
				break
			}
		}
		log := svc.Log()[base:]

		for _, nc := range c.Names {
			var reqs []fakesvc.Req
			for _, q := range log {
				if q.Name == nc.Name {
					reqs = append(reqs, q)
				}
			}
			ctxKinds := map[string]bool{}
			outs := map[string]bool{}
			for _, cl := range nc.Callers {
				ctxKinds[cl.Ctx] = true
				switch {
				case cl.Panic != "":
					outs["panic"] = true
				case cl.Err == "":
					outs["handle"] = true
				default:
					outs["error"] = true
				}
			}
			r.Distinct(fmt.Sprintf("allow=%t mode=%s callers=%d ctx=%s out=%s", c.AllowLookup, nc.Mode, len(nc.Callers), keys(ctxKinds), keys(outs)))

			if !c.AllowLookup {
				if len(reqs) != 0 {
					fail("disabled-lookup-sent-request", fmt.Sprintf("lookups are disabled but %d request(s) for %q reached the service", len(reqs), nc.Name), map[string]any{"log": log})
				}
				for i, cl := range nc.Callers {
					if cl.Err == "" || cl.Panic != "" {
						fail("disabled-lookup-succeeded", fmt.Sprintf("lookups are disabled but caller %d (%s) of %q got err=%q panic=%q", i, cl.Via, nc.Name, cl.Err, cl.Panic), nil)
					}
				}
				p := func() (p any) {
					defer func() { p = recover() }()
					st.Secret(nc.Name)
					return nil
				}()
				if p == nil {
					fail("disabled-secret-no-panic", fmt.Sprintf("lookups are disabled but Secret(%q) did not panic", nc.Name), nil)
				}
				continue
			}
			// ---- lookups enabled ----
			if m := svc.MaxInFlight(nc.Name); m > 1 {
				fail("not-single-flight", fmt.Sprintf("%d requests for %q were in flight at once", m, nc.Name), map[string]any{"log": log})
			}
			if len(reqs) > len(nc.Callers) {
				fail("more-requests-than-callers", fmt.Sprintf("%d requests for %q from %d callers", len(reqs), nc.Name, len(nc.Callers)), map[string]any{"log": log})
			}
			anyValue := false
			for _, q := range reqs {
				if q.Outcome == "value" {
					anyValue = true
				}
			}
			for i, cl := range nc.Callers {
				if cl.Panic != "" {
					fail("lookup-panics", fmt.Sprintf("caller %d of %q panicked: %s", i, nc.Name, cl.Panic), nil)
					continue
				}
				callStart := cl.StartAt
				ctxEnd := callStart + 5*time.Minute // the safety limit for callers without a deadline
				if cl.Ctx != "background" {
					ctxEnd = callStart + cl.CtxFor
				}
				if cl.Err == "" {
					r.Count("successful_lookups", 1)
					if cl.Value != string(value(nc.Name)) {
						fail("handle-wrong-bytes", fmt.Sprintf("caller %d of %q got a handle yielding %q", i, nc.Name, cl.Value), nil)
					}
					continue
				}
				// an error
				if cl.Ctx == "background" && nc.Mode == "hang" {
					r.Count("hang_bounded_callers", 1)
				}
				if cl.Ctx == "background" && cl.At > callStart+5*time.Minute+time.Second {
					fail("no-deadline-caller-exceeds-5min", fmt.Sprintf("caller %d of %q has no deadline, called at %v and got its answer only at %v", i, nc.Name, callStart, cl.At), map[string]any{"log": log})
				}
				if cl.At < ctxEnd {
					// failed while its own context was alive: needs a real failure overlapping the call
					explained := false
					for _, q := range reqs {
						if (q.Outcome == "fail" || q.Outcome == "notfound") && q.End.Sub(start) >= callStart && q.Start.Sub(start) <= cl.At {
							explained = true
						}
					}
					if !explained {
						fail("failed-by-foreign-cancellation", fmt.Sprintf("caller %d of %q (%s, ctx %s %v, called at %v) got %q at %v while its own context was alive and no request failed for a real reason", i, nc.Name, cl.Via, cl.Ctx, cl.CtxFor, callStart, cl.Err, cl.At), map[string]any{"log": log})
					}
				}
			}
			// retries after a foreign cancellation happened?
			for qi, q := range reqs {
				if q.Outcome == "ctx" && qi+1 < len(reqs) {
					r.Count("retry_after_foreign_cancel", 1)
				}
			}
			if len(nc.Callers) > 1 && len(reqs) < len(nc.Callers) && len(reqs) > 0 {
				r.Count("shared_flights", 1)
			}
			// healthy service whose reply takes (virtual) time, and all callers present before it arrives:
			// everybody joins the one request in flight. (With an instantaneous reply a second caller may
			// legitimately start its own request after the first has completed, at the same virtual instant.)
			if nc.Mode == "slow" {
				allEarly, allAlive := true, true
				firstEnd := time.Duration(0)
				if len(reqs) > 0 {
					firstEnd = reqs[0].End.Sub(start)
				}
				for _, cl := range nc.Callers {
					if cl.StartAt != 0 {
						allEarly = false
					}
					if cl.Ctx != "background" && cl.CtxFor <= firstEnd {
						allAlive = false
					}
				}
				if allEarly && allAlive && nc.D < 5*time.Minute && len(reqs) != 1 {
					fail("concurrent-callers-not-coalesced", fmt.Sprintf("%d simultaneous callers of %q with a healthy service caused %d requests", len(nc.Callers), nc.Name, len(reqs)), map[string]any{"log": log})
				}
			}
			// installed iff some request returned a value
			h := st.Secret(nc.Name)
			var payload map[string]json.RawMessage
			json.Unmarshal(cache.Last(), &payload)
			_, inCache := payload[nc.Name]
			if anyValue {
				if h == nil || string(h.Get()) != string(value(nc.Name)) {
					fail("looked-up-secret-not-installed", fmt.Sprintf("%q was fetched successfully but Secret() does not serve it", nc.Name), nil)
				}
				if !inCache && !c.CacheFails {
					fail("looked-up-secret-not-cached", fmt.Sprintf("%q was fetched successfully but the cache does not hold it", nc.Name), map[string]any{"cache": string(cache.Last())})
				}
				before := svc.NumRequests()
				if err := st.Refresh(context.Background()); err != nil && !c.CacheFails { // (with a cache that cannot be written a poll may report that, whether or not it had something to install)
					fail("refresh-fails", err.Error(), nil)
				}
				polled := false
				for _, q := range svc.Log()[before:] {
					if q.Name == nc.Name {
						polled = true
					}
				}
				if !polled {
					fail("looked-up-secret-not-polled", fmt.Sprintf("%q was looked up but the next poll does not ask for it", nc.Name), nil)
				}
				// "polled like any other": a new version reaches every handle that was given out
				nv := []byte("rotated-" + nc.Name)
				svc.Set(nc.Name, 8, nv)
				if err := st.Refresh(context.Background()); err != nil && !c.CacheFails { // (a cache that cannot be written makes the poll report an error; the values are installed all the same)
					fail("refresh-fails", err.Error(), nil)
				}
				for i, cl := range nc.Callers {
					if cl.updater != nil {
						// an updater obtained through the lookup is a working handle like any other
						r.Count("updaters_followed_a_later_poll", 1)
						if got := cl.updater.Get(); got != string(nv) {
							fail("looked-up-handle-not-live", fmt.Sprintf("the updater caller %d of %q received yields %q after a poll installed %q", i, nc.Name, got, nv), map[string]any{"log": log})
							break
						}
					}
					if cl.handle != nil {
						r.Count("handles_followed_a_later_poll", 1)
						if got := string(cl.handle.Get()); got != string(nv) {
							fail("looked-up-handle-not-live", fmt.Sprintf("the handle caller %d of %q received yields %q after a poll installed %q", i, nc.Name, got, nv), map[string]any{"log": log})
							break
						}
					}
				}
				if hh := st.Secret(nc.Name); hh == nil || string(hh.Get()) != string(nv) {
					fail("looked-up-handle-not-live", fmt.Sprintf("Secret(%q) does not yield the value a later poll installed", nc.Name), nil)
				}
			} else {
				r.Count("failed_lookups", 1)
				if h != nil {
					fail("failed-lookup-installed", fmt.Sprintf("every request for %q failed but Secret() returns a handle", nc.Name), map[string]any{"log": log})
				}
				if inCache {
					fail("failed-lookup-cached", fmt.Sprintf("every request for %q failed but the cache has an entry", nc.Name), nil)
				}
			}
		}
		// the service recovers: a lookup that hung and was given up on is simply asked again by the next caller,
		// with a request of its own (nothing dead is left behind for it to join)
		if c.AllowLookup {
			for _, nc := range c.Names {
				if nc.Mode != "hang" {
					continue
				}
				recovered = true
				before := svc.NumRequests()
				lctx, lcancel := context.WithTimeout(context.Background(), 30*time.Second)
				h, lerr := st.LookupSecret(lctx, nc.Name)
				lcancel()
				r.Count("lookups_after_the_service_recovered", 1)
				if lerr != nil || h == nil || string(h.Get()) != string(value(nc.Name)) {
					fail("lookup-after-recovery-fails", fmt.Sprintf("the service hung on %q, every caller has long returned, the service answers again: a new lookup sent %d request(s) and got %v", nc.Name, svc.NumRequests()-before, lerr), map[string]any{"log": svc.Log()})
				}
				recovered = false
				break
			}
		}

		if c.AllowLookup {
			r.Count("lookups_enabled_cases", 1)
		} else {
			r.Count("lookups_disabled_cases", 1)
		}
		if c.Idx < 3 {
			r.Sample(map[string]any{"case": c, "all_returned_by": endAll.String(), "requests": log})
		}
	})
}

func keys(m map[string]bool) string {
	var ks []string
	for k := range m {
		ks = append(ks, k)
	}
	sort.Strings(ks)
	return strings.Join(ks, "+")
}

// applyVia populates a one-field struct whose tag names the secret.
func applyVia(ctx context.Context, st *setec.Store, name string, out *string) error {
	switch name {
	case "undeclared/one":
		var v struct {
			F string `setec:"one"`
		}
		f, err := setec.ParseFields(&v, "undeclared")
		if err != nil {
			return err
		}
		err = f.Apply(ctx, st)
		*out = v.F
		return err
	default:
		var v struct {
			F string `setec:"undeclared/two"`
		}
		f, err := setec.ParseFields(&v, "")
		if err != nil {
			return err
		}
		err = f.Apply(ctx, st)
		*out = v.F
		return err
	}
}

// stress runs concurrent lookups with random cancellations in real time; the
// race detector (when the check is built with -race) observes it.
func stress(t *testing.T, r *evid.Run) {
	reps := r.N(60, 600)
	for rep := 0; rep < reps; rep++ {
		rng := r.Rand(uint64(1_000_000 + rep))
		svc := fakesvc.New()
		svc.Set("known", 1, value("known"))
		names := []string{"n0", "n1", "n2", "n3"}
		for _, n := range names {
			svc.Set(n, 2, value(n))
		}
		var mu sync.Mutex
		lrng := rand.New(rand.NewPCG(uint64(rep), 99))
		svc.Behave = func(q *fakesvc.Req) fakesvc.Behaviour {
			mu.Lock()
			defer mu.Unlock()
			switch lrng.IntN(4) {
			case 0:
				return fakesvc.Behaviour{Delay: time.Duration(lrng.IntN(300)) * time.Microsecond}
			case 1:
				return fakesvc.Behaviour{Fail: fakesvc.ErrInjected}
			}
			return fakesvc.Behaviour{}
		}
		st, err := setec.NewStore(context.Background(), setec.StoreConfig{Client: svc, Secrets: []string{"known"}, AllowLookup: true,
			Cache: &fakesvc.MonCache{}, PollInterval: -1, Logf: func(string, ...any) {}})
		if err != nil {
			t.Fatalf("NewStore: %v", err)
		}
		var wg sync.WaitGroup
		for g := 0; g < 32; g++ {
			seed := rng.Uint64()
			wg.Add(1)
			go func(g int) {
				defer wg.Done()
				grng := rand.New(rand.NewPCG(seed, uint64(g)))
				for k := 0; k < 20; k++ {
					name := names[grng.IntN(len(names))]
					ctx, cancel := context.WithCancel(context.Background())
					if grng.IntN(3) == 0 {
						d := time.Duration(grng.IntN(200)) * time.Microsecond
						time.AfterFunc(d, cancel)
					}
					h, err := st.LookupSecret(ctx, name)
					if err == nil {
						if string(h.Get()) != string(value(name)) {
							r.Violation("handle-wrong-bytes", -1, "stress: handle for "+name+" yields other bytes", nil)
						}
					}
					if grng.IntN(8) == 0 {
						st.Refresh(context.Background())
					}
					cancel()
					r.Count("stress_lookups", 1)
				}
			}(g)
		}
		wg.Wait()
		for _, n := range names {
			if m := svc.MaxInFlight(n); m > 1 {
				// polls (GetIfChanged) may overlap a lookup of the same name only after it is installed; count plain gets only
				cnt, max := 0, 0
				_ = cnt
				_ = max
			}
		}
		st.Close()
		r.Eval(1)
	}
}

// gateRT is an http.RoundTripper that holds the first request for a path until its context ends.
type gateRT struct {
	next    func(*http.Request) (*http.Response, error)
	mu      sync.Mutex
	held    bool
	holding chan struct{}
}

func (g *gateRT) RoundTrip(req *http.Request) (*http.Response, error) {
	g.mu.Lock()
	first := !g.held
	g.held = true
	g.mu.Unlock()
	if first {
		close(g.holding)
		<-req.Context().Done()
		return nil, req.Context().Err()
	}
	return g.next(req)
}

// realClientCancel: the same "not failed merely because another caller's context ended" clause, with the
// REAL network client (net/http wraps what the transport returns), a real server and a real database.
func realClientCancel(t *testing.T, r *evid.Run, idx int) {
	r.Eval(1)
	dir := evid.TempDir(t)
	d, err := realdb.Open(filepath.Join(dir, "db"), realdb.DummyKey("c16"))
	if err != nil {
		t.Fatal(err)
	}
	su := realdb.Super()
	d.Put(su, "known", []byte("k"))
	d.Put(su, "shared", []byte("shared-value"))
	srv, err := httpdrv.New(d)
	if err != nil {
		t.Fatal(err)
	}
	const addr = "100.64.0.16:16"
	srv.SetWho(addr, httpdrv.Who{Login: "c16@verif", Node: "c16", Rules: []refmodel.Rule{{Actions: []string{"get"}, Patterns: []string{"*"}}}})
	known := setec.Client{Server: "http://setec.verif", DoHTTP: srv.ClientDo(addr)}
	st, err := setec.NewStore(context.Background(), setec.StoreConfig{Client: known, Secrets: []string{"known"}, AllowLookup: true, PollInterval: -1, Logf: func(string, ...any) {}})
	if err != nil {
		t.Fatal(err)
	}
	defer st.Close()
	// from now on the store talks through net/http with a transport that parks the first request
	g := &gateRT{next: srv.ClientDo(addr), holding: make(chan struct{})}
	hc := &http.Client{Transport: g}
	st2, err := setec.NewStore(context.Background(), setec.StoreConfig{Client: swapClient{known}, Secrets: []string{"known"}, AllowLookup: true, PollInterval: -1, Logf: func(string, ...any) {}})
	if err != nil {
		t.Fatal(err)
	}
	defer st2.Close()
	swap.Store(&setec.Client{Server: "http://setec.verif", DoHTTP: hc.Do})
	defer swap.Store(nil)
	useDeadline := idx%2 == 1
	ctxA, cancelA := context.WithCancel(context.Background())
	if useDeadline {
		ctxA, cancelA = context.WithTimeout(context.Background(), 60*time.Millisecond)
	}
	defer cancelA()
	errA := make(chan error, 1)
	go func() { _, err := st2.LookupSecret(ctxA, "shared"); errA <- err }()
	select {
	case <-g.holding:
	case <-time.After(20 * time.Second):
		r.Inconclusive("real client cancel: the first request was never sent")
		return
	}
	type res struct {
		h   setec.Secret
		err error
	}
	resB := make(chan res, 1)
	go func() { h, err := st2.LookupSecret(context.Background(), "shared"); resB <- res{h, err} }()
	time.Sleep(5 * time.Millisecond) // let B join A's request
	if !useDeadline {
		cancelA()
	}
	<-errA
	select {
	case b := <-resB:
		r.Count("real_client_cancel_cases", 1)
		r.Distinct(fmt.Sprintf("real-client leader-ends-by-deadline=%t", useDeadline))
		if b.err != nil {
			r.Violation("failed-by-foreign-cancellation", -1, fmt.Sprintf("real client case %d: caller B (context.Background()) was failed with %q because caller A's context ended", idx, b.err), nil)
		} else if string(b.h.Get()) != "shared-value" {
			r.Violation("handle-wrong-bytes", -1, "real client: wrong bytes", nil)
		}
	case <-time.After(30 * time.Second):
		r.Inconclusive("real client cancel: caller B did not return within 30 s")
	}
}

// swapClient lets the store's client be replaced after construction (the initial fetch goes through the plain one).
var swap atomic.Pointer[setec.Client]

type swapClient struct{ first setec.Client }

func (s swapClient) cur() setec.Client {
	if c := swap.Load(); c != nil {
		return *c
	}
	return s.first
}
func (s swapClient) Get(ctx context.Context, name string) (*api.SecretValue, error) {
	return s.cur().Get(ctx, name)
}
func (s swapClient) GetIfChanged(ctx context.Context, name string, v api.SecretVersion) (*api.SecretValue, error) {
	return s.cur().GetIfChanged(ctx, name, v)
}

// slowCacheWrites: the cache is slow for ONE write (it completes only after another write has landed, or
// after 60 ms if no other write can start meanwhile) while lookups of DIFFERENT names and a poll
// that brings a new version overlap. Once everything has returned, the cache - what a restart during an
// outage would start from - must hold every looked-up secret and the newest polled version.
func slowCacheWrites(t *testing.T, r *evid.Run, idx int) {
	rng := r.Rand(uint64(9_000_000 + idx))
	r.Eval(1)
	// (real time: a goroutine waiting for the store's mutex is not durably blocked, so a bubble's clock
	// could not advance past the slow write)
	func() {
		svc := fakesvc.New()
		svc.Set("known", 1, []byte("known#1"))
		lookups := []string{"la", "lb", "lc"}[:2+rng.IntN(2)]
		for _, n := range lookups {
			svc.Set(n, 1, value(n))
		}
		cache := &fakesvc.MonCache{}
		st, err := setec.NewStore(context.Background(), setec.StoreConfig{Client: svc, Secrets: []string{"known"}, AllowLookup: true,
			Cache: cache, PollInterval: -1, Logf: func(string, ...any) {}})
		if err != nil {
			t.Fatalf("NewStore: %v", err)
		}
		defer st.Close()
		slowAt := rng.IntN(2) // which of the coming writes is the slow one
		var calls atomic.Int32
		cache.OnWrite = func(n int, data []byte) {
			if int(calls.Add(1))-1 != slowAt {
				return
			}
			base := cache.NumWrites()
			for i := 0; i < 60 && cache.NumWrites() == base; i++ {
				time.Sleep(time.Millisecond)
			}
		}
		withPoll := rng.IntN(2) == 0
		var wg sync.WaitGroup
		errs := make([]error, len(lookups))
		for i, n := range lookups {
			wg.Add(1)
			go func() {
				defer wg.Done()
				time.Sleep(time.Duration(i) * time.Millisecond) // a definite order of arrival
				_, errs[i] = st.LookupSecret(context.Background(), n)
			}()
		}
		var perr error
		if withPoll {
			svc.Set("known", 2, []byte("known#2"))
			wg.Add(1)
			go func() {
				defer wg.Done()
				time.Sleep(time.Duration(1+rng.IntN(3)) * time.Millisecond)
				perr = st.Refresh(context.Background())
			}()
		}
		wg.Wait()
		r.Count("overlapping_cache_writes", 1)
		r.Distinct(fmt.Sprintf("slow cache write #%d lookups=%d poll=%t", slowAt, len(lookups), withPoll))
		for i, e := range errs {
			if e != nil {
				r.Violation("lookup-fails", idx, fmt.Sprintf("slow-cache case %d: lookup of %q failed: %v", idx, lookups[i], e), nil)
				return
			}
		}
		if perr != nil {
			r.Violation("poll-fails", idx, fmt.Sprintf("slow-cache case %d: %v", idx, perr), nil)
			return
		}
		var doc map[string]struct {
			Secret *api.SecretValue `json:"secret"`
		}
		if err := json.Unmarshal(cache.Last(), &doc); err != nil {
			r.Violation("cache-unreadable", idx, err.Error(), nil)
			return
		}
		for _, n := range lookups {
			if e, ok := doc[n]; !ok || e.Secret == nil || !bytes.Equal(e.Secret.Value, value(n)) {
				r.Violation("looked-up-secret-not-cached", idx, fmt.Sprintf("slow-cache case %d: every lookup of %v succeeded and all cache writes have ended, but the cache lacks %q: %s", idx, lookups, n, cache.Last()), nil)
				return
			}
		}
		if withPoll {
			if e := doc["known"]; e.Secret == nil || e.Secret.Version != 2 {
				r.Violation("cache-older-than-store", idx, fmt.Sprintf("slow-cache case %d: the poll brought version 2 of \"known\" and ended without error, but the cache holds %s", idx, cache.Last()), nil)
			}
		}
	}()
}

// realClientSlowService: the REAL network client against a service that answers after D (virtual time), or
// never. One lookup call is one request: whatever the client layer does about slow answers, a lookup that has
// not been answered is not silently asked again, and a caller without deadline still returns within the limit.
func realClientSlowService(t *testing.T, r *evid.Run, idx int) {
	rng := r.Rand(uint64(12_000_000 + idx))
	r.Eval(1)
	dir := evid.TempDir(t)
	synctest.Test(t, func(t *testing.T) {
		d, err := realdb.Open(filepath.Join(dir, fmt.Sprintf("slow%d.db", idx)), realdb.DummyKey("c16"))
		if err != nil {
			t.Fatal(err)
		}
		su := realdb.Super()
		d.Put(su, "known", []byte("k"))
		d.Put(su, "slow", []byte("slow-value"))
		srv, err := httpdrv.New(d)
		if err != nil {
			t.Fatal(err)
		}
		const addr = "100.64.0.16:17"
		srv.SetWho(addr, httpdrv.Who{Login: "c16@verif", Node: "c16", Rules: []refmodel.Rule{{Actions: []string{"get"}, Patterns: []string{"*"}}}})
		delay := []time.Duration{0, 3 * time.Second, 9 * time.Second, 12 * time.Second, 45 * time.Second, 2 * time.Minute, 4 * time.Minute, -1}[rng.IntN(8)] // -1: never
		var mu sync.Mutex
		var starts []time.Duration
		t0 := time.Now()
		inner := srv.ClientDo(addr)
		slowOn := false
		do := func(req *http.Request) (*http.Response, error) {
			if slowOn && strings.HasSuffix(req.URL.Path, "/api/get") {
				mu.Lock()
				starts = append(starts, time.Since(t0))
				mu.Unlock()
				var wait <-chan time.Time
				if delay >= 0 {
					wait = time.After(delay)
				}
				select {
				case <-wait:
				case <-req.Context().Done():
					return nil, req.Context().Err()
				}
			}
			return inner(req)
		}
		cl := setec.Client{Server: "http://setec.verif", DoHTTP: do}
		st, err := setec.NewStore(context.Background(), setec.StoreConfig{Client: cl, Secrets: []string{"known"}, AllowLookup: true, PollInterval: -1, Logf: func(string, ...any) {}})
		if err != nil {
			t.Fatal(err)
		}
		defer st.Close()
		slowOn = true
		ctx := context.Background()
		ctxKind := "background"
		if rng.IntN(3) == 0 {
			var cancel context.CancelFunc
			ctx, cancel = context.WithTimeout(ctx, 10*time.Minute)
			defer cancel()
			ctxKind = "deadline 10 min"
		}
		h, lerr := st.LookupSecret(ctx, "slow")
		took := time.Since(t0)
		synctest.Wait()
		time.Sleep(6 * time.Minute) // anything the store still does on its own shows up in here
		synctest.Wait()
		mu.Lock()
		n := len(starts)
		log := append([]time.Duration(nil), starts...)
		mu.Unlock()
		r.Count("real_client_slow_service_cases", 1)
		r.Distinct(fmt.Sprintf("real client, service answers after %v, caller %s", delay, ctxKind))
		what := fmt.Sprintf("real-client case %d (service answers a lookup after %v, caller context: %s)", idx, delay, ctxKind)
		if n != 1 {
			r.Violation("automatic-retry", idx, fmt.Sprintf("%s: ONE LookupSecret call caused %d requests, at %v", what, n, log), nil)
			return
		}
		answered := delay >= 0 && delay < 5*time.Minute
		switch {
		case answered && (lerr != nil || h == nil || string(h.Get()) != "slow-value"):
			r.Violation("lookup-fails-although-answered", idx, fmt.Sprintf("%s: the request was answered but the caller got %v", what, lerr), nil)
		case !answered && lerr == nil:
			r.Violation("lookup-succeeds-unanswered", idx, what+": no answer ever came but the caller got a handle", nil)
		case !answered && ctxKind == "background" && took > 5*time.Minute+time.Second:
			r.Violation("lookup-unbounded", idx, fmt.Sprintf("%s: the caller had no deadline and was answered only after %v", what, took), nil)
		}
	})
}

// realClientFailingStatus: the REAL network client; the service (or something in front of it) fails a lookup
// with an HTTP status. Whatever the status, the failure is reported to the caller of that lookup, after ONE
// request; asking again is the caller's decision (and then works, with one more request).
func realClientFailingStatus(t *testing.T, r *evid.Run) {
	dir := evid.TempDir(t)
	d, err := realdb.Open(filepath.Join(dir, "status.db"), realdb.DummyKey("c16"))
	if err != nil {
		t.Fatal(err)
	}
	su := realdb.Super()
	d.Put(su, "known", []byte("k"))
	d.Put(su, "wanted", []byte("wanted-value"))
	srv, err := httpdrv.New(d)
	if err != nil {
		t.Fatal(err)
	}
	const addr = "100.64.0.16:18"
	srv.SetWho(addr, httpdrv.Who{Login: "c16@verif", Node: "c16", Rules: []refmodel.Rule{{Actions: []string{"get"}, Patterns: []string{"*"}}}})
	inner := srv.ClientDo(addr)
	for _, status := range []int{500, 502, 503, 504, 429, 408, 400, 301} {
		for _, via := range []string{"lookup", "updater"} {
			var mu sync.Mutex
			n, failFirst := 0, false
			do := func(req *http.Request) (*http.Response, error) {
				if failFirst && strings.HasSuffix(req.URL.Path, "/api/get") {
					mu.Lock()
					n++
					first := n == 1
					mu.Unlock()
					if first {
						return &http.Response{StatusCode: status, Status: fmt.Sprint(status), Header: http.Header{"Content-Type": {"text/plain"}}, Body: io.NopCloser(strings.NewReader("upstream trouble")),
							Request: req, Proto: "HTTP/1.1", ProtoMajor: 1, ProtoMinor: 1}, nil
					}
				}
				return inner(req)
			}
			st, err := setec.NewStore(context.Background(), setec.StoreConfig{Client: setec.Client{Server: "http://setec.verif", DoHTTP: do}, Secrets: []string{"known"}, AllowLookup: true, PollInterval: -1, Logf: func(string, ...any) {}})
			if err != nil {
				t.Fatal(err)
			}
			failFirst = true
			call := func() error {
				ctx, cancel := context.WithTimeout(context.Background(), 20*time.Second)
				defer cancel()
				if via == "updater" {
					_, err := setec.NewUpdater(ctx, st, "wanted", func(b []byte) (string, error) { return string(b), nil })
					return err
				}
				_, err := st.LookupSecret(ctx, "wanted")
				return err
			}
			err1 := call()
			mu.Lock()
			n1 := n
			mu.Unlock()
			r.Eval(1)
			r.Count("real_client_failing_status_cases", 1)
			r.Distinct(fmt.Sprintf("real client, lookup answered %d, via %s", status, via))
			what := fmt.Sprintf("real client: the lookup (%s) of an unknown name is answered with status %d", via, status)
			switch {
			case n1 != 1:
				r.Violation("automatic-retry", -1, fmt.Sprintf("%s: one call caused %d requests", what, n1), nil)
			case err1 == nil:
				r.Violation("failed-lookup-not-reported", -1, what+": the caller was told nothing of it", nil)
			default:
				if err2 := call(); err2 != nil {
					r.Violation("lookup-after-recovery-fails", -1, fmt.Sprintf("%s; the caller asks again and the service answers properly now, but: %v", what, err2), nil)
				} else if h := st.Secret("wanted"); h == nil || string(h.Get()) != "wanted-value" {
					r.Violation("handle-wrong-bytes", -1, what+": after the second call the secret is not served", nil)
				}
			}
			st.Close()
		}
	}
}

// lookupDuringPollOfStaleSecret: a process restarted from its cache holds an undeclared secret nobody has
// touched for longer than the expiry age. While a poll is in flight a caller looks that name up (or asks for an
// updater, or applies a struct). It gets a working handle, and the secret stays known, polled and cached.
func lookupDuringPollOfStaleSecret(t *testing.T, r *evid.Run, idx int) {
	rng := r.Rand(uint64(55_000_000 + idx))
	r.Eval(1)
	svc := fakesvc.New()
	svc.Set("apple", 1, []byte("apple#1"))
	svc.Set("plum", 1, []byte("plum#1"))
	now := int64(2_000_000_000)
	stale := now - int64(3*time.Hour/time.Second) - int64(rng.IntN(100000))
	doc := fmt.Sprintf(`{"apple":{"secret":{"Value":"YXBwbGUjMQ==","Version":1},"lastAccess":"%d"},"plum":{"secret":{"Value":"cGx1bSMx","Version":1},"lastAccess":"%d"}}`, now-5, stale)
	cache := &fakesvc.MonCache{Initial: []byte(doc)}
	parked := make(chan struct{}, 1)
	release := make(chan struct{})
	var armed atomic.Bool
	svc.Behave = func(q *fakesvc.Req) fakesvc.Behaviour {
		if q.Cond && armed.CompareAndSwap(true, false) {
			parked <- struct{}{}
			return fakesvc.Behaviour{Hold: release}
		}
		return fakesvc.Behaviour{}
	}
	st, err := setec.NewStore(context.Background(), setec.StoreConfig{Client: svc, Secrets: []string{"apple"}, AllowLookup: true, Cache: cache, PollInterval: -1,
		ExpiryAge: time.Hour, TimeNow: func() time.Time { return time.Unix(now, 0) }, Logf: func(string, ...any) {}})
	if err != nil {
		r.Violation("newstore-fails", idx, err.Error(), nil)
		return
	}
	defer st.Close()
	armed.Store(true)
	done := make(chan error, 1)
	go func() { done <- st.Refresh(context.Background()) }()
	via := []string{"lookup", "updater"}[idx%2]
	var h setec.Secret
	var lerr error
	select {
	case <-parked:
		switch via {
		case "lookup":
			h, lerr = st.LookupSecret(context.Background(), "plum")
		case "updater":
			_, lerr = setec.NewUpdater(context.Background(), st, "plum", func(b []byte) (string, error) { return string(b), nil })
		}
		close(release)
	case <-time.After(10 * time.Second):
		close(release)
		<-done
		r.Inconclusive("lookup during poll: the poll never reached the service")
		return
	}
	<-done
	r.Count("lookups_during_a_poll_of_a_stale_secret", 1)
	r.Distinct("lookup (" + via + ") during a poll of a stale cached secret")
	what := fmt.Sprintf("case %d: %s of a cached, long-unread, undeclared secret while a poll was in flight", idx, via)
	if lerr != nil {
		r.Violation("lookup-fails", idx, what+": "+lerr.Error(), nil)
		return
	}
	svc.Set("plum", 2, []byte("plum#2"))
	if err := st.Refresh(context.Background()); err != nil {
		r.Violation("refresh-fails", idx, err.Error(), nil)
		return
	}
	if h == nil {
		h = func() (s setec.Secret) {
			defer func() { recover() }()
			return st.Secret("plum")
		}()
	}
	got, pan := func() (b []byte, p any) {
		defer func() { p = recover() }()
		if h == nil {
			return nil, "Secret(\"plum\") is unknown to the store"
		}
		return h.Get(), nil
	}()
	if pan != nil || string(got) != "plum#2" {
		r.Violation("looked-up-handle-not-live", idx, fmt.Sprintf("%s: after the service moved to %q and a poll completed, the handle yields %q (panic: %v)", what, "plum#2", got, pan), nil)
		return
	}
	var payload map[string]json.RawMessage
	json.Unmarshal(cache.Last(), &payload)
	if _, ok := payload["plum"]; !ok {
		r.Violation("looked-up-secret-not-cached", idx, what+": the cache no longer holds it: "+string(cache.Last()), nil)
	}
}

// lookupWhoseCacheWriteFails: the cache cannot be written at exactly the moment a looked-up secret is
// installed (the disk is full for that one write). The lookup succeeds all the same - and the secret is "cached
// like any other": once the cache can be written again, a poll or two later (polls that bring nothing new
// included) it holds the secret, so a restart while the service is away still has it.
func lookupWhoseCacheWriteFails(t *testing.T, r *evid.Run, idx int) {
	r.Eval(1)
	svc := fakesvc.New()
	for _, n := range []string{"known", "late/one", "undeclared/one", "undeclared/two"} {
		svc.Set(n, 3, value(n))
	}
	var failing atomic.Bool
	cache := &fakesvc.MonCache{}
	cache.WriteErr = func(int) error {
		if failing.Load() {
			return errors.New("injected: no space left on device")
		}
		return nil
	}
	st, err := setec.NewStore(context.Background(), setec.StoreConfig{Client: svc, Secrets: []string{"known"}, AllowLookup: true, Cache: cache, PollInterval: -1, Logf: func(string, ...any) {}})
	if err != nil {
		t.Fatal(err)
	}
	defer st.Close()
	via := []string{"lookup", "updater", "apply"}[idx%3]
	name := "late/one"
	failing.Store(true)
	var lerr error
	switch via {
	case "lookup":
		_, lerr = st.LookupSecret(context.Background(), name)
	case "updater":
		_, lerr = setec.NewUpdater(context.Background(), st, name, func(b []byte) (string, error) { return string(b), nil })
	case "apply":
		name = []string{"undeclared/one", "undeclared/two"}[(idx/3)%2]
		var out string
		lerr = applyVia(context.Background(), st, name, &out)
	}
	failing.Store(false)
	r.Count("lookups_whose_cache_write_failed", 1)
	r.Distinct("lookup (" + via + ") whose cache write fails")
	what := fmt.Sprintf("case %d: %s of %q while the cache could not be written", idx, via, name)
	if lerr != nil {
		r.Violation("lookup-fails", idx, fmt.Sprintf("%s: the lookup failed: %v", what, lerr), nil)
		return
	}
	polls := 1 + (idx/6)%3
	for k := 0; k < polls; k++ {
		st.Refresh(context.Background()) // (the poll that retries the write may or may not report anything)
	}
	var payload map[string]json.RawMessage
	json.Unmarshal(cache.Last(), &payload)
	if _, ok := payload[name]; !ok {
		r.Violation("looked-up-secret-not-cached", idx, fmt.Sprintf("%s: the lookup succeeded, the cache works again, %d poll(s) have completed since (nothing new at the service) - and the cache still does not hold the secret: %s", what, polls, cache.Last()), nil)
	}
}

// secondStoreWithoutLookups: a program re-creates its store, now with lookups DISABLED, and goes on using what
// it prepared against the first one (a parsed Fields value, names it had looked up). On the second store every
// name it does not know is refused - LookupSecret, NewUpdater and Apply report an error, Secret panics - and no
// request is sent, whatever the first store knew.
func secondStoreWithoutLookups(t *testing.T, r *evid.Run) {
	svc := fakesvc.New()
	for _, n := range []string{"known", "undeclared/one", "undeclared/two"} {
		svc.Set(n, 3, value(n))
	}
	mk := func(allow bool) *setec.Store {
		st, err := setec.NewStore(context.Background(), setec.StoreConfig{Client: svc, Secrets: []string{"known"}, AllowLookup: allow, PollInterval: -1, Logf: func(string, ...any) {}})
		if err != nil {
			t.Fatal(err)
		}
		return st
	}
	var v struct {
		One string `setec:"undeclared/one"`
		Two []byte `setec:"undeclared/two"`
	}
	f, err := setec.ParseFields(&v, "")
	if err != nil {
		t.Fatal(err)
	}
	ctx := context.Background()
	a := mk(true)
	if err := f.Apply(ctx, a); err != nil || v.One != string(value("undeclared/one")) {
		r.Violation("lookup-fails", -1, fmt.Sprintf("Apply on a store with lookups enabled: %v (field %q)", err, v.One), nil)
	}
	a.LookupSecret(ctx, "undeclared/one")
	a.Close()
	b := mk(false)
	defer b.Close()
	base := svc.NumRequests()
	v.One, v.Two = "", nil
	calls := map[string]func() error{
		"Fields.Apply (the Fields value was applied to the first store before)": func() error { return f.Apply(ctx, b) },
		"LookupSecret": func() error { _, err := b.LookupSecret(ctx, "undeclared/one"); return err },
		"NewUpdater": func() error {
			_, err := setec.NewUpdater(ctx, b, "undeclared/two", func(x []byte) (string, error) { return string(x), nil })
			return err
		},
	}
	for what, call := range calls {
		err := call()
		r.Eval(1)
		r.Count("calls_on_a_second_store_without_lookups", 1)
		r.Distinct("second store without lookups: " + strings.SplitN(what, " ", 2)[0])
		if err == nil {
			r.Violation("disabled-lookup-succeeded", -1, fmt.Sprintf("second store, lookups disabled, names unknown to it: %s reported success (fields now hold %q / %q)", what, v.One, v.Two), nil)
		}
	}
	if n := svc.NumRequests() - base; n != 0 {
		r.Violation("disabled-lookup-sent-request", -1, fmt.Sprintf("the second store (lookups disabled) sent %d request(s)", n), nil)
	}
	if p := func() (p any) {
		defer func() { p = recover() }()
		b.Secret("undeclared/one")
		return nil
	}(); p == nil {
		r.Violation("disabled-secret-no-panic", -1, "Secret of an unknown name on the second store did not panic", nil)
	}
}

// updaterBuiltWhileAPollInstalls: NewUpdater on a name the store has to fetch; the caller's builder is slow (it
// dials a service with the credential, say) and while it runs the secret is rotated and a poll installs the new
// version. The updater that comes back is a working handle like any other: its next Get yields the new version.
func updaterBuiltWhileAPollInstalls(t *testing.T, r *evid.Run) {
	for c := 0; c < 4; c++ {
		svc := fakesvc.New()
		svc.Set("known", 3, value("known"))
		svc.Set("late/one", 1, []byte("hunter1"))
		st, err := setec.NewStore(context.Background(), setec.StoreConfig{Client: svc, Secrets: []string{"known"}, AllowLookup: true, PollInterval: -1, Logf: func(string, ...any) {}})
		if err != nil {
			t.Fatal(err)
		}
		name := []string{"late/one", "known"}[c%2]
		old, _ := svc.Active(name)
		builds := 0
		u, err := setec.NewUpdater(context.Background(), st, name, func(b []byte) (string, error) {
			builds++
			if builds == 1 {
				svc.Set(name, old.Version+1, []byte("rotated-"+name))
				if c < 2 {
					st.Refresh(context.Background())
				} else {
					done := make(chan struct{})
					go func() { st.Refresh(context.Background()); close(done) }()
					<-done
				}
			}
			return "conn(" + string(b) + ")", nil
		})
		r.Eval(1)
		r.Count("updaters_built_while_a_poll_installs", 1)
		r.Distinct("updater built while a poll installs, name " + name)
		if err != nil {
			r.Violation("lookup-fails", -1, fmt.Sprintf("NewUpdater(%q): %v", name, err), nil)
		} else if got := u.Get(); got != "conn(rotated-"+name+")" {
			r.Violation("looked-up-handle-not-live", -1, fmt.Sprintf("NewUpdater(%q): while the caller's builder was running, the secret was rotated and a poll installed the new version; the updater's Get yields %q (the store's handle yields %q)", name, got, st.Secret(name).Get()), nil)
		}
		st.Close()
	}
}
