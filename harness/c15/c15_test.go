// C15 — updaters and watchers never miss the latest secret value.
// Monitor objects: the builder and the values it returns are instrumented
// (which bytes they were built from, how often they were closed). Sequential
// histories give exact expectations; a concurrent part under the race
// detector uses call/return stamps to decide which installs are definitely
// before a Get.
package c15

import (
	"context"
	"errors"
	"fmt"
	"io"
	"math/rand/v2"
	"runtime"
	"sync"
	"sync/atomic"
	"testing"
	"time"

	"github.com/tailscale/setec/client/setec"

	"verif/harness/internal/evid"
	"verif/harness/internal/fakesvc"
)

type val struct {
	from   string // bytes it was built from
	id     int64
	closed atomic.Int32
}

// Close counts; every third value reports that closing it failed (a connection whose shutdown fails): that
// is the value's own business and changes nothing about the updater's duties.
func (v *val) Close() error {
	v.closed.Add(1)
	if v.id%3 == 0 {
		return errors.New("injected: closing this value failed")
	}
	return nil
}

type builder struct {
	mu       sync.Mutex
	calls    []string // bytes of every invocation
	failNext bool
	made     []*val
	nextID   int64
	gate     chan struct{} // if non-nil the next invocation signals entered and waits on gate
	entered  chan struct{}
}

func (b *builder) build(data []byte) (*val, error) {
	b.mu.Lock()
	b.calls = append(b.calls, string(data))
	gate, entered := b.gate, b.entered
	b.gate, b.entered = nil, nil
	failNow := b.failNext
	b.failNext = false
	b.mu.Unlock()
	if gate != nil {
		entered <- struct{}{}
		<-gate
	}
	if failNow {
		return nil, errors.New("injected builder failure")
	}
	b.mu.Lock()
	defer b.mu.Unlock()
	b.nextID++
	v := &val{from: string(data), id: b.nextID}
	b.made = append(b.made, v)
	return v, nil
}

func (b *builder) ncalls() int { b.mu.Lock(); defer b.mu.Unlock(); return len(b.calls) }

type upd struct {
	failing bool // the last build failed and no build has succeeded since
	name    string
	u       *setec.Updater[*val]
	b       *builder
	cur     *val
	pending bool
}

func TestC15(t *testing.T) {
	r := evid.Start("C15", "exploration")
	defer r.Finish(t)
	r.Assume("an 'install' is observed at the store's boundary: the bytes a Secret handle yields changed across a Refresh (whatever Refresh returned)",
		"in the concurrent part a Get that overlaps an install may legitimately return the older or the newer value")
	n := r.N(20000, 300000)
	for i := 0; i < n; i++ {
		if r.Skip(i) {
			continue
		}
		seqCase(r, i)
	}
	if r.Only < 0 {
		for i := 0; i < r.N(100, 1500); i++ {
			concCase(t, r, i)
		}
		lookupRace(t, r)
		failedCreationsBesideAnUpdater(t, r)
		closersOfOddTypes(r)
		interfaceTyped(r)
		for i := 0; i < r.N(12, 120); i++ {
			lifetimes(r, i)
		}
		for i := 0; i < r.N(20, 200); i++ {
			updaterDuringPollOfStaleSecret(t, r, i)
		}
	}
	r.Require("gets_of_closers_of_odd_types", "updaters_beside_failed_creations", "gets_after_install", "gets_without_install", "gets_after_many_installs", "builder_failures", "closes_checked", "updater_created_during_install",
		"installs_with_failing_cache", "concurrent_gets", "updaters_from_racing_lookups", "interface_typed_updater_gets", "gets_while_failed_build_outstanding", "updater_lifetime_cases", "installs_going_back", "installs_of_equal_bytes", "updaters_created_during_a_poll_of_a_stale_secret")
	r.Rule("sequential seeded histories over 2 secrets and up to 5 updaters: installs (0..4 between Gets, sometimes with a failing cache write), updater creation (also while an install lands during its initial build), scripted builder failures, Gets; exact expectations per Get on (builder invoked?, with which bytes, value returned, Err, Close counts). Concurrent runs: 8 Get goroutines vs an installer, judged by call/return stamps. Distinct = (event, installs since last Get capped at 3, builder outcome)")
}

func seqCase(r *evid.Run, idx int) {
	rng := r.Rand(uint64(idx))
	r.Eval(1)
	var trace []string
	fail := func(key, msg string) {
		r.Violation(key, idx, fmt.Sprintf("case %d: %s", idx, msg), map[string]any{"events": trace})
	}
	svc := fakesvc.New()
	names := []string{"w/one", "w/two"}
	ver := map[string]uint32{}
	active := map[string]uint32{} // the version number active at the service
	for _, nme := range names {
		ver[nme] = 1
		svc.Set(nme, 1, []byte(nme+"#1"))
		active[nme] = 1
	}
	cacheFail := false
	cache := &fakesvc.MonCache{WriteErr: func(int) error {
		if cacheFail {
			return errors.New("injected cache write failure")
		}
		return nil
	}}
	st, err := setec.NewStore(context.Background(), setec.StoreConfig{Client: svc, Secrets: []string{names[0]}, AllowLookup: true, Cache: cache,
		PollInterval: -1, Logf: func(string, ...any) {}})
	if err != nil {
		fail("newstore", err.Error())
		return
	}
	defer st.Close()
	current := map[string]string{}
	installed := map[string]uint32{} // the version number the store holds (polls never fail at the service here)
	read := func(nme string) string {
		if h := st.Secret(nme); h != nil {
			return string(h.Get())
		}
		return ""
	}
	current[names[0]] = read(names[0])
	installed[names[0]] = active[names[0]]
	var ups []*upd
	installsSince := map[*upd]int{}
	// refresh performs a poll and marks every updater whose secret's bytes changed as pending.
	refresh := func() {
		st.Refresh(context.Background())
		for _, nme := range names {
			if now := read(nme); now != "" && (now != current[nme] || active[nme] != installed[nme]) {
				current[nme] = now
				installed[nme] = active[nme]
				for _, u := range ups {
					if u.name == nme {
						u.pending = true
						installsSince[u]++
					}
				}
			}
		}
	}
	closeChecks := func(u *upd) bool {
		u.b.mu.Lock()
		defer u.b.mu.Unlock()
		for _, v := range u.b.made {
			c := v.closed.Load()
			r.Count("closes_checked", 1)
			if v == u.cur {
				if c != 0 {
					fail("current-value-closed", fmt.Sprintf("the current value of an updater on %q (built from %q) was closed %d time(s)", u.name, v.from, c))
					return false
				}
			} else if c != 1 {
				fail("replaced-value-close-count", fmt.Sprintf("a replaced value of an updater on %q (built from %q) was closed %d time(s), want exactly 1", u.name, v.from, c))
				return false
			}
		}
		return true
	}
	nEv := 6 + rng.IntN(25)
	for e := 0; e < nEv; e++ {
		switch x := rng.IntN(20); {
		case x < 4 || len(ups) == 0: // new updater
			if len(ups) >= 5 {
				continue
			}
			nme := names[rng.IntN(len(names))]
			b := &builder{}
			during := rng.IntN(4) == 0 && current[nme] != ""
			failInit := rng.IntN(10) == 0
			if failInit {
				b.failNext = true
			}
			var u *setec.Updater[*val]
			var uerr error
			if during {
				// an install lands while the updater's initial value is being built
				b.gate, b.entered = make(chan struct{}), make(chan struct{}, 1)
				gate, entered := b.gate, b.entered
				done := make(chan struct{})
				go func() {
					u, uerr = setec.NewUpdater(context.Background(), st, nme, b.build)
					close(done)
				}()
				<-entered
				ver[nme]++
				svc.Set(nme, ver[nme], []byte(fmt.Sprintf("%s#%d", nme, ver[nme])))
				active[nme] = ver[nme]
				refresh()
				close(gate)
				<-done
				r.Count("updater_created_during_install", 1)
				trace = append(trace, fmt.Sprintf("new updater on %s while install %d lands during its initial build", nme, ver[nme]))
			} else {
				u, uerr = setec.NewUpdater(context.Background(), st, nme, b.build)
				trace = append(trace, fmt.Sprintf("new updater on %s (builder fails: %t)", nme, failInit))
			}
			if current[nme] == "" {
				current[nme] = read(nme) // first lookup of the undeclared secret
				installed[nme] = active[nme]
			}
			if failInit {
				if uerr == nil {
					fail("initial-build-failure-ignored", "NewUpdater returned nil error although the builder failed")
					return
				}
				continue
			}
			if uerr != nil {
				fail("newupdater-fails", uerr.Error())
				return
			}
			nu := &upd{name: nme, u: u, b: b}
			b.mu.Lock()
			if len(b.made) != 1 {
				b.mu.Unlock()
				fail("initial-build-count", fmt.Sprintf("builder invoked %d times at creation", len(b.made)))
				return
			}
			nu.cur = b.made[0]
			b.mu.Unlock()
			if during && nu.cur.from != current[nme] {
				nu.pending = true // built from the pre-install bytes: the install must be signalled
				installsSince[nu] = 1
			}
			ups = append(ups, nu)
		case x < 10: // install(s)
			k := 1
			if rng.IntN(3) == 0 {
				k = 2 + rng.IntN(3)
			}
			for i := 0; i < k; i++ {
				nme := names[rng.IntN(len(names))]
				if current[nme] == "" {
					continue
				}
				if rng.IntN(4) == 0 && ver[nme] >= 2 {
					// the operator goes BACK to an earlier version: an install like any other
					older := uint32(1 + rng.IntN(int(ver[nme]-1)))
					svc.Set(nme, older, []byte(fmt.Sprintf("%s#%d", nme, older)))
					active[nme] = older
					r.Count("installs_going_back", 1)
					trace = append(trace, fmt.Sprintf("re-activate %s#%d", nme, older))
				} else if rng.IntN(6) == 0 {
					// a NEW version number carrying the bytes that are active already (the same credential put again
					// after something else): an install like any other - a new version is a new version
					ver[nme]++
					svc.Set(nme, ver[nme], []byte(current[nme]))
					active[nme] = ver[nme]
					r.Count("installs_of_equal_bytes", 1)
				} else {
					ver[nme]++
					svc.Set(nme, ver[nme], []byte(fmt.Sprintf("%s#%d", nme, ver[nme])))
					active[nme] = ver[nme]
				}
				cacheFail = rng.IntN(5) == 0
				if cacheFail {
					r.Count("installs_with_failing_cache", 1)
				}
				refresh()
				cacheFail = false
				trace = append(trace, fmt.Sprintf("install %s#%d", nme, ver[nme]))
			}
		case x < 11: // poll without change
			refresh()
			trace = append(trace, "poll (no change)")
		default: // Get
			u := ups[rng.IntN(len(ups))]
			failB := u.pending && rng.IntN(4) == 0
			u.b.mu.Lock()
			u.b.failNext = failB
			u.b.mu.Unlock()
			before := u.b.ncalls()
			got := u.u.Get()
			calls := u.b.ncalls() - before
			since := installsSince[u]
			if since > 3 {
				since = 3
			}
			trace = append(trace, fmt.Sprintf("Get updater(%s): pending=%t builderFails=%t -> built from %q", u.name, u.pending, failB, got.from))
			r.Distinct(fmt.Sprintf("get installs-since=%d builder-fails=%t", since, failB))
			if u.pending {
				r.Count("gets_after_install", 1)
				if installsSince[u] > 1 {
					r.Count("gets_after_many_installs", 1)
				}
				if calls != 1 {
					fail("update-lost", fmt.Sprintf("%d install(s) of %q happened since the previous Get but the builder was invoked %d times (store now serves %q, updater returned a value built from %q)", installsSince[u], u.name, calls, current[u.name], got.from))
					return
				}
				u.b.mu.Lock()
				last := u.b.calls[len(u.b.calls)-1]
				u.b.mu.Unlock()
				if last != current[u.name] {
					fail("built-from-stale-bytes", fmt.Sprintf("the builder was given %q but the newest installed bytes of %q are %q", last, u.name, current[u.name]))
					return
				}
				if failB {
					r.Count("builder_failures", 1)
					if got != u.cur {
						fail("failed-build-replaced-value", "the builder failed but Get did not return the previous value")
						return
					}
					if u.u.Err() == nil {
						fail("failed-build-not-reported", "the builder failed but Err() is nil")
						return
					}
					u.failing = true
				} else {
					if got.from != current[u.name] {
						fail("stale-after-install", fmt.Sprintf("Get returned a value built from %q, newest installed is %q", got.from, current[u.name]))
						return
					}
					if u.u.Err() != nil {
						fail("err-after-successful-update", fmt.Sprintf("the update succeeded but Err() = %v", u.u.Err()))
						return
					}
					u.cur = got
					u.failing = false
				}
				u.pending = false
				installsSince[u] = 0
			} else {
				r.Count("gets_without_install", 1)
				if calls != 0 {
					fail("rebuilt-without-install", fmt.Sprintf("no install of %q since the previous Get, but the builder was invoked %d time(s)", u.name, calls))
					return
				}
				if got != u.cur {
					fail("value-changed-without-install", "Get returned a different value although nothing was installed")
					return
				}
				if u.failing {
					r.Count("gets_while_failed_build_outstanding", 1)
					if u.u.Err() == nil {
						fail("failed-build-not-reported", "the last build failed and none has succeeded since, the previous value is still being returned, but Err() is nil")
						return
					}
				}
			}
			if !closeChecks(u) {
				return
			}
		}
	}
	for _, u := range ups {
		if !closeChecks(u) {
			return
		}
	}
	if idx < 2 {
		r.Sample(map[string]any{"case": idx, "events": trace})
	}
}

// concCase: concurrent Get callers against an installer, in real time.
func concCase(t *testing.T, r *evid.Run, idx int) {
	r.Eval(1)
	rng := r.Rand(uint64(9_000_000 + idx))
	svc := fakesvc.New()
	svc.Set("hot", 1, []byte("hot#1"))
	st, err := setec.NewStore(context.Background(), setec.StoreConfig{Client: svc, Secrets: []string{"hot"}, PollInterval: -1, Logf: func(string, ...any) {}})
	if err != nil {
		t.Fatal(err)
	}
	defer st.Close()
	var clock atomic.Int64
	var completed atomic.Int64 // highest install number whose Refresh has returned
	serialOf := func(s string) int64 {
		var k int64
		fmt.Sscanf(s, "hot#%d", &k)
		return k
	}
	nUp := 1 + rng.IntN(3)
	type up struct {
		u *setec.Updater[*val]
		b *builder
	}
	ups := make([]up, nUp)
	for i := range ups {
		b := &builder{}
		u, err := setec.NewUpdater(context.Background(), st, "hot", b.build)
		if err != nil {
			t.Fatal(err)
		}
		ups[i] = up{u, b}
	}
	stop := make(chan struct{})
	var wg sync.WaitGroup
	var bad atomic.Int32
	for g := 0; g < 8; g++ {
		wg.Add(1)
		go func(g int) {
			defer wg.Done()
			u := ups[g%nUp]
			var lastSeen int64
			for {
				select {
				case <-stop:
					return
				default:
				}
				floor := completed.Load() // installs definitely before this Get
				clock.Add(1)
				v := u.u.Get()
				k := serialOf(v.from)
				r.Count("concurrent_gets", 1)
				if k < floor && bad.Add(1) <= 2 {
					r.Violation("concurrent-stale-get", idx, fmt.Sprintf("concurrent case %d: install %d had completed before Get was called, but Get returned a value built from install %d", idx, floor, k), nil)
				}
				if k < lastSeen && bad.Add(1) <= 2 {
					r.Violation("concurrent-get-went-back", idx, fmt.Sprintf("concurrent case %d: a reader saw install %d after %d", idx, k, lastSeen), nil)
				}
				lastSeen = k
			}
		}(g)
	}
	nInst := 20 + rng.IntN(30)
	for i := 2; i <= nInst; i++ {
		svc.Set("hot", uint32(i), []byte(fmt.Sprintf("hot#%d", i)))
		if err := st.Refresh(context.Background()); err != nil {
			t.Fatal(err)
		}
		completed.Store(int64(i))
		if rng.IntN(3) == 0 {
			time.Sleep(time.Duration(rng.IntN(200)) * time.Microsecond)
		}
	}
	close(stop)
	wg.Wait()
	for i, u := range ups {
		final := u.u.Get()
		if serialOf(final.from) != int64(nInst) {
			r.Violation("stale-after-install", idx, fmt.Sprintf("concurrent case %d: after all installs updater %d returns a value built from %q, newest is hot#%d", idx, i, final.from, nInst), nil)
		}
		u.b.mu.Lock()
		for _, v := range u.b.made {
			c := v.closed.Load()
			if v == final && c != 0 {
				r.Violation("current-value-closed", idx, fmt.Sprintf("concurrent case %d: current value closed %d times", idx, c), nil)
			} else if v != final && c != 1 {
				r.Violation("replaced-value-close-count", idx, fmt.Sprintf("concurrent case %d: a replaced value (built from %q) was closed %d times", idx, v.from, c), nil)
			}
		}
		u.b.mu.Unlock()
	}
	r.Distinct("concurrent")
}

var _ = rand.IntN

// lookupRace: several goroutines create an updater on the same, not yet known, secret at the same
// moment (so their lookups race); afterwards a new version is installed. Every one of those updaters,
// and every handle, must deliver it.
func lookupRace(t *testing.T, r *evid.Run) {
	svc := fakesvc.New()
	svc.Set("decl", 1, []byte("decl#1"))
	st, err := setec.NewStore(context.Background(), setec.StoreConfig{Client: svc, Secrets: []string{"decl"}, AllowLookup: true, PollInterval: -1, Logf: func(string, ...any) {}})
	if err != nil {
		t.Fatal(err)
	}
	defer st.Close()
	nNames := r.N(400, 4000)
	for i := 0; i < nNames; i++ {
		r.Eval(1)
		name := fmt.Sprintf("fresh/%d", i)
		svc.Set(name, 1, []byte(name+"#1"))
		const G = 8
		ups := make([]*setec.Updater[*val], G)
		bs := make([]*builder, G)
		handles := make([]setec.Secret, G)
		var wg sync.WaitGroup
		var gate atomic.Bool
		for g := 0; g < G; g++ {
			wg.Add(1)
			go func(g int) {
				defer wg.Done()
				for !gate.Load() {
				}
				if g%2 == 0 {
					bs[g] = &builder{}
					ups[g], _ = setec.NewUpdater(context.Background(), st, name, bs[g].build)
				} else {
					handles[g], _ = st.LookupSecret(context.Background(), name)
				}
			}(g)
		}
		// in every other round the service keeps moving while the lookups race, so that two lookups that
		// did not share a request may bring back different versions
		moving := i%2 == 1
		stopMove := make(chan struct{})
		var mv sync.WaitGroup
		if moving {
			mv.Add(1)
			go func() {
				defer mv.Done()
				for v := uint32(2); ; v++ {
					select {
					case <-stopMove:
						return
					default:
					}
					svc.Set(name, v, []byte(fmt.Sprintf("%s#early%d", name, v)))
				}
			}()
		}
		gate.Store(true)
		wg.Wait()
		close(stopMove)
		mv.Wait()
		if moving {
			// no poll yet: whatever the store serves now is the newest version it installed; every updater
			// that exists must deliver exactly that
			installed := string(st.Secret(name).Get())
			for g := 0; g < G; g++ {
				if ups[g] != nil {
					r.Count("updaters_checked_after_racing_installs", 1)
					if v := ups[g].Get(); v.from != installed {
						r.Violation("stale-after-install", -1, fmt.Sprintf("lookups of %q raced while the service moved: the store now serves %q (its newest install), but an updater on it returns a value built from %q", name, installed, v.from), nil)
						return
					}
				}
				if handles[g] != nil {
					if got := string(handles[g].Get()); got != installed {
						r.Violation("stale-after-install", -1, fmt.Sprintf("lookups of %q raced while the service moved: Secret() serves %q but a handle given out by a lookup yields %q", name, installed, got), nil)
						return
					}
				}
			}
		}
		svc.Set(name, 1_000_000, []byte(name+"#2"))
		if err := st.Refresh(context.Background()); err != nil {
			t.Fatal(err)
		}
		for g := 0; g < G; g++ {
			if ups[g] != nil {
				r.Count("updaters_from_racing_lookups", 1)
				if v := ups[g].Get(); v.from != name+"#2" {
					r.Violation("stale-after-install", -1, fmt.Sprintf("an updater created while several lookups of %q were racing returns a value built from %q after version 2 was installed", name, v.from), nil)
					return
				}
			}
			if handles[g] != nil {
				if got := string(handles[g].Get()); got != name+"#2" {
					r.Violation("stale-after-install", -1, fmt.Sprintf("a handle obtained while several lookups of %q were racing yields %q after version 2 was installed", name, got), nil)
					return
				}
			}
		}
	}
	r.Distinct("racing-lookups")
}

// closerValue is an interface type: Updater[closerValue] must close replaced values just like Updater[*val].
type closerValue interface {
	Close() error
	From() string
}

func (v *val) From() string { return v.from }

// interfaceTyped: the close-exactly-once rule does not depend on T being a concrete type.
func interfaceTyped(r *evid.Run) {
	for _, kind := range []string{"interface", "io.Closer"} {
		svc := fakesvc.New()
		svc.Set("s", 1, []byte("s#1"))
		st, err := setec.NewStore(context.Background(), setec.StoreConfig{Client: svc, Secrets: []string{"s"}, PollInterval: -1, Logf: func(string, ...any) {}})
		if err != nil {
			r.Violation("newstore", -1, err.Error(), nil)
			return
		}
		b := &builder{}
		var get func() *val
		if kind == "interface" {
			u, err := setec.NewUpdater(context.Background(), st, "s", func(d []byte) (closerValue, error) { v, e := b.build(d); return v, e })
			if err != nil {
				r.Violation("newupdater-fails", -1, err.Error(), nil)
				return
			}
			get = func() *val { return u.Get().(*val) }
		} else {
			u, err := setec.NewUpdater(context.Background(), st, "s", func(d []byte) (io.Closer, error) { v, e := b.build(d); return v, e })
			if err != nil {
				r.Violation("newupdater-fails", -1, err.Error(), nil)
				return
			}
			get = func() *val { return u.Get().(*val) }
		}
		var cur *val
		for i := 2; i <= 6; i++ {
			svc.Set("s", uint32(i), []byte(fmt.Sprintf("s#%d", i)))
			st.Refresh(context.Background())
			cur = get()
			r.Count("interface_typed_updater_gets", 1)
			r.Eval(1)
			if cur.from != fmt.Sprintf("s#%d", i) {
				r.Violation("stale-after-install", -1, fmt.Sprintf("Updater[%s]: Get returned a value built from %q after s#%d was installed", kind, cur.from, i), nil)
				return
			}
		}
		b.mu.Lock()
		for _, v := range b.made {
			c := v.closed.Load()
			if v == cur && c != 0 {
				r.Violation("current-value-closed", -1, fmt.Sprintf("Updater[%s]: the current value was closed", kind), nil)
			} else if v != cur && c != 1 {
				r.Violation("replaced-value-close-count", -1, fmt.Sprintf("Updater[%s]: a replaced value (built from %q) that implements io.Closer was closed %d time(s), want exactly 1", kind, v.from, c), nil)
			}
		}
		b.mu.Unlock()
		st.Close()
		r.Distinct("updater with T = " + kind)
	}
}

// lifetimes: several updaters on ONE secret with different lifetimes: some are dropped and collected while
// others live on, new ones are created in between. Every updater that is still held must see every later
// install. (Real time and real garbage collections.)
func lifetimes(r *evid.Run, idx int) {
	rng := r.Rand(uint64(33_000_000 + idx))
	r.Eval(1)
	svc := fakesvc.New()
	ver := uint32(1)
	svc.Set("lt", ver, []byte("lt#1"))
	st, err := setec.NewStore(context.Background(), setec.StoreConfig{Client: svc, Secrets: []string{"lt"}, PollInterval: -1, Logf: func(string, ...any) {}})
	if err != nil {
		r.Violation("newstore-fails", idx, err.Error(), nil)
		return
	}
	defer st.Close()
	mk := func() *setec.Updater[string] {
		u, err := setec.NewUpdater(context.Background(), st, "lt", func(b []byte) (string, error) { return string(b), nil })
		if err != nil {
			r.Violation("updater-fails", idx, err.Error(), nil)
			return nil
		}
		return u
	}
	var live []*setec.Updater[string]
	var births []int
	nborn := 0
	var trace []string
	collect := func() {
		for k := 0; k < 3; k++ {
			runtime.GC()
			time.Sleep(2 * time.Millisecond)
		}
	}
	for step := 0; step < 14; step++ {
		switch x := rng.IntN(10); {
		case x < 4 || len(live) < 2:
			if u := mk(); u != nil {
				live = append(live, u)
				births = append(births, nborn)
				trace = append(trace, fmt.Sprintf("create #%d", nborn))
				nborn++
			}
		case x < 7:
			k := rng.IntN(len(live)) // drop one (any position: oldest, newest, middle) and let it be collected
			trace = append(trace, fmt.Sprintf("drop #%d and collect", births[k]))
			live[k] = nil
			live = append(live[:k], live[k+1:]...)
			births = append(births[:k], births[k+1:]...)
			collect()
		default:
			ver++
			want := fmt.Sprintf("lt#%d", ver)
			svc.Set("lt", ver, []byte(want))
			if err := st.Refresh(context.Background()); err != nil {
				r.Violation("refresh-fails", idx, err.Error(), nil)
				return
			}
			trace = append(trace, "install "+want)
			for k, u := range live {
				if got := u.Get(); got != want {
					r.Violation("update-lost", idx, fmt.Sprintf("lifetime case %d: after %q was installed, the updater created as #%d (still held) returns %q", idx, want, births[k], got), map[string]any{"events": trace})
					return
				}
			}
		}
	}
	r.Count("updater_lifetime_cases", 1)
	r.Distinct("updater lifetimes")
	runtime.KeepAlive(live)
}

// updaterDuringPollOfStaleSecret: a process restarted from its cache holds an undeclared secret that nobody has
// touched for longer than the expiry age. While a poll is in flight (it has taken its decisions and is waiting for
// the service) an updater is created for that secret. From then on it is a watched secret like any other: the
// updater must see every later version.
func updaterDuringPollOfStaleSecret(t *testing.T, r *evid.Run, idx int) {
	rng := r.Rand(uint64(44_000_000 + idx))
	r.Eval(1)
	svc := fakesvc.New()
	svc.Set("apple", 1, []byte("apple#1"))
	svc.Set("plum", 1, []byte("plum#1"))
	now := int64(2_000_000_000)
	stale := now - int64(2*time.Hour/time.Second) - int64(rng.IntN(100000))
	doc := fmt.Sprintf(`{"apple":{"secret":{"Value":"YXBwbGUjMQ==","Version":1},"lastAccess":"%d"},"plum":{"secret":{"Value":"cGx1bSMx","Version":1},"lastAccess":"%d"}}`, now-5, stale)
	cache := &fakesvc.MonCache{Initial: []byte(doc)}
	parked := make(chan struct{}, 1)
	release := make(chan struct{})
	var armed atomic.Bool
	svc.Behave = func(q *fakesvc.Req) fakesvc.Behaviour {
		if q.Cond && armed.CompareAndSwap(true, false) {
			parked <- struct{}{}
			return fakesvc.Behaviour{Hold: release}
		}
		return fakesvc.Behaviour{}
	}
	st, err := setec.NewStore(context.Background(), setec.StoreConfig{Client: svc, Secrets: []string{"apple"}, AllowLookup: true, Cache: cache, PollInterval: -1,
		ExpiryAge: time.Hour, TimeNow: func() time.Time { return time.Unix(now, 0) }, Logf: func(string, ...any) {}})
	if err != nil {
		r.Violation("newstore-fails", idx, err.Error(), nil)
		return
	}
	defer st.Close()
	armed.Store(true)
	done := make(chan error, 1)
	go func() { done <- st.Refresh(context.Background()) }()
	var u *setec.Updater[string]
	select {
	case <-parked:
		u, err = setec.NewUpdater(context.Background(), st, "plum", func(b []byte) (string, error) { return string(b), nil })
		close(release)
	case <-time.After(10 * time.Second):
		close(release)
		r.Inconclusive("updater during poll: the poll never reached the service")
		<-done
		return
	}
	<-done
	if err != nil {
		r.Violation("updater-fails", idx, fmt.Sprintf("an updater for a secret the store holds (from its cache): %v", err), nil)
		return
	}
	r.Count("updaters_created_during_a_poll_of_a_stale_secret", 1)
	r.Distinct("updater created during a poll of a stale cached secret")
	for v := uint32(2); v <= 3; v++ {
		want := fmt.Sprintf("plum#%d", v)
		svc.Set("plum", v, []byte(want))
		if err := st.Refresh(context.Background()); err != nil {
			r.Violation("refresh-fails", idx, err.Error(), nil)
			return
		}
		got, pan := func() (s string, p any) {
			defer func() { p = recover() }()
			return u.Get(), nil
		}()
		if pan != nil || got != want {
			r.Violation("stale-after-install", idx, fmt.Sprintf("case %d: an updater created (for a cached, long-unread, undeclared secret) while a poll was in flight: the service now has %q, a poll has completed, the updater returns %q (panic: %v)", idx, want, got, pan), nil)
			return
		}
	}
}

// failedCreationsBesideAnUpdater: several NewUpdater calls on one secret overlap; some of them have builders
// that (after a while) reject the value, one or two succeed. The failures are handled in every order. The
// updaters that WERE handed out are like any other: after the next install their Get returns the new value.
func failedCreationsBesideAnUpdater(t *testing.T, r *evid.Run) {
	type plan struct {
		failing  int   // creations whose builder fails
		okAt     []int // positions (among the registrations) at which a succeeding creation is made
		relOrder []int // order in which the failing builders are let go
	}
	plans := []plan{
		{1, []int{1}, []int{0}}, {2, []int{2}, []int{0, 1}}, {2, []int{2}, []int{1, 0}}, {2, []int{1}, []int{0, 1}}, {2, []int{1, 2}, []int{0, 1}},
		{3, []int{3}, []int{0, 1, 2}}, {3, []int{1}, []int{2, 0, 1}}, {3, []int{2, 3}, []int{1, 0, 2}}, {2, []int{0, 2}, []int{0, 1}}, {3, []int{0}, []int{0, 1, 2}},
	}
	for pi, pl := range plans {
		svc := fakesvc.New()
		svc.Set("u/s", 1, []byte("v1-bytes"))
		st, err := setec.NewStore(context.Background(), setec.StoreConfig{Client: svc, Secrets: []string{"u/s"}, PollInterval: -1, Logf: func(string, ...any) {}})
		if err != nil {
			t.Fatal(err)
		}
		gates := make([]chan struct{}, pl.failing)
		entered := make(chan int, pl.failing)
		doneF := make([]chan error, pl.failing)
		var good []*setec.Updater[string]
		mkGood := func() {
			u, err := setec.NewUpdater(context.Background(), st, "u/s", func(b []byte) (string, error) { return string(b), nil })
			if err != nil {
				r.Violation("updater-fails", -1, err.Error(), nil)
				return
			}
			good = append(good, u)
		}
		isOK := func(pos int) bool {
			for _, p := range pl.okAt {
				if p == pos {
					return true
				}
			}
			return false
		}
		pos := 0
		for f := 0; f < pl.failing; f++ {
			for isOK(pos) {
				mkGood()
				pos++
			}
			gates[f] = make(chan struct{})
			doneF[f] = make(chan error, 1)
			go func(f int) {
				_, err := setec.NewUpdater(context.Background(), st, "u/s", func(b []byte) (string, error) {
					entered <- f
					<-gates[f]
					return "", errors.New("this component cannot parse the value")
				})
				doneF[f] <- err
			}(f)
			<-entered // registered, its builder is running
			pos++
		}
		for isOK(pos) {
			mkGood()
			pos++
		}
		for _, f := range pl.relOrder {
			close(gates[f])
			if err := <-doneF[f]; err == nil {
				r.Violation("builder-failure-not-reported", -1, "NewUpdater with a failing builder reported success", nil)
			}
		}
		svc.Set("u/s", 2, []byte("v2-bytes"))
		if err := st.Refresh(context.Background()); err != nil {
			r.Violation("poll-fails", -1, err.Error(), nil)
		}
		r.Eval(1)
		r.Distinct(fmt.Sprintf("updaters beside %d failed creations", pl.failing))
		for gi, u := range good {
			r.Count("updaters_beside_failed_creations", 1)
			if got := u.Get(); got != "v2-bytes" {
				r.Violation("update-lost", -1, fmt.Sprintf("plan %d (%d overlapping creations whose builders fail, released in order %v; succeeding creations at positions %v): after v2-bytes was installed, updater #%d - handed out, alive - returns %q", pi, pl.failing, pl.relOrder, pl.okAt, gi, got), nil)
				break
			}
		}
		st.Close()
	}
}

// connPool is a value type that is an io.Closer and is NOT comparable (a slice): a pool of connections.
type connPool []*poolConn

type poolConn struct {
	cred   string
	closed int
}

func (p connPool) Close() error {
	for _, c := range p {
		c.closed++
	}
	return nil
}

// bundle is a struct value with a slice inside (not comparable either) and a Close method.
type bundle struct {
	parts  []string
	closed *int
}

func (b bundle) Close() error { *b.closed++; return nil }

// closersOfOddTypes: the value type of an Updater may be any type; when it is an io.Closer the replaced value
// is closed exactly once - also when the type is a slice, a struct holding one, or an interface holding one.
func closersOfOddTypes(r *evid.Run) {
	svc := fakesvc.New()
	svc.Set("c/s", 1, []byte("cred-1"))
	st, err := setec.NewStore(context.Background(), setec.StoreConfig{Client: svc, Secrets: []string{"c/s"}, PollInterval: -1, Logf: func(string, ...any) {}})
	if err != nil {
		panic(err)
	}
	defer st.Close()
	var pools []connPool
	up, err1 := setec.NewUpdater(context.Background(), st, "c/s", func(b []byte) (connPool, error) {
		p := connPool{{cred: string(b)}, {cred: string(b)}}
		pools = append(pools, p)
		return p, nil
	})
	var bundles []bundle
	ub, err2 := setec.NewUpdater(context.Background(), st, "c/s", func(b []byte) (bundle, error) {
		x := bundle{parts: []string{string(b)}, closed: new(int)}
		bundles = append(bundles, x)
		return x, nil
	})
	var ifaces []connPool
	ui, err3 := setec.NewUpdater(context.Background(), st, "c/s", func(b []byte) (io.Closer, error) {
		p := connPool{{cred: string(b)}}
		ifaces = append(ifaces, p)
		return p, nil
	})
	if err1 != nil || err2 != nil || err3 != nil {
		r.Violation("updater-fails", -1, fmt.Sprint(err1, err2, err3), nil)
		return
	}
	for v := uint32(2); v <= 4; v++ {
		want := fmt.Sprintf("cred-%d", v)
		svc.Set("c/s", v, []byte(want))
		st.Refresh(context.Background())
		r.Eval(1)
		r.Count("gets_of_closers_of_odd_types", 3)
		if p := func() (p any) {
			defer func() { p = recover() }()
			gp, gb, gi := up.Get(), ub.Get(), ui.Get()
			if len(gp) != 2 || gp[0].cred != want || len(gb.parts) != 1 || gb.parts[0] != want || gi.(connPool)[0].cred != want {
				r.Violation("update-lost", -1, fmt.Sprintf("after version %d was installed the updaters (slice type, struct-with-slice type, interface type) return %v / %v / %v", v, gp[0].cred, gb.parts, gi.(connPool)[0].cred), nil)
			}
			return nil
		}(); p != nil {
			r.Violation("get-panics", -1, fmt.Sprintf("Get of an updater whose value type is an io.Closer that is not comparable (a slice, a struct holding one, an interface holding one) panics after an install: %v", p), nil)
			return
		}
		// the replaced values are closed exactly once, the current ones not at all
		for i, p := range pools {
			wantClosed := 1
			if i == len(pools)-1 {
				wantClosed = 0
			}
			if p[0].closed != wantClosed {
				r.Violation("close-count-wrong", -1, fmt.Sprintf("slice-typed value #%d has been closed %d times, want %d", i, p[0].closed, wantClosed), nil)
				return
			}
		}
		for i, b := range bundles {
			wantClosed := 1
			if i == len(bundles)-1 {
				wantClosed = 0
			}
			if *b.closed != wantClosed {
				r.Violation("close-count-wrong", -1, fmt.Sprintf("struct-typed value #%d has been closed %d times, want %d", i, *b.closed, wantClosed), nil)
				return
			}
		}
	}
	r.Distinct("closers of odd types")
}
