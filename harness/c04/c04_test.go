// C04 — the database file update is all-or-nothing under crashes and I/O
// failures. Engine E5 (sysfault): a child process performs ONE real mutating
// call; a ptrace monitor logs every file-system call it makes on the state
// directory, checks the write-temp/flush/replace discipline, and then visits
// every such call as a kill point (before/after), as an error point, and every
// write as a real short write (with and without a kill).
package c04

import (
	"bytes"
	"encoding/json"
	"fmt"
	"os"
	"path/filepath"
	"runtime"
	"strings"
	"sync"
	"testing"
	"time"

	"verif/harness/internal/crashenum"
	"verif/harness/internal/evid"
	"verif/harness/internal/ops"
	"verif/harness/internal/realdb"
	"verif/harness/internal/refmodel"
	"verif/harness/internal/sysfault"
)

type scenario struct {
	Name   string   `json:"name"`
	Prefix []ops.Op `json:"-"`
	Create bool     `json:"create,omitempty"`
	Reopen bool     `json:"reopen,omitempty"` // the watched call is db.Open on an EXISTING database (a restart)
	Op     ops.Op   `json:"op"`

	preM, postM *refmodel.Model

	base   []byte // file before the call (nil = absent)
	pre    string // canonical state before
	post   string // canonical state after
	nTrace int
}

type report struct {
	Phase      string `json:"phase"`
	Err        string `json:"err"`
	Class      string `json:"class"`
	State      string `json:"state"`
	StateErr   string `json:"state_err"`
	GenBefore  uint64 `json:"gen_before"`
	GenAfter   uint64 `json:"gen_after"`
	FileState  string `json:"file_state"`
	RetryErr   string `json:"retry_err"`
	RetryClass string `json:"retry_class"`
	RetryState string `json:"retry_state"`
}

func big(n int, seed byte) []byte {
	b := make([]byte, n)
	x := uint32(seed) + 1
	for i := range b {
		x = x*1664525 + 1013904223
		b[i] = byte(x >> 24)
	}
	return b
}

func scenarios(thorough bool) []*scenario {
	mk := func(name string, prefix []ops.Op, op ops.Op) *scenario {
		return &scenario{Name: name, Prefix: prefix, Op: op}
	}
	put := func(n, v string) ops.Op { return ops.Op{Kind: ops.Put, Name: n, Value: []byte(v)} }
	three := []ops.Op{put("a", "a-one"), put("a", "a-two"), put("a", "a-three"), put("b", "b-one")}
	out := []*scenario{
		{Name: "create-database", Create: true},
		mk("first-put", three, put("fresh", "fresh-one")),
		mk("new-version", three, put("a", "a-four")),
		mk("activate", three, ops.Op{Kind: ops.Act, Name: "a", Version: 2}),
		mk("delete-version", three, ops.Op{Kind: ops.DelVer, Name: "a", Version: 3}),
		mk("delete", three, ops.Op{Kind: ops.Delete, Name: "a"}),
		mk("medium/new-version", []ops.Op{{Kind: ops.Put, Name: "blob", Value: big(150<<10, 7)}, put("a", "a-one")}, ops.Op{Kind: ops.Put, Name: "blob", Value: big(100<<10, 8)}),
	}
	// a credential rotated by automation: twenty versions of one secret, then the next one
	var rotated []ops.Op
	for i := 1; i <= 20; i++ {
		rotated = append(rotated, put("rot", fmt.Sprintf("rot-%d", i)))
	}
	rotated = append(rotated, put("a", "a-one"))
	out = append(out, mk("many-versions/new-version", rotated, put("rot", "rot-21")))
	// a restart: Open of a database that exists, under the same faults (a read that fails, a kill): whatever
	// Open reports, the file keeps holding what it held
	out = append(out, &scenario{Name: "reopen-existing-database", Prefix: three, Create: true, Reopen: true})
	if thorough {
		bigp := []ops.Op{{Kind: ops.Put, Name: "big", Value: big(3<<20, 1)}, {Kind: ops.Put, Name: "big", Value: big(2<<20, 2)}, put("a", "a-one"), put("a", "a-two")}
		out = append(out,
			mk("large/new-version", bigp, ops.Op{Kind: ops.Put, Name: "big", Value: big(1<<20, 3)}),
			mk("large/activate", bigp, ops.Op{Kind: ops.Act, Name: "big", Version: 2}),
			mk("large/delete-version", bigp, ops.Op{Kind: ops.DelVer, Name: "big", Version: 2}),
			mk("large/delete", bigp, ops.Op{Kind: ops.Delete, Name: "big"}),
			mk("first-put-into-empty", nil, put("only", "only-one")),
			mk("delete-last-secret", []ops.Op{put("only", "x")}, ops.Op{Kind: ops.Delete, Name: "only"}),
			mk("put-empty-value", three, ops.Op{Kind: ops.Put, Name: "a", Value: []byte{}}),
		)
	}
	return out
}

type job struct {
	sc    *scenario
	fault sysfault.Fault
	ev    sysfault.Event
}

func TestC04(t *testing.T) {
	r := evid.Start("C04", "fault_enumeration")
	defer r.Finish(t)
	r.Assume("crash model: process kill at system-call boundaries (and after a real short write); that fsync has returned before the rename is observed, what the kernel does on power loss is not",
		"injected errors are errnos the kernel can return for that call, delivered without executing the call; short writes are real (the count register is reduced), never fabricated return values",
		"verdicts are conditional on what the call reported: error => pre-call state everywhere, success => post-call state")
	if err := sysfault.Supported(); err != nil {
		t.Fatalf("sysfault unsupported: %v", err)
	}
	tmp := evid.TempDir(t)
	child, err := crashenum.BuildChild(tmp, "./cmd/dbchild")
	if err != nil {
		t.Fatal(err)
	}
	key := "c04-key"
	scs := scenarios(r.Thorough())
	// prepare: base file, pre and post states, fault-free trace
	var jobs []job
	for si, sc := range scs {
		sdir := filepath.Join(tmp, fmt.Sprintf("prep%d", si))
		os.MkdirAll(sdir, 0o700)
		live := filepath.Join(sdir, "db")
		m := refmodel.New()
		if !sc.Create || sc.Reopen {
			d, err := realdb.Open(live, realdb.DummyKey(key))
			if err != nil {
				t.Fatal(err)
			}
			for _, p := range sc.Prefix {
				ops.ApplyModel(m, nil, true, p)
				if res := ops.ApplyReal(d, realdb.Super(), p); res.Class != refmodel.OK {
					t.Fatalf("prefix op failed: %s", res.Err)
				}
			}
			sc.base, _ = os.ReadFile(live)
			sc.pre, sc.preM = m.Canon(), m.Clone()
			if !sc.Reopen {
				if res := ops.ApplyModel(m, nil, true, sc.Op); res.Class != refmodel.OK {
					t.Fatalf("scenario %s: model refuses the operation", sc.Name)
				}
			}
			sc.post, sc.postM = m.Canon(), m.Clone()
		} else {
			sc.pre, sc.post = "<no database>", ""
			sc.preM, sc.postM = refmodel.New(), refmodel.New()
		}
		// fault-free pass
		res, rep, err := runChild(child, sdir, key, sc, sysfault.Fault{})
		if err != nil {
			t.Fatalf("scenario %s: fault-free pass: %v", sc.Name, err)
		}
		if !res.SawBegin || !res.SawEnd || rep == nil || rep.Class != "ok" {
			t.Fatalf("scenario %s: fault-free pass did not complete: %+v %s", sc.Name, rep, res.Stderr)
		}
		sc.nTrace = len(res.Events)
		r.Count("syscalls_traced", len(res.Events))
		var trace []string
		for _, e := range res.Events {
			trace = append(trace, e.String())
		}
		if r.WantSample() {
			r.Sample(map[string]any{"scenario": sc.Name, "fault_free_trace": trace})
		}
		r.Eval(1)
		for _, complaint := range crashenum.Protocol(res.Events, live) {
			if sc.Reopen {
				break // (opening an existing database saves nothing: there is no write protocol to follow)
			}
			r.Violation("protocol", si, fmt.Sprintf("scenario %s: %s", sc.Name, complaint), map[string]any{"trace": trace})
		}
		if st := stateOf(live, key); st != sc.post {
			r.Violation("success-wrong-state", si, fmt.Sprintf("scenario %s: the call reported success but the file holds %s, want %s", sc.Name, st, sc.post), map[string]any{"trace": trace})
		}
		for _, f := range crashenum.Faults(res.Events, true) {
			jobs = append(jobs, job{sc, f, res.Events[f.At-1]})
		}
		os.RemoveAll(sdir)
	}
	// enumerate
	var wg sync.WaitGroup
	jc := make(chan job)
	nw := runtime.NumCPU()
	for w := 0; w < nw; w++ {
		wg.Add(1)
		go func(w int) {
			defer wg.Done()
			wdir := filepath.Join(tmp, fmt.Sprintf("w%d", w))
			for j := range jc {
				os.RemoveAll(wdir)
				os.MkdirAll(wdir, 0o700)
				visit(r, child, wdir, key, j)
			}
		}(w)
	}
	for ji, j := range jobs {
		if r.Skip(ji) {
			continue
		}
		jc <- j
	}
	close(jc)
	wg.Wait()
	if r.Only < 0 {
		for i := 0; i < r.N(12, 60); i++ {
			overlappingSaves(t, r, tmp, i)
		}
	}
	r.Exhaustive(true)
	r.Require("failed_opens_of_an_existing_database", "overlapping_save_rounds_with_a_flaky_file_system", "overlapping_save_rounds", "kill_points", "errors_injected", "short_writes", "post_kill_pre_state", "post_kill_post_state", "errors_reported_by_call", "syscalls_traced")
	r.Rule("for each mutating operation kind (database creation, first put, new version, activate, delete-version, delete; thorough: also multi-megabyte databases and edge states) the fault-free system-call trace of the save is recorded, and EVERY watched call of it is visited as kill-before, kill-after, each errno of a per-syscall list, and for writes as short write (1, half, len-1 bytes) with and without a kill. Distinct = (scenario, syscall, fault kind). exhaustive refers to the syscall-boundary enumeration of each recorded trace")
}

func stateOf(path, key string) string {
	if _, err := os.Stat(path); err != nil {
		return "<no database>"
	}
	d, err := realdb.Open(path, realdb.DummyKey(key))
	if err != nil {
		return "<unreadable: " + err.Error() + ">"
	}
	m, err := realdb.Dump(d)
	if err != nil {
		return "<inconsistent: " + err.Error() + ">"
	}
	return m.Canon()
}

func runChild(child, dir, key string, sc *scenario, f sysfault.Fault) (*sysfault.Result, *report, error) {
	live := filepath.Join(dir, "db")
	if sc.base != nil {
		if err := os.WriteFile(live, sc.base, 0o600); err != nil {
			return nil, nil, err
		}
	}
	spec, _ := json.Marshal(map[string]any{"path": live, "key": key, "create": sc.Create, "op": sc.Op})
	specFile := dir + ".spec.json" // next to, not inside, the watched directory
	if err := os.WriteFile(specFile, spec, 0o600); err != nil {
		return nil, nil, err
	}
	defer os.Remove(specFile)
	res, err := sysfault.Run([]string{child, "@" + specFile}, append(os.Environ(), "GOMAXPROCS=2"), dir, f, crashenum.Timeout)
	if err != nil {
		return res, nil, err
	}
	var rep *report
	if line := bytes.TrimSpace(res.Stdout); len(line) > 0 {
		rep = &report{}
		if json.Unmarshal(line, rep) != nil {
			rep = nil
		}
	}
	return res, rep, nil
}

func visit(r *evid.Run, child, dir, key string, j job) {
	sc, f := j.sc, j.fault
	live := filepath.Join(dir, "db")
	res, rep, err := runChild(child, dir, key, sc, f)
	r.Eval(1)
	what := fmt.Sprintf("scenario %s, %s at call %s", sc.Name, f.Kind, j.ev)
	if f.Kind == sysfault.Errno {
		what += " errno=" + f.Errno.Error()
	}
	if f.Kind == sysfault.Short || f.Kind == sysfault.ShortKill {
		what += fmt.Sprintf(" short=%d", f.ShortLen)
	}
	var trace []string
	if res != nil {
		for _, e := range res.Events {
			trace = append(trace, e.String())
		}
	}
	detail := map[string]any{"scenario": sc.Name, "fault": crashenum.FaultString(f), "trace": trace, "report": rep}
	if err != nil {
		r.Inconclusive(what + ": " + err.Error())
		return
	}
	if !res.FaultFired {
		// the trace of this run differed (fewer calls): nothing was injected
		r.Inconclusive(what + ": the fault point was not reached in this run")
		return
	}
	r.Distinct(fmt.Sprintf("%s/%s/%s", sc.Name, j.ev.Name, f.Kind))
	for _, complaint := range crashenum.InPlace(res.Events, live) {
		r.Violation("live-file-written-in-place", -1, what+": "+complaint, detail)
	}
	fileState := stateOf(live, key)
	switch f.Kind {
	case sysfault.KillBefore, sysfault.KillAfter, sysfault.ShortKill:
		r.Count("kill_points", 1)
		switch fileState {
		case sc.pre:
			r.Count("post_kill_pre_state", 1)
		case sc.post:
			r.Count("post_kill_post_state", 1)
		default:
			r.Violation("crash-leaves-bad-file", -1, fmt.Sprintf("%s: after the kill the database file holds %s; pre-call state %s, post-call state %s", what, fileState, sc.pre, sc.post), detail)
			return
		}
		// The server restarts in the same directory (whatever the killed save left behind is still there)
		// and handles one more mutating call, chosen to make the database smaller: that call, too, must
		// leave exactly its post-state in the file.
		m := sc.preM.Clone()
		if fileState == sc.post {
			m = sc.postM.Clone()
		}
		follow := ops.Op{Kind: ops.Put, Name: "after-restart", Value: []byte("x")}
		bigName, bigSize := "", -1
		for n, s := range m.S {
			sz := 0
			for _, v := range s.Versions {
				sz += len(v)
			}
			if sz > bigSize {
				bigName, bigSize = n, sz
			}
		}
		if bigName != "" {
			follow = ops.Op{Kind: ops.Delete, Name: bigName}
		}
		d, err := realdb.Open(live, realdb.DummyKey(key))
		if err != nil {
			r.Violation("restart-after-crash-fails", -1, fmt.Sprintf("%s: the database does not open after the crash: %v", what, err), detail)
			return
		}
		ops.ApplyModel(m, nil, true, follow)
		got := ops.ApplyReal(d, realdb.Super(), follow)
		after := stateOf(live, key)
		r.Count("restarts_after_kill", 1)
		if got.Class != refmodel.OK || after != m.Canon() {
			detail["follow_up"] = follow.String()
			r.Violation("save-after-crash-corrupts", -1, fmt.Sprintf("%s: after restarting in the same directory, %s returned %s and the file then holds %s, want %s", what, follow, got, after, m.Canon()), detail)
		}
		return
	}
	// the process lived on: judge by what the call reported
	if f.Kind == sysfault.Errno {
		r.Count("errors_injected", 1)
	} else {
		r.Count("short_writes", 1)
	}
	if rep == nil {
		r.Violation("child-crashed", -1, fmt.Sprintf("%s: the process running the operation died (exit %d): %s", what, res.ExitCode, firstLine(res.Stderr)), detail)
		return
	}
	if rep.Class == "ok" {
		// the fault was tolerated (e.g. an ignored stat error, or a short write that was continued)
		if fileState != sc.post {
			r.Violation("success-wrong-state", -1, fmt.Sprintf("%s: the call reported success but the file holds %s, want %s", what, fileState, sc.post), detail)
		}
		if !sc.Create && rep.State != sc.post {
			r.Violation("success-wrong-served-state", -1, fmt.Sprintf("%s: the call reported success but the running process serves %s, want %s", what, rep.State, sc.post), detail)
		}
		r.Count("faults_tolerated", 1)
		return
	}
	r.Count("errors_reported_by_call", 1)
	if sc.Reopen {
		// Open failed (and the child tried once more): the database is what it was
		r.Count("failed_opens_of_an_existing_database", 1)
		if fileState != sc.pre {
			r.Violation("failed-open-changed-the-database", -1, fmt.Sprintf("%s: Open reported %q (the retry: %s %s); afterwards the file holds %s, it held %s", what, rep.Err, rep.RetryClass, rep.RetryErr, fileState, sc.pre), detail)
		}
		return
	}
	if sc.Create {
		// pre-call state = no database; the failed creation must not leave a half-made live file behind
		if _, err := os.Stat(live); err == nil {
			// after the child's retry the file may legitimately exist; judge the retry instead
			if rep.RetryClass != "ok" {
				r.Violation("error-then-stuck", -1, fmt.Sprintf("%s: creation failed (%s) and the retry failed too: %s", what, rep.Err, rep.RetryErr), detail)
			} else if fileState != "" {
				r.Violation("error-leaves-bad-file", -1, fmt.Sprintf("%s: after a failed creation and a retry the file holds %s", what, fileState), detail)
			}
		} else if rep.RetryClass == "ok" {
			r.Violation("retry-created-nothing", -1, what+": the retried creation reported success but there is no file", detail)
		}
		return
	}
	// The child retried the operation after reporting the error; the file therefore shows the retry's effect.
	// What the failed call itself did to the running process is in rep.State (dumped before the retry).
	if rep.StateErr != "" || rep.State != sc.pre {
		r.Violation("error-changed-served-state", -1, fmt.Sprintf("%s: the call reported %q but the running process then serves %s%s, pre-call state was %s", what, rep.Err, rep.State, rep.StateErr, sc.pre), detail)
	}
	if rep.FileState != sc.pre {
		r.Violation("error-changed-file", -1, fmt.Sprintf("%s: the call reported %q but the file then holds %s, pre-call state was %s", what, rep.Err, rep.FileState, sc.pre), detail)
	}
	if rep.RetryClass != "ok" && rep.RetryClass != "notfound" {
		r.Violation("error-then-stuck", -1, fmt.Sprintf("%s: after the reported error a later call does not succeed: %s", what, rep.RetryErr), detail)
	} else if rep.RetryState != sc.post || fileState != sc.post {
		r.Violation("retry-wrong-state", -1, fmt.Sprintf("%s: after the reported error the retried call leaves served state %s / file %s, want %s", what, rep.RetryState, fileState, sc.post), detail)
	}
}

func firstLine(b []byte) string {
	s := strings.TrimSpace(string(b))
	if i := strings.IndexByte(s, '\n'); i >= 0 {
		s = s[:i]
	}
	return s
}

// overlappingSaves: the all-or-nothing claim is per call, also when calls overlap. Rounds of G concurrent
// calls of ONE kind on G different secrets (so whatever lock mode that kind takes, its instances meet each
// other); some rounds with the file system failing. After each round (quiescence) the file, opened afresh,
// must hold exactly what the running process serves: every call that reported success is in it, every call
// that reported an error is not.
func overlappingSaves(t *testing.T, r *evid.Run, tmp string, idx int) {
	dir := filepath.Join(tmp, fmt.Sprintf("overlap%d", idx), "state")
	os.MkdirAll(dir, 0o700)
	path := filepath.Join(dir, "db")
	key := realdb.DummyKey("c04-overlap")
	d, err := realdb.Open(path, key)
	if err != nil {
		t.Fatal(err)
	}
	su := realdb.Super()
	rng := r.Rand(uint64(5000 + idx))
	const G = 8
	// the size of the database decides how long a save takes relative to the calls' arrival times
	filler := big([]int{0, 1 << 12, 1 << 16}[idx%3], byte(idx))
	for g := 0; g < G; g++ {
		for v := 0; v < 4; v++ {
			d.Put(su, fmt.Sprintf("s%d", g), append([]byte(fmt.Sprintf("%d-%d-", g, v)), filler...))
		}
	}
	kinds := []ops.Kind{ops.Act, ops.Put, ops.DelVer, ops.Act, ops.Delete, ops.Put, ops.Act}
	var lastRound time.Duration
	for round := 0; round < 14; round++ {
		kind := kinds[rng.IntN(len(kinds))]
		broken := rng.IntN(5) == 0
		results := make([]ops.Result, G)
		oplist := make([]ops.Op, G)
		run := func() {
			var wg sync.WaitGroup
			start := make(chan struct{})
			for g := 0; g < G; g++ {
				op := ops.Op{Kind: kind, Name: fmt.Sprintf("s%d", g)}
				switch kind {
				case ops.Act, ops.DelVer:
					op.Version = uint32(1 + rng.IntN(4))
				case ops.Put:
					op.Value = append([]byte(fmt.Sprintf("r%d-%d-", round, g)), filler...)
				}
				oplist[g] = op
				delay := time.Duration(rng.IntN(1500)) * time.Microsecond // calls arrive while others are mid-save
				if rng.IntN(3) == 0 {
					delay = 0
				}
				wg.Add(1)
				go func(g int) {
					defer wg.Done()
					<-start
					for t0 := time.Now(); time.Since(t0) < delay; {
					}
					results[g] = ops.ApplyReal(d, su, oplist[g])
				}(g)
			}
			close(start)
			wg.Wait()
		}
		// "broken": the file system fails for the whole round; "flaky": only for a short window in the middle of
		// it, so that some of the overlapping calls fail while others, snapshotting at that very moment, succeed
		flaky := !broken && rng.IntN(2) == 0
		switch {
		case broken:
			realdb.BreakDir(path, run)
		case flaky:
			done := make(chan struct{})
			// the window is placed relative to how long a round of this size took last time
			span := lastRound
			if span < 200*time.Microsecond {
				span = 200 * time.Microsecond
			}
			before, length := time.Duration(rng.Int64N(int64(span))), span/10+time.Duration(rng.Int64N(int64(span/2)))
			go func() {
				defer close(done)
				for t0 := time.Now(); time.Since(t0) < before; {
				}
				realdb.BreakDir(path, func() {
					for t0 := time.Now(); time.Since(t0) < length; {
					}
				})
			}()
			run()
			<-done
			r.Count("overlapping_save_rounds_with_a_flaky_file_system", 1)
		default:
			t0 := time.Now()
			run()
			lastRound = time.Since(t0)
		}
		r.Eval(1)
		r.Count("overlapping_save_rounds", 1)
		r.Distinct(fmt.Sprintf("overlapping %s x%d broken-fs=%t flaky-fs=%t", kind, G, broken, flaky))
		live, err := realdb.Dump(d)
		if err != nil {
			r.Violation("live-state-inconsistent", -1, fmt.Sprintf("overlap case %d round %d (%s): %v", idx, round, kind, err), nil)
			return
		}
		d2, err := realdb.Open(path, key)
		if err != nil {
			r.Violation("file-does-not-open", -1, fmt.Sprintf("overlap case %d: after %d concurrent %s calls the file does not open: %v", idx, G, kind, err), nil)
			return
		}
		file, err := realdb.Dump(d2)
		if err != nil || file.Canon() != live.Canon() {
			var lines []string
			for g := range oplist {
				lines = append(lines, fmt.Sprintf("%s -> %s", oplist[g], results[g]))
			}
			r.Violation("file-differs-from-served-state", -1, fmt.Sprintf("overlap case %d round %d: after %d concurrent %s calls (file system broken=%t) have all returned, the file holds a mixture: it differs from what the process serves (err %v)", idx, round, G, kind, broken, err),
				map[string]any{"calls": lines, "served": live.Canon(), "file": func() string {
					if file != nil {
						return file.Canon()
					}
					return ""
				}()})
			return
		}
		if kind == ops.Delete {
			for g := 0; g < G; g++ { // re-create what was deleted
				for v := 0; v < 3; v++ {
					d.Put(su, fmt.Sprintf("s%d", g), append([]byte(fmt.Sprintf("again%d-%d-%d-", round, g, v)), filler...))
				}
			}
		}
	}
}
