// C08 — the HTTP front door rejects ill-formed or unidentified requests
// without side effects. The real handlers registered by server.New are driven
// in-process over the product of endpoints x methods x content types x
// browser header x WhoIs answers x bodies; gate violations must leave state
// and audit sink untouched; accepted requests are checked against the
// reference model + ACL computed from the scripted capability map; a subset
// goes through the real setec.Client for the client-side error mapping.
package c08

import (
	"bytes"
	"context"
	"encoding/base64"
	"encoding/json"
	"errors"
	"fmt"
	"math/rand/v2"
	"net/http"
	"net/http/httptest"
	"net/netip"
	"path/filepath"
	"strings"
	"sync"
	"sync/atomic"
	"testing"
	"testing/synctest"
	"time"

	"github.com/tailscale/setec/audit"
	"github.com/tailscale/setec/client/setec"
	"github.com/tailscale/setec/db"
	"github.com/tailscale/setec/server"
	"github.com/tailscale/setec/types/api"
	"tailscale.com/client/local"
	"tailscale.com/client/tailscale/apitype"
	"tailscale.com/tailcfg"

	"verif/harness/internal/evid"
	"verif/harness/internal/httpdrv"
	"verif/harness/internal/ops"
	"verif/harness/internal/realdb"
	"verif/harness/internal/refmodel"
)

type sink struct {
	mu   sync.Mutex
	buf  bytes.Buffer
	recs int
}

func (s *sink) Write(p []byte) (int, error) {
	s.mu.Lock()
	defer s.mu.Unlock()
	s.recs += bytes.Count(p, []byte("\n"))
	return s.buf.Write(p)
}
func (s *sink) size() int { s.mu.Lock(); defer s.mu.Unlock(); return s.buf.Len() }
func (s *sink) tail(from int) []byte {
	s.mu.Lock()
	defer s.mu.Unlock()
	return append([]byte(nil), s.buf.Bytes()[from:]...)
}

var endpoints = []ops.Kind{ops.Get, ops.Put, ops.List, ops.Info, ops.Act, ops.DelVer, ops.Delete}
var methods = []string{"POST", "GET", "PUT", "DELETE", "HEAD", "OPTIONS", "PATCH"}
var ctypes = []string{"application/json", "application/json; charset=utf-8", "text/plain", "", "application/x-www-form-urlencoded", "Application/JSON"}
var browserHdr = []string{"setec", "", "other", "Setec", "setec "}
var whoKinds = []string{"user", "tagged", "anonymous", "error", "plain-cap", "https-cap", "both-caps", "malformed-grant", "wrong-type-grant", "empty-grants", "no-caps", "bad-remote-addr", "restricted", "https-malformed", "plain-empty-https-malformed", "https-wrong-type", "plain-ok-https-malformed",
	"tagged-with-owner-profile", "wide-grants", "wide-grants-2", "wide-grants-3", "error-peer-not-found", "error-peer-not-found-wrapped", "error-deadline", "error-access-denied"}
var bodyKinds = []string{"valid", "null", "empty-object", "truncated", "wrong-types", "extra-fields", "huge-version", "trailing-garbage", "empty", "whitespace", "not-json", "array", "lowercase-fields"}

type req struct {
	Endpoint ops.Kind `json:"endpoint"`
	Method   string   `json:"method"`
	CType    string   `json:"content_type"`
	Browser  string   `json:"browser_header"`
	Who      string   `json:"whois"`
	Body     string   `json:"body_kind"`
	Op       ops.Op   `json:"op"`
}

var fullRules = []refmodel.Rule{{Actions: []string{"get", "info", "put", "activate", "delete"}, Patterns: []string{"*"}}}
var restrictedRules = []refmodel.Rule{{Actions: []string{"get"}, Patterns: []string{"m/a"}}, {Actions: []string{"info", "put"}, Patterns: []string{"m/*"}}}

// whoAnswer scripts the tailnet. It returns the response/error and the rules + principal the server must apply (ok=false: unidentifiable).
func whoAnswer(kind string) (resp *apitype.WhoIsResponse, err error, rules []refmodel.Rule, ok bool) {
	raw := func(rs []refmodel.Rule) []tailcfg.RawMessage {
		var out []tailcfg.RawMessage
		for _, r := range rs {
			b, _ := json.Marshal(r)
			out = append(out, tailcfg.RawMessage(b))
		}
		return out
	}
	base := func() *apitype.WhoIsResponse {
		return &apitype.WhoIsResponse{Node: &tailcfg.Node{Name: "node-" + kind + ".verif."}, UserProfile: &tailcfg.UserProfile{LoginName: kind + "@verif"}, CapMap: tailcfg.PeerCapMap{}}
	}
	const httpsCap = tailcfg.PeerCapability("https://" + string(server.ACLCap))
	switch kind {
	case "user", "plain-cap", "bad-remote-addr":
		w := base()
		w.CapMap[server.ACLCap] = raw(fullRules)
		return w, nil, fullRules, true
	case "restricted":
		w := base()
		w.CapMap[server.ACLCap] = raw(restrictedRules)
		return w, nil, restrictedRules, true
	case "tagged":
		w := base()
		w.Node.Tags = []string{"tag:server", "tag:prod"}
		w.UserProfile.LoginName = "" // tagged nodes have no login
		w.CapMap[server.ACLCap] = raw(fullRules)
		return w, nil, fullRules, true
	case "anonymous":
		w := base()
		w.UserProfile.LoginName = ""
		w.CapMap[server.ACLCap] = raw(fullRules)
		return w, nil, nil, false
	case "error":
		return nil, errors.New("tailscaled: no such peer"), nil, false
	case "error-peer-not-found": // what the real local client answers for an address outside the tailnet
		return nil, local.ErrPeerNotFound, nil, false
	case "error-peer-not-found-wrapped":
		return nil, fmt.Errorf("whois %w (HTTP 404)", local.ErrPeerNotFound), nil, false
	case "error-deadline":
		return nil, fmt.Errorf("whois: %w", context.DeadlineExceeded), nil, false
	case "error-access-denied":
		return nil, &local.AccessDeniedError{}, nil, false
	case "tagged-with-owner-profile": // the control plane gives tagged nodes the shared owner profile
		w := base()
		w.Node.Tags = []string{"tag:ci"}
		w.UserProfile.LoginName = "tagged-devices"
		w.CapMap[server.ACLCap] = raw(restrictedRules)
		return w, nil, restrictedRules, true
	case "https-cap":
		w := base()
		w.CapMap[httpsCap] = raw(fullRules)
		return w, nil, fullRules, true
	case "both-caps": // the plain name wins; the https-prefixed one is only a fallback
		w := base()
		w.CapMap[server.ACLCap] = raw(restrictedRules)
		w.CapMap[httpsCap] = raw(fullRules)
		return w, nil, restrictedRules, true
	case "malformed-grant":
		w := base()
		w.CapMap[server.ACLCap] = []tailcfg.RawMessage{`{"action":["get"],"secret":["*"]`}
		return w, nil, nil, false
	case "wrong-type-grant":
		w := base()
		w.CapMap[server.ACLCap] = []tailcfg.RawMessage{`"everything"`}
		return w, nil, nil, false
	case "https-malformed": // nothing under the plain name, an unparsable grant under the legacy name
		w := base()
		w.CapMap[httpsCap] = []tailcfg.RawMessage{`{"action":"get","secret":["*"]}`}
		return w, nil, nil, false
	case "plain-empty-https-malformed":
		w := base()
		w.CapMap[server.ACLCap] = []tailcfg.RawMessage{}
		w.CapMap[httpsCap] = append(raw(fullRules), tailcfg.RawMessage(`[1,2]`))
		return w, nil, nil, false
	case "https-wrong-type":
		w := base()
		w.CapMap[httpsCap] = []tailcfg.RawMessage{`17`}
		return w, nil, nil, false
	case "plain-ok-https-malformed": // the plain name yields rules, so the legacy name is never looked at
		w := base()
		w.CapMap[server.ACLCap] = raw(restrictedRules)
		w.CapMap[httpsCap] = []tailcfg.RawMessage{`{"action":`}
		return w, nil, restrictedRules, true
	case "wide-grants", "wide-grants-2", "wide-grants-3":
		// several rules, the first naming several actions over an odd number of patterns, later ones adding
		// patterns for one of those actions each: the rules apply exactly as written
		rs := []refmodel.Rule{{Actions: []string{"get", "info"}, Patterns: []string{"m/a", "zz/1", "zz/2"}}, {Actions: []string{"get"}, Patterns: []string{"zz/3"}}, {Actions: []string{"info"}, Patterns: []string{"*"}}}
		if kind == "wide-grants-2" {
			rs = []refmodel.Rule{{Actions: []string{"info", "get", "put"}, Patterns: []string{"zz/1", "zz/2", "m/b"}}, {Actions: []string{"info"}, Patterns: []string{"zz/3"}}, {Actions: []string{"put"}, Patterns: []string{"m/*"}}, {Actions: []string{"get"}, Patterns: []string{"other"}}}
		}
		if kind == "wide-grants-3" {
			// patterns with literal text on both sides of the wildcard, over names in which those literals
			// would have to overlap to "match": m/*/a is not a grant on m/a, ot*ther none on other
			rs = []refmodel.Rule{{Actions: []string{"get", "info", "put", "activate", "delete"}, Patterns: []string{"m/*/a", "ot*ther", "m/b*b"}}, {Actions: []string{"info"}, Patterns: []string{"m/*b"}}}
		}
		w := base()
		w.CapMap[server.ACLCap] = raw(rs)
		return w, nil, rs, true
	case "empty-grants":
		w := base()
		w.CapMap[server.ACLCap] = []tailcfg.RawMessage{}
		return w, nil, nil, true
	case "no-caps":
		return base(), nil, nil, true
	}
	panic(kind)
}

func body(rng *rand.Rand, kind string, op ops.Op) []byte {
	_, good := httpdrv.Request(op)
	switch kind {
	case "valid":
		return good
	case "null":
		return []byte("null")
	case "empty-object":
		return []byte("{}")
	case "truncated":
		if len(good) > 2 {
			return good[:1+rng.IntN(len(good)-1)]
		}
		return []byte("{")
	case "wrong-types":
		return []byte(`{"Name":5,"Version":"one","Value":17}`)
	case "extra-fields":
		var m map[string]any
		json.Unmarshal(good, &m)
		if m == nil {
			m = map[string]any{}
		}
		m["Extra"] = "x"
		m["AnotherOne"] = []int{1, 2}
		b, _ := json.Marshal(m)
		return b
	case "huge-version":
		return []byte(fmt.Sprintf(`{"Name":%q,"Version":4294967296,"Value":"eA=="}`, op.Name))
	case "trailing-garbage":
		return append(append([]byte(nil), good...), " trailing garbage"...)
	case "padded":
		// a well-formed request followed by megabytes of white space (still one JSON value): a server may refuse
		// it for its size, cleanly, or serve it
		return append(append([]byte(nil), good...), bytes.Repeat([]byte(" \n"), 2<<20+2<<19)...)
	case "empty":
		return nil
	case "whitespace":
		return []byte(" \n\t ")
	case "not-json":
		return []byte("Name=a&Value=b")
	case "array":
		return []byte(`["a",1]`)
	case "lowercase-fields":
		return []byte(strings.NewReplacer(`"Name"`, `"name"`, `"Version"`, `"version"`, `"Value"`, `"value"`, `"UpdateIfChanged"`, `"updateifchanged"`).Replace(string(good)))
	}
	panic(kind)
}

func marker(rng *rand.Rand) []byte {
	b := make([]byte, 18)
	for i := range b {
		b[i] = byte(rng.IntN(256))
	}
	return b
}

func leaks(data []byte, markers [][]byte) bool {
	for _, m := range markers {
		e := base64.StdEncoding.EncodeToString(m)
		if bytes.Contains(data, m) || bytes.Contains(data, []byte(e)) || bytes.Contains(data, []byte(base64.RawURLEncoding.EncodeToString(m))) {
			return true
		}
	}
	return false
}

func TestC08(t *testing.T) {
	r := evid.Start("C08", "exploration")
	defer r.Finish(t)
	r.Assume("WhoIs answers keep Node and UserProfile non-nil (as tailscaled does)",
		"bodies the property does not classify (null, {}, unknown extra fields, field names in another case, a JSON value followed by trailing garbage) are grey: either a 4xx without side effects or the mapping for the decoded request is accepted")
	dir := evid.TempDir(t)
	nStates := r.N(2, 5)
	for stIdx := 0; stIdx < nStates; stIdx++ {
		runState(t, r, dir, stIdx)
	}
	if r.Only < 0 {
		concurrentReplies(t, r, dir)
		sharedConditional(t, r, dir)
		slowStore(t, r, dir)
	}
	r.Require("gate_violations", "accepted_requests", "accepted_200", "accepted_304", "accepted_403", "accepted_404", "accepted_other_error", "unidentified_callers", "client_mapping_checks", "audit_principals_checked", "grey_bodies", "concurrent_replies_checked", "overlapping_conditional_gets", "padded_bodies", "requests_against_a_slow_store", "requests_claiming_another_source")
	r.Rule("requests = product of 7 endpoints x 7 methods x 6 content types x 5 browser-header values x 17 WhoIs scripts x 13 body kinds, enumerated completely for /api/get and /api/put on every database state and sampled (seeded) for the other endpoints, all from ONE source address per state so that identity must be re-derived per request. Distinct = (endpoint, first violated gate or outcome class, status)")
}

func runState(t *testing.T, r *evid.Run, dir string, stIdx int) {
	rng := r.Rand(uint64(stIdx))
	snk := &sink{}
	d, err := db.Open(filepath.Join(dir, fmt.Sprintf("s%d.db", stIdx)), realdb.DummyKey("c08"), audit.New(snk))
	if err != nil {
		t.Fatal(err)
	}
	srv, err := httpdrv.New(d)
	if err != nil {
		t.Fatal(err)
	}
	curWho := "user"
	// the requests of this state come from one source address: a tailnet address, or loopback (a client on the
	// server's own host). The tailnet answers for THAT address as scripted; about any other address it knows an
	// administrator - so a server that lets the request say where it comes from hands out the administrator's rights.
	remote := []string{"100.101.102.103:41641", "127.0.0.1:41641", "[::1]:41641"}[stIdx%3]
	remoteIP := netip.MustParseAddrPort(remote).Addr()
	srv.Override = func(ctx context.Context, addr string) (*apitype.WhoIsResponse, error) {
		if ap, err := netip.ParseAddrPort(addr); err == nil && ap.Addr().Unmap() != remoteIP {
			return httpdrv.WhoResponse(httpdrv.Who{Login: "admin@verif", Node: "admin", Rules: fullRules}, server.ACLCap), nil
		}
		resp, err, _, _ := whoAnswer(curWho)
		return resp, err
	}
	m := refmodel.New()
	su := realdb.Super()
	var markers [][]byte
	names := []string{"m/a", "m/b", "other"}
	for i := 0; i < 3+stIdx; i++ {
		op := ops.Op{Kind: ops.Put, Name: names[i%3], Value: marker(rng)}
		markers = append(markers, op.Value)
		ops.ApplyModel(m, nil, true, op)
		ops.ApplyReal(d, su, op)
	}
	genOp := func(k ops.Kind) ops.Op {
		op := ops.Op{Kind: k}
		if k == ops.List {
			return op
		}
		op.Name = append(names, "absent", "")[rng.IntN(5)]
		switch k {
		case ops.Put:
			op.Value = marker(rng)
		case ops.Act, ops.DelVer:
			op.Version = ops.GenVersion(rng, m, op.Name)
		case ops.Get:
			switch rng.IntN(3) {
			case 1:
				op.Kind, op.Version = ops.GetVer, ops.GenVersion(rng, m, op.Name)
			case 2:
				op.Kind, op.Version = ops.GetCond, ops.GenVersion(rng, m, op.Name)
			}
		}
		return op
	}
	path := func(k ops.Kind) string { p, _ := httpdrv.Request(ops.Op{Kind: k}); return p }
	caseNo := 0
	dead := false // after a violation that desynchronises model and store, the rest of this state is skipped
	one := func(q req) {
		if dead {
			return
		}
		if q.Body == "huge-version" && (q.Endpoint == ops.Put || q.Endpoint == ops.Info || q.Endpoint == ops.Delete || q.Endpoint == ops.List) {
			q.Body = "extra-fields" // these requests have no Version field: it is just an unknown extra field
		}
		if q.Body == "wrong-types" && q.Endpoint == ops.List {
			q.Body = "extra-fields" // the list request has no fields at all
		}
		caseNo++
		ci := stIdx*10_000_000 + caseNo
		if r.Skip(ci) {
			return
		}
		r.Eval(1)
		curWho = q.Who
		_, _, rules, identified := whoAnswer(q.Who)
		addr := remote
		if q.Who == "bad-remote-addr" {
			addr = "not-an-address"
			identified = false
		}
		if q.Op.Kind == ops.Put {
			markers = append(markers, q.Op.Value)
		}
		b := body(rng, q.Body, q.Op)
		hdr := map[string]string{}
		if q.CType != "" {
			hdr["Content-Type"] = q.CType
		}
		if q.Browser != "" {
			hdr["Sec-X-Tailscale-No-Browsers"] = q.Browser
		}
		if caseNo%3 == 0 {
			// the request claims, in headers, to come from the administrator's address
			for k, v := range httpdrv.SpoofHeaders("100.99.99.99", "admin@verif")[(caseNo/3)%7] {
				hdr[k] = v
			}
			r.Count("requests_claiming_another_source", 1)
		}
		before := snk.size()
		pre := m.Clone()
		rep := srv.Raw(q.Method, path(q.Endpoint), addr, hdr, b)
		auditBytes := snk.tail(before)
		fail := func(key, msg string) {
			r.Violation(key, ci, fmt.Sprintf("state %d request %d (%s %s, ctype %q, browser %q, whois %s, body %s %q): %s -> %d %q", stIdx, caseNo, q.Method, path(q.Endpoint), q.CType, q.Browser, q.Who, q.Body, b, msg, rep.Status, rep.Body),
				map[string]any{"request": q, "body": string(b), "status": rep.Status, "reply": string(rep.Body)})
		}
		if caseNo%4000 == 1 {
			r.Sample(map[string]any{"state": stIdx, "request": q, "body": string(b), "status": rep.Status, "reply": string(rep.Body), "audit_bytes_written": len(auditBytes)})
		}
		gate := ""
		switch {
		case q.Method != "POST":
			gate = "method"
		case q.CType != "application/json":
			gate = "content-type"
		case q.Browser != "setec":
			gate = "browser-header"
		case !identified:
			gate = "identity"
		case q.Body == "truncated" || q.Body == "wrong-types" || q.Body == "huge-version" || q.Body == "empty" || q.Body == "whitespace" || q.Body == "not-json":
			gate = "body"
		}
		checkUnchanged := func(what string) bool {
			real, err := realdb.Dump(d) // note: the dump itself writes audit records as the superuser
			if err != nil || real.Canon() != pre.Canon() {
				fail(what+"-changed-state", fmt.Sprintf("the store changed (%v)", err))
				dead = true
				return false
			}
			return true
		}
		if rep.Status != 200 && leaks(rep.Body, markers) {
			fail("non-200-carries-secret", "a non-200 reply contains secret bytes")
		}
		if gate != "" {
			r.Count("gate_violations", 1)
			if gate == "identity" {
				r.Count("unidentified_callers", 1)
			}
			r.Distinct(fmt.Sprintf("%s gate=%s status=%d", q.Endpoint, gate, rep.Status))
			if rep.Status >= 200 && rep.Status < 300 {
				fail("gate-"+gate+"-answered-2xx", "a request violating the "+gate+" gate was answered 2xx")
			}
			if len(auditBytes) != 0 {
				fail("gate-"+gate+"-reached-store", fmt.Sprintf("a request violating the %s gate produced an audit record: %s", gate, auditBytes))
			}
			checkUnchanged("gate-" + gate)
			m = pre
			return
		}
		// accepted (or grey) request: what did the server decode?
		mop := q.Op
		grey := false
		switch q.Body {
		case "null", "empty-object", "array":
			mop = ops.Op{Kind: q.Op.Kind}
			if mop.Kind == ops.GetVer || mop.Kind == ops.GetCond {
				mop.Kind = ops.Get
			}
			grey = true
		case "extra-fields", "trailing-garbage", "lowercase-fields", "padded":
			grey = true
		}
		if mop.Kind == ops.GetVer && mop.Version == 0 {
			mop.Kind = ops.Get
		}
		if grey {
			r.Count("grey_bodies", 1)
			if rep.Status >= 400 && rep.Status < 500 && rep.Status != 403 && rep.Status != 404 && len(auditBytes) == 0 {
				if checkUnchanged("grey-rejection") {
					m = pre
					r.Distinct(fmt.Sprintf("%s grey=%s rejected", q.Endpoint, q.Body))
					return
				}
			}
		}
		want := ops.ApplyModel(m, rules, false, mop)
		got, decoded := httpdrv.Interpret(mop, rep)
		r.Count("accepted_requests", 1)
		switch got.Class {
		case refmodel.OK:
			r.Count("accepted_200", 1)
		case refmodel.NotChanged:
			r.Count("accepted_304", 1)
		case refmodel.Denied:
			r.Count("accepted_403", 1)
		case refmodel.NotFound:
			r.Count("accepted_404", 1)
		default:
			r.Count("accepted_other_error", 1)
		}
		r.Distinct(fmt.Sprintf("%s accepted %s status=%d who=%s", q.Endpoint, want.Class, rep.Status, q.Who))
		if !decoded {
			fail("undecodable-200", "the 200 reply does not decode into the documented result")
		} else if !ops.Agree(want, got) {
			fail("status-mapping", fmt.Sprintf("outcome %s, the model (rules %v) says %s", got, rules, want))
			dead = true
		}
		if got.Class == refmodel.Other && (rep.Status < 400 || rep.Status == 403 || rep.Status == 404) {
			fail("status-mapping", "a failure other than denied/not-found must be some other 4xx/5xx")
		}
		if rep.Status == 304 && len(rep.Body) != 0 {
			fail("304-with-body", "a 304 reply has a body")
		}
		// the audit principal of whatever was recorded
		for _, line := range bytes.Split(bytes.TrimSpace(auditBytes), []byte("\n")) {
			if len(line) == 0 {
				continue
			}
			var e audit.Entry
			if err := json.Unmarshal(line, &e); err != nil {
				fail("audit-line-unparsable", string(line))
				continue
			}
			r.Count("audit_principals_checked", 1)
			resp, _, _, _ := whoAnswer(q.Who)
			wantUser, wantTags := resp.UserProfile.LoginName, resp.Node.Tags
			if len(wantTags) > 0 {
				wantUser = ""
			}
			if e.Principal.Hostname != resp.Node.Name || e.Principal.IP != remoteIP || e.Principal.User != wantUser || strings.Join(e.Principal.Tags, ",") != strings.Join(wantTags, ",") {
				fail("audit-principal", fmt.Sprintf("recorded principal %+v, the tailnet said node %q user %q tags %v", e.Principal, resp.Node.Name, wantUser, wantTags))
			}
		}
		real, err := realdb.Dump(d)
		if err != nil || real.Canon() != m.Canon() {
			fail("state-after-request", fmt.Sprintf("store state %v differs from the model", err))
			dead = true
		}
	}
	// complete product for /api/get and /api/put
	for _, ep := range []ops.Kind{ops.Get, ops.Put} {
		for _, me := range methods {
			for _, ct := range ctypes {
				for _, bh := range browserHdr {
					for _, wk := range whoKinds {
						for _, bk := range bodyKinds {
							// the full product is large; off-diagonal combinations of two or more violated gates are thinned out
							viol := 0
							if me != "POST" {
								viol++
							}
							if ct != "application/json" {
								viol++
							}
							if bh != "setec" {
								viol++
							}
							if viol >= 2 && rng.IntN(r.N(12, 4)) != 0 {
								continue
							}
							one(req{Endpoint: ep, Method: me, CType: ct, Browser: bh, Who: wk, Body: bk, Op: genOp(ep)})
						}
					}
				}
			}
		}
	}
	// the other endpoints: seeded sample biased to at most one violated gate
	for i, n := 0, r.N(6000, 30000); i < n; i++ {
		ep := endpoints[2+rng.IntN(5)]
		q := req{Endpoint: ep, Method: "POST", CType: "application/json", Browser: "setec", Who: whoKinds[rng.IntN(len(whoKinds))], Body: bodyKinds[rng.IntN(len(bodyKinds))], Op: genOp(ep)}
		switch rng.IntN(8) {
		case 0:
			q.Method = methods[rng.IntN(len(methods))]
		case 1:
			q.CType = ctypes[rng.IntN(len(ctypes))]
		case 2:
			q.Browser = browserHdr[rng.IntN(len(browserHdr))]
		case 3, 4, 5:
			q.Body = "valid"
		}
		one(q)
	}
	// over-long but well-formed bodies, on every endpoint
	for _, ep := range endpoints {
		for _, wk := range []string{"user", "restricted", "no-caps", "error", "tagged-with-owner-profile"} {
			one(req{Endpoint: ep, Method: "POST", CType: "application/json", Browser: "setec", Who: wk, Body: "padded", Op: genOp(ep)})
			r.Count("padded_bodies", 1)
		}
	}
	// well-formed requests from every kind of identified caller
	for i, n := 0, r.N(3000, 20000); i < n; i++ {
		ep := endpoints[rng.IntN(len(endpoints))]
		one(req{Endpoint: ep, Method: "POST", CType: "application/json", Browser: "setec", Body: "valid", Op: genOp(ep),
			Who: []string{"user", "tagged", "restricted", "https-cap", "both-caps", "empty-grants", "no-caps", "plain-cap", "tagged-with-owner-profile", "wide-grants", "wide-grants-2", "wide-grants-3"}[rng.IntN(12)]})
	}
	// client-side mapping through the real Client
	cl := setec.Client{Server: "http://setec.verif/", DoHTTP: srv.ClientDo(remote)}
	ctx := context.Background()
	for _, wk := range []string{"user", "restricted", "no-caps"} {
		curWho = wk
		_, _, rules, _ := whoAnswer(wk)
		for _, nme := range append(names, "absent") {
			for _, v := range []uint32{0, 1, 2, 99} {
				r.Count("client_mapping_checks", 1)
				r.Eval(1)
				mw, mc := refmodel.Value{}, refmodel.Denied
				if refmodel.Allowed(rules, "get", nme) {
					mw, mc = m.GetIfChanged(nme, v)
				}
				sv, err := cl.GetIfChanged(ctx, nme, api.SecretVersion(v))
				okv := false
				switch mc {
				case refmodel.OK:
					okv = err == nil && sv != nil && uint32(sv.Version) == mw.Version && string(sv.Value) == mw.Bytes
				case refmodel.NotChanged:
					okv = errors.Is(err, api.ErrValueNotChanged)
				case refmodel.NotFound:
					okv = errors.Is(err, api.ErrNotFound)
				case refmodel.Denied:
					okv = errors.Is(err, api.ErrAccessDenied)
				}
				if !okv {
					r.Violation("client-error-mapping", -1, fmt.Sprintf("Client.GetIfChanged(%q,%d) as %s: got (%v, %v), want class %s", nme, v, wk, sv, err, mc), nil)
				}
				r.Distinct(fmt.Sprintf("client %s", mc))
			}
		}
	}
}

// concurrentReplies: many clients over real loopback sockets, each allowed to read only its own
// secret, all at once: every reply must carry the caller's own secret and nobody else's.
func concurrentReplies(t *testing.T, r *evid.Run, dir string) {
	d, err := realdb.Open(filepath.Join(dir, "conc.db"), realdb.DummyKey("c08c"))
	if err != nil {
		t.Fatal(err)
	}
	const N = 32
	su := realdb.Super()
	rng := r.Rand(99)
	vals := make([][]byte, N)
	for i := range vals {
		vals[i] = append(marker(rng), bytes.Repeat([]byte{byte('A' + i%26)}, 6000+rng.IntN(64000))...)
		d.Put(su, fmt.Sprintf("own/%d", i), vals[i])
	}
	srv, err := httpdrv.New(d)
	if err != nil {
		t.Fatal(err)
	}
	// identity by header-free means: every client gets its own listener-side address only after connecting,
	// so permissions are keyed on the secret asked for: each peer address is registered on first sight
	var mu sync.Mutex
	next := 0
	assigned := map[string]int{}
	srv.Override = func(ctx context.Context, addr string) (*apitype.WhoIsResponse, error) {
		mu.Lock()
		i, ok := assigned[addr]
		if !ok {
			i = next % N
			next++
			assigned[addr] = i
		}
		mu.Unlock()
		return httpdrv.WhoResponse(httpdrv.Who{Login: fmt.Sprintf("peer%d@verif", i), Node: fmt.Sprintf("peer%d", i),
			Rules: []refmodel.Rule{{Actions: []string{"get"}, Patterns: []string{fmt.Sprintf("own/%d", i)}}}}, server.ACLCap), nil
	}
	hs := httptest.NewServer(srv.Mux)
	defer hs.Close()
	var wg sync.WaitGroup
	var bad atomic.Int32
	rounds := r.N(150, 1500)
	for c := 0; c < N; c++ {
		wg.Add(1)
		go func(c int) {
			defer wg.Done()
			tr := &http.Transport{MaxIdleConnsPerHost: 1}
			defer tr.CloseIdleConnections()
			cl := setec.Client{Server: hs.URL, DoHTTP: (&http.Client{Transport: tr}).Do}
			// find out which secret this connection's address was given: exactly one own/<i> is readable
			mine := -1
			for i := 0; i < N && mine < 0; i++ {
				if _, err := cl.Get(context.Background(), fmt.Sprintf("own/%d", i)); err == nil {
					mine = i
				}
			}
			if mine < 0 {
				return
			}
			for k := 0; k < rounds; k++ {
				sv, err := cl.Get(context.Background(), fmt.Sprintf("own/%d", mine))
				r.Count("concurrent_replies_checked", 1)
				if errors.Is(err, api.ErrAccessDenied) {
					return // the connection (and with it the source address) was replaced
				}
				if err != nil {
					if bad.Add(1) <= 2 {
						r.Violation("reply-not-the-json-result", -1, fmt.Sprintf("under concurrent load peer %d's get of its own secret failed: %v", mine, err), nil)
					}
					continue
				}
				if !bytes.Equal(sv.Value, vals[mine]) && bad.Add(1) <= 2 {
					whose := "nobody's"
					for j := range vals {
						if bytes.Equal(sv.Value, vals[j]) {
							whose = fmt.Sprintf("peer %d's", j)
						}
					}
					r.Violation("reply-carries-foreign-secret", -1, fmt.Sprintf("under concurrent load the reply to peer %d's get of its own secret carried %s value (%d bytes)", mine, whose, len(sv.Value)), nil)
				}
				// and the others stay forbidden
				if k%16 == 0 {
					if sv, err := cl.Get(context.Background(), fmt.Sprintf("own/%d", (mine+1)%N)); err == nil && bad.Add(1) <= 2 {
						r.Violation("reply-carries-foreign-secret", -1, fmt.Sprintf("peer %d could read peer %d's secret (%d bytes)", mine, (mine+1)%N, len(sv.Value)), nil)
					}
				}
			}
		}(c)
	}
	wg.Wait()
	r.Eval(1)
	r.Distinct("concurrent replies over loopback")
}

type stallSink struct {
	mu   sync.Mutex
	buf  bytes.Buffer
	wait time.Duration
}

func (s *stallSink) Write(p []byte) (int, error) {
	time.Sleep(s.wait) // the caller is inside the database's critical section: others pile up behind it
	s.mu.Lock()
	defer s.mu.Unlock()
	return s.buf.Write(p)
}

// sharedConditional: callers with different grants poll the SAME secret with the SAME known version at the
// same moment (what every client does after a rotation), while the audit sink is slow so that the requests
// overlap inside the server. Each reply must be decided by the grant of the caller it goes to, and every
// request must be recorded under its own principal.
func sharedConditional(t *testing.T, r *evid.Run, dir string) {
	snk := &stallSink{wait: 300 * time.Microsecond}
	d, err := db.Open(filepath.Join(dir, "shared.db"), realdb.DummyKey("c08s"), audit.New(snk))
	if err != nil {
		t.Fatal(err)
	}
	su := realdb.Super()
	rng := r.Rand(4711)
	v1, v2 := marker(rng), marker(rng)
	d.Put(su, "shared/rotating", v1)
	d.Put(su, "shared/rotating", v2)
	d.Activate(su, "shared/rotating", 2)
	srv, err := httpdrv.New(d)
	if err != nil {
		t.Fatal(err)
	}
	const P = 8
	allowed := func(i int) bool { return i%2 == 0 }
	for i := 0; i < P; i++ {
		pat := "other/*"
		if allowed(i) {
			pat = "shared/*"
		}
		srv.SetWho(fmt.Sprintf("100.70.0.%d:4000", i+1), httpdrv.Who{Login: fmt.Sprintf("poller%d@verif", i), Node: fmt.Sprintf("poller%d", i),
			Rules: []refmodel.Rule{{Actions: []string{"get"}, Patterns: []string{pat}}}})
	}
	rounds := r.N(120, 1200)
	sent := make([]int, P)
	var bad atomic.Int32
	for k := 0; k < rounds; k++ {
		known := uint32(1 + k%2) // 1: stale, the reply is the value; 2: current, the reply is 304
		var wg sync.WaitGroup
		var gate atomic.Bool
		for i := 0; i < P; i++ {
			if known != 2 || !allowed(i) {
				sent[i]++ // an unchanged conditional get by an entitled caller delivers nothing and is, by design, not recorded
			}
			wg.Add(1)
			go func(i int) {
				defer wg.Done()
				for !gate.Load() {
				}
				op := ops.Op{Kind: ops.GetCond, Name: "shared/rotating", Version: known}
				path, body := httpdrv.Request(op)
				rep := srv.Raw("POST", path, fmt.Sprintf("100.70.0.%d:4000", i+1), httpdrv.GoodHeaders, body)
				r.Count("overlapping_conditional_gets", 1)
				want := 403
				if allowed(i) {
					want = 200
					if known == 2 {
						want = 304
					}
				}
				if rep.Status != want && bad.Add(1) <= 3 {
					r.Violation("reply-decided-by-another-callers-grant", -1, fmt.Sprintf("round %d: poller %d (allowed=%t) asked for shared/rotating knowing v%d together with %d others and got status %d, want %d", k, i, allowed(i), known, P-1, rep.Status, want), nil)
				}
				if rep.Status != 200 && leaks(rep.Body, [][]byte{v1, v2}) && bad.Add(1) <= 3 {
					r.Violation("non-200-reply-carries-secret", -1, fmt.Sprintf("round %d: poller %d got status %d with secret bytes in the body", k, i, rep.Status), nil)
				}
				if rep.Status == 200 {
					var sv api.SecretValue
					if err := json.Unmarshal(rep.Body, &sv); err != nil || !bytes.Equal(sv.Value, v2) || sv.Version != 2 {
						if bad.Add(1) <= 3 {
							r.Violation("reply-not-the-json-result", -1, fmt.Sprintf("round %d: poller %d got 200 with %q", k, i, rep.Body), nil)
						}
					}
				}
			}(i)
		}
		gate.Store(true)
		wg.Wait()
	}
	// the audit trail: one record per request, under the requester's own identity, with the right verdict
	got := map[string][2]int{}
	dec := json.NewDecoder(bytes.NewReader(snk.buf.Bytes()))
	for {
		var e audit.Entry
		if err := dec.Decode(&e); err != nil {
			break
		}
		if e.Secret != "shared/rotating" || e.Action != "get" || e.Principal.User == "super@verif" {
			continue
		}
		c := got[e.Principal.User]
		if e.Authorized {
			c[0]++
		} else {
			c[1]++
		}
		got[e.Principal.User] = c
	}
	for i := 0; i < P; i++ {
		r.Count("audit_principals_checked", 1)
		c := got[fmt.Sprintf("poller%d@verif", i)]
		want := [2]int{sent[i], 0}
		if !allowed(i) {
			want = [2]int{0, sent[i]}
		}
		if c != want {
			r.Violation("audit-record-missing-or-under-another-identity", -1, fmt.Sprintf("poller %d (allowed=%t) made %d overlapping conditional gets that deliver a value or are refused; the audit log has %d authorized and %d denied records under its identity", i, allowed(i), sent[i], c[0], c[1]), nil)
		}
	}
	r.Eval(1)
	r.Distinct("overlapping conditional gets from differently entitled callers")
}

type sleepySink struct {
	wait time.Duration
	n    atomic.Int32
	buf  bytes.Buffer
	mu   sync.Mutex
}

func (s *sleepySink) Write(p []byte) (int, error) {
	s.n.Add(1)
	time.Sleep(s.wait)
	s.mu.Lock()
	defer s.mu.Unlock()
	return s.buf.Write(p)
}

// slowStore (virtual time): the store behind the front door is slow - an audit write takes seconds to minutes
// (a stalled disk, a network file system). However long an accepted request takes, its status tells what
// happened: a reply that is not 2xx means the request did not change anything.
func slowStore(t *testing.T, r *evid.Run, dir string) {
	for ci, wait := range []time.Duration{2 * time.Second, 9 * time.Second, 12 * time.Second, 45 * time.Second, 3 * time.Minute} {
		synctest.Test(t, func(t *testing.T) {
			snk := &sleepySink{}
			d, err := db.Open(filepath.Join(dir, fmt.Sprintf("slowstore%d.db", ci)), realdb.DummyKey("c08slow"), audit.New(snk))
			if err != nil {
				t.Fatal(err)
			}
			su := realdb.Super()
			d.Put(su, "slow/existing", []byte("old"))
			srv, err := httpdrv.New(d)
			if err != nil {
				t.Fatal(err)
			}
			const addr = "100.64.0.8:8"
			srv.SetWho(addr, httpdrv.Who{Login: "slow@verif", Node: "slow", Rules: fullRules})
			snk.wait = wait
			for _, op := range []ops.Op{{Kind: ops.Put, Name: "slow/new", Value: []byte("fresh")}, {Kind: ops.Put, Name: "slow/existing", Value: []byte("newer")},
				{Kind: ops.Act, Name: "slow/existing", Version: 2}, {Kind: ops.Delete, Name: "slow/new"}, {Kind: ops.Get, Name: "slow/existing"}} {
				snk.wait = 0
				before, _ := realdb.Dump(d)
				snk.wait = wait
				res, rep, _ := srv.Do(addr, op)
				time.Sleep(2 * wait) // whatever is still going on behind the reply comes to an end
				synctest.Wait()
				snk.wait = 0
				after, err := realdb.Dump(d)
				snk.wait = wait
				r.Eval(1)
				r.Count("requests_against_a_slow_store", 1)
				r.Distinct(fmt.Sprintf("slow store %v %s status=%d", wait, op.Kind, rep.Status))
				if err != nil {
					r.Violation("state-after-request", -1, err.Error(), nil)
					return
				}
				if rep.Status != 200 && after.Canon() != before.Canon() {
					r.Violation("non-2xx-reply-but-state-changed", -1, fmt.Sprintf("the audit write of an accepted %s took %v; the caller was answered %d (%s), yet the store applied the request", op, wait, rep.Status, strings.TrimSpace(string(rep.Body))), nil)
					return
				}
				if rep.Status == 200 && op.Kind.Mutating() && after.Canon() == before.Canon() {
					r.Violation("status-mapping", -1, fmt.Sprintf("%s answered 200 but nothing changed (%s)", op, res), nil)
					return
				}
			}
		})
	}
}
