// C05 — secrets are confidential and tamper-evident at rest. Engine E6 (byte
// scanners over every file the server writes, after every operation and at
// every crash point of a save) + a counting proxy around a real AES256-GCM
// key-encryption key + a tamper loop (every single-bit flip, every truncation,
// field splices between databases, foreign keys).
package c05

import (
	"bytes"
	"context"
	"encoding/json"
	"fmt"
	"github.com/aws/aws-sdk-go-v2/aws"
	"github.com/aws/aws-sdk-go-v2/credentials"
	"github.com/aws/aws-sdk-go-v2/service/s3"
	"github.com/tailscale/setec/server"
	"github.com/tink-crypto/tink-go/v2/insecurecleartextkeyset"
	"io"
	"math/rand/v2"
	"net/http"
	"os"
	"path/filepath"
	"runtime"
	"strings"
	"sync"
	"sync/atomic"
	"syscall"
	"testing"
	"testing/synctest"
	"time"

	"github.com/tailscale/setec/audit"
	"github.com/tailscale/setec/client/setec"
	"github.com/tailscale/setec/db"
	"github.com/tink-crypto/tink-go/v2/aead"
	"github.com/tink-crypto/tink-go/v2/keyset"
	"github.com/tink-crypto/tink-go/v2/tink"

	"verif/harness/internal/crashenum"
	"verif/harness/internal/evid"
	"verif/harness/internal/httpdrv"
	"verif/harness/internal/ops"
	"verif/harness/internal/realdb"
	"verif/harness/internal/refmodel"
	"verif/harness/internal/scan"
	"verif/harness/internal/sysfault"
)

type countingKEK struct {
	inner tink.AEAD
	enc   atomic.Int64
	dec   atomic.Int64
}

func (c *countingKEK) Encrypt(pt, ad []byte) ([]byte, error) {
	c.enc.Add(1)
	return c.inner.Encrypt(pt, ad)
}
func (c *countingKEK) Decrypt(ct, ad []byte) ([]byte, error) {
	c.dec.Add(1)
	return c.inner.Decrypt(ct, ad)
}
func (c *countingKEK) calls() int64 { return c.enc.Load() + c.dec.Load() }

func newKEK(t testing.TB) *countingKEK {
	h, err := keyset.NewHandle(aead.AES256GCMKeyTemplate())
	if err != nil {
		t.Fatal(err)
	}
	a, err := aead.New(h)
	if err != nil {
		t.Fatal(err)
	}
	return &countingKEK{inner: a}
}

const alnum = "abcdefghijklmnopqrstuvwxyzABCDEFGHIJKLMNOPQRSTUVWXYZ0123456789"

func markerName(rng *rand.Rand) string {
	b := make([]byte, 24)
	for i := range b {
		b[i] = alnum[rng.IntN(len(alnum))]
	}
	return "n/" + string(b)
}

func markerValue(rng *rand.Rand) []byte {
	b := make([]byte, 24)
	text := rng.IntN(2) == 0 // half of the values are text (passwords, tokens), half binary (keys)
	for i := range b {
		if text {
			b[i] = alnum[rng.IntN(len(alnum))]
		} else {
			b[i] = byte(rng.IntN(256))
		}
	}
	return b
}

func TestC05(t *testing.T) {
	old := syscall.Umask(0) // the mode bits seen are then the ones the code asked for
	defer syscall.Umask(old)
	r := evid.Start("C05", "exploration")
	defer r.Finish(t)
	r.Assume("markers are 24-byte high-entropy strings, so a match cannot be accidental; encodings searched: raw, hex (both cases), JSON-escaped, base64 (std/url alphabets, all three alignments) and a second base64 layer over those",
		"wholesale replacement of the file by an earlier valid snapshot of the same database is undetectable by design and not checked",
		"the harness runs with umask 0")
	tmp := evid.TempDir(t)
	nHist := r.N(300, 3000)
	var wg sync.WaitGroup
	nw := runtime.NumCPU()
	for w := 0; w < nw; w++ {
		wg.Add(1)
		go func(w int) {
			defer wg.Done()
			for h := w; h < nHist; h += nw {
				if !r.Skip(h) {
					history(t, r, tmp, h)
				}
			}
		}(w)
	}
	wg.Wait()
	if r.Only < 0 {
		tamper(t, r, tmp)
		crashTemporaries(t, r, tmp)
		cacheCreation(t, r, tmp)
		runningServerBackups(t, r, tmp)
		rejectedBodiesOverHTTP(t, r, tmp)
		forgedKeyMaterial(t, r, tmp)
		auditLogFiles(t, r, tmp)
		longLivedHandle(t, r, tmp)
		clientCacheModes(t, r, tmp)
	}
	r.Require("rejected_request_bodies_sent", "metrics_renderings_beside_the_kek", "state_directory_listings_during_an_upload", "files_scanned", "scans_after_operation", "kek_checks", "kek_checks_after_reopen", "bit_flips", "truncations", "splices", "foreign_key_opens", "tampered_opens_rejected", "crash_point_scans", "temporaries_scanned", "mode_checks", "kek_checks_after_failed_write", "kek_checks_long_lived_handle", "client_cache_mode_checks", "creating_open_calls_observed", "cache_crash_point_scans", "backup_uploads_scanned", "audit_dir_mode_checks", "external_stat_changes", "refused_writes_scanned", "forged_key_material_opens", "audit_log_rotations_while_running")
	r.Rule("histories of 15-25 operations with marker names and values on a state directory holding the database and a real audit log, every file scanned after every operation, KEK call counter read after every operation (also after a reopen); tamper loop on saved files: every single-bit flip, every truncation length, version-field edits, DEK/DB splices between databases under the same and under a different KEK, foreign KEKs; crash points of a save scanned for plaintext in temporaries. Distinct = (operation kind, file kind) for scans and (tamper kind, outcome)")
}

func history(t *testing.T, r *evid.Run, tmp string, h int) {
	r.Eval(1)
	rng := r.Rand(uint64(h))
	dir := filepath.Join(tmp, fmt.Sprintf("state%d", h), "db")
	os.MkdirAll(dir, 0o700)
	defer os.RemoveAll(filepath.Dir(dir))
	dbPath, logPath := filepath.Join(dir, "database"), filepath.Join(filepath.Dir(dir), "audit.log")
	aw, err := audit.NewFile(logPath)
	if err != nil {
		t.Error(err)
		return
	}
	defer aw.Close()
	kek := newKEK(t)
	d, err := db.Open(dbPath, kek, aw)
	if err != nil {
		r.Violation("open", h, err.Error(), nil)
		return
	}
	afterOpen := kek.calls()
	names := []string{markerName(rng), markerName(rng), markerName(rng)}
	values := scan.NewFinder()
	nameF := scan.NewFinder()
	for _, n := range names {
		nameF.Add("name "+n, []byte(n))
	}
	m := refmodel.New()
	su := realdb.Super()
	var trace []string
	reopened := false
	for i, n := 0, 15+rng.IntN(11); i < n; i++ {
		op := ops.Op{Kind: ops.Put, Name: names[rng.IntN(len(names))]}
		switch rng.IntN(10) {
		case 0, 1:
			op.Kind, op.Version = ops.Act, ops.GenVersion(rng, m, op.Name)
		case 2:
			op.Kind, op.Version = ops.DelVer, ops.GenVersion(rng, m, op.Name)
		case 3:
			op.Kind = ops.Delete
		case 4:
			op.Kind = ops.Get
		case 5:
			op.Kind = ops.List
		case 6:
			// a write the database refuses (a reserved name): whatever is said about the refusal, and wherever
			// it is written down, the value that was offered stays out of it
			op.Name = "_internal/" + op.Name
			op.Value = markerValue(rng)
			values.Add(fmt.Sprintf("refused value #%d", i), op.Value)
			r.Count("refused_writes_scanned", 1)
		default:
			op.Value = markerValue(rng)
			values.Add(fmt.Sprintf("value #%d of %s", i, op.Name), op.Value)
		}
		if op.Kind.Mutating() && rng.IntN(8) == 0 {
			// the file system fails during this call; the key service must not be needed to cope with that either
			var got ops.Result
			realdb.BreakDir(dbPath, func() { got = ops.ApplyReal(d, su, op) })
			trace = append(trace, fmt.Sprintf("%s (file system fails) -> %s", op.Kind, got.Class))
			r.Count("kek_checks_after_failed_write", 1)
			if c := kek.calls(); c != afterOpen {
				r.Violation("kek-used-after-open", h, fmt.Sprintf("history %d: a %s whose save failed made %d call(s) to the key-encryption key", h, op.Kind, c-afterOpen), map[string]any{"ops": trace})
				return
			}
			if real, err := realdb.Dump(d); err != nil || real.Canon() != m.Canon() {
				r.Violation("failed-write-changed-state", h, fmt.Sprintf("history %d: a %s whose save failed changed the served state (%v)", h, op.Kind, err), nil)
				return
			}
			continue
		}
		want := ops.ApplyModel(m, nil, true, op)
		got := ops.ApplyReal(d, su, op)
		trace = append(trace, fmt.Sprintf("%s -> %s", op.Kind, got.Class))
		if !ops.Agree(want, got) {
			r.Violation("history-diverged", h, fmt.Sprintf("%s: %s vs %s", op, got, want), nil)
			return
		}
		// the key-encryption key is consulted at open/create only
		r.Count("kek_checks", 1)
		if reopened {
			r.Count("kek_checks_after_reopen", 1)
		}
		if c := kek.calls(); c != afterOpen {
			r.Violation("kek-used-after-open", h, fmt.Sprintf("history %d: %s made %d call(s) to the key-encryption key after Open had returned (reopened before: %t)", h, op.Kind, c-afterOpen, reopened), map[string]any{"ops": trace})
			return
		}
		// scan everything under the state directory
		files, _ := scan.Files(filepath.Dir(dir))
		r.Count("scans_after_operation", 1)
		for _, f := range files {
			r.Count("files_scanned", 1)
			kind := "temporary"
			switch f.Path {
			case dbPath:
				kind = "database"
			case logPath:
				kind = "audit-log"
			}
			r.Distinct(fmt.Sprintf("scan after %s: %s", op.Kind, kind))
			if hit, ok := values.Find(f.Data); ok {
				r.Violation("value-in-"+kind, h, fmt.Sprintf("history %d after %s: file %s contains secret %s", h, op.Kind, filepath.Base(f.Path), hit), map[string]any{"ops": trace})
				return
			}
			if kind != "audit-log" {
				if hit, ok := nameF.Find(f.Data); ok {
					r.Violation("name-in-"+kind, h, fmt.Sprintf("history %d after %s: file %s exposes secret %s", h, op.Kind, filepath.Base(f.Path), hit), map[string]any{"ops": trace})
					return
				}
			}
			r.Count("mode_checks", 1)
			if f.Mode.Perm()&0o077 != 0 {
				r.Violation("mode-"+kind, h, fmt.Sprintf("history %d: %s has mode %o (umask 0): readable by others", h, filepath.Base(f.Path), f.Mode.Perm()), nil)
				return
			}
		}
		// a restart in the middle of the history: the key is needed to open, and not afterwards
		if !reopened && i > 4 && rng.IntN(4) == 0 {
			d2, err := db.Open(dbPath, kek, aw)
			if err != nil {
				r.Violation("reopen-same-key-fails", h, err.Error(), nil)
				return
			}
			d, reopened, afterOpen = d2, true, kek.calls()
			trace = append(trace, "REOPEN")
		}
	}
	if h < 2 {
		r.Sample(map[string]any{"history": h, "ops": trace})
	}
}

func stateOf(path string, key tink.AEAD) (string, error) {
	d, err := realdb.Open(path, key)
	if err != nil {
		return "", err
	}
	m, err := realdb.Dump(d)
	if err != nil {
		return "", fmt.Errorf("inconsistent: %w", err)
	}
	return m.Canon(), nil
}

func makeDB(t *testing.T, path string, key tink.AEAD, rng *rand.Rand, n int) string {
	d, err := realdb.Open(path, key)
	if err != nil {
		t.Fatal(err)
	}
	su := realdb.Super()
	for i := 0; i < n; i++ {
		d.Put(su, fmt.Sprintf("s%d", i%3), markerValue(rng))
	}
	d.Activate(su, "s0", 2)
	st, err := stateOf(path, key)
	if err != nil {
		t.Fatal(err)
	}
	return st
}

func tamper(t *testing.T, r *evid.Run, tmp string) {
	rng := r.Rand(424242)
	nFiles := r.N(4, 16)
	type wrapped struct {
		Version uint32
		DEK     []byte
		DB      []byte
	}
	var jobs []func()
	var mu sync.Mutex
	record := func(kind string, err error, st, orig string, mutated []byte, path string, key tink.AEAD) {
		r.Eval(1)
		switch {
		case err != nil:
			r.Count("tampered_opens_rejected", 1)
			r.Distinct(kind + ": rejected")
		case st == orig:
			r.Count("tampered_opens_same_contents", 1)
			r.Distinct(kind + ": same contents")
		default:
			r.Violation("tampered-file-opens-differently", -1, fmt.Sprintf("%s: the altered file opens without error but with contents %s instead of %s", kind, st, orig), map[string]any{"file_hex": fmt.Sprintf("%x", mutated)})
		}
		if now, rerr := os.ReadFile(path); rerr != nil || !bytes.Equal(now, mutated) {
			mu.Lock()
			r.Violation("open-rewrote-damaged-file", -1, kind+": opening the altered file modified it", nil)
			mu.Unlock()
		}
	}
	for fi := 0; fi < nFiles; fi++ {
		var key tink.AEAD = newKEK(t)
		kind := "aes256gcm"
		if fi%3 == 2 {
			key, kind = realdb.DummyKey(fmt.Sprintf("dummy-%d", fi)), "dummy"
		}
		odir := filepath.Join(tmp, fmt.Sprintf("tamper%d", fi))
		os.MkdirAll(odir, 0o700)
		path := filepath.Join(odir, "db")
		orig := makeDB(t, path, key, rng, 2+fi)
		good, _ := os.ReadFile(path)
		// whatever else the server left next to the database stays next to the altered copy
		var siblings []scan.File
		if fs, _ := scan.Files(odir); true {
			for _, f := range fs {
				if f.Path != path {
					siblings = append(siblings, f)
				}
			}
		}
		fi := fi
		try := func(label string, mutated []byte, k tink.AEAD, idx int) {
			tdir := filepath.Join(tmp, fmt.Sprintf("t%d-%d", fi, idx))
			os.MkdirAll(tdir, 0o700)
			for _, sf := range siblings {
				os.WriteFile(filepath.Join(tdir, filepath.Base(sf.Path)), sf.Data, sf.Mode.Perm())
			}
			p := filepath.Join(tdir, "db")
			os.WriteFile(p, mutated, 0o600)
			st, err := stateOf(p, k)
			record(label+"/"+kind, err, st, orig, mutated, p, k)
			if len(siblings) > 0 {
				r.Count("tampered_in_place_with_siblings", 1)
			}
			os.RemoveAll(tdir)
		}
		// every single-bit flip and every truncation, spread over workers
		for chunk := 0; chunk < 16; chunk++ {
			chunk := chunk
			jobs = append(jobs, func() {
				for pos := chunk; pos < len(good); pos += 16 {
					for bit := 0; bit < 8; bit++ {
						mut := append([]byte(nil), good...)
						mut[pos] ^= 1 << bit
						try("bit-flip", mut, key, chunk)
						r.Count("bit_flips", 1)
					}
					try("truncate", good[:pos], key, chunk)
					r.Count("truncations", 1)
				}
			})
		}
		jobs = append(jobs, func() {
			// empty-ish files
			for _, b := range [][]byte{{}, []byte("\n"), []byte(" "), []byte("null"), []byte("{}")} {
				try("degenerate", b, key, 99)
				r.Count("truncations", 1)
			}
			var w wrapped
			json.Unmarshal(good, &w)
			enc := func(w wrapped) []byte { b, _ := json.Marshal(w); return b }
			for _, v := range []uint32{0, 2, 4294967295} {
				w2 := w
				w2.Version = v
				try("version-field", enc(w2), key, 99)
				r.Count("splices", 1)
			}
			// another database under the SAME key-encryption key
			os.MkdirAll(filepath.Join(tmp, fmt.Sprintf("tamper%d-b", fi)), 0o700)
			pathB := filepath.Join(tmp, fmt.Sprintf("tamper%d-b", fi), "db")
			makeDB(t, pathB, key, rng, 5)
			gb, _ := os.ReadFile(pathB)
			var wb wrapped
			json.Unmarshal(gb, &wb)
			try("splice-same-kek(A.DEK,B.DB)", enc(wrapped{1, w.DEK, wb.DB}), key, 99)
			try("splice-same-kek(B.DEK,A.DB)", enc(wrapped{1, wb.DEK, w.DB}), key, 99)
			// a database under a DIFFERENT key-encryption key
			key2 := tink.AEAD(newKEK(t))
			if kind == "dummy" {
				key2 = realdb.DummyKey("another-dummy")
			}
			os.MkdirAll(filepath.Join(tmp, fmt.Sprintf("tamper%d-c", fi)), 0o700)
			pathC := filepath.Join(tmp, fmt.Sprintf("tamper%d-c", fi), "db")
			makeDB(t, pathC, key2, rng, 4)
			gc, _ := os.ReadFile(pathC)
			var wc wrapped
			json.Unmarshal(gc, &wc)
			try("splice-other-kek(A.DEK,C.DB)", enc(wrapped{1, w.DEK, wc.DB}), key, 99)
			try("splice-other-kek(C.DEK,A.DB)", enc(wrapped{1, wc.DEK, w.DB}), key, 99)
			try("other-kek-whole-file", gc, key, 99)
			r.Count("splices", 5)
			// the right file with a foreign key
			try("foreign-key", good, key2, 99)
			try("foreign-key", good, newKEK(t), 99)
			try("foreign-key", good, realdb.DummyKey("yet-another"), 99)
			r.Count("foreign_key_opens", 3)
		})
	}
	var wg sync.WaitGroup
	jc := make(chan func())
	for w := 0; w < runtime.NumCPU(); w++ {
		wg.Add(1)
		go func() {
			defer wg.Done()
			for j := range jc {
				j()
			}
		}()
	}
	for _, j := range jobs {
		jc <- j
	}
	close(jc)
	wg.Wait()
}

// crashTemporaries: whatever a killed save leaves behind must not expose names or values either.
func crashTemporaries(t *testing.T, r *evid.Run, tmp string) {
	if err := sysfault.Supported(); err != nil {
		t.Fatalf("sysfault unsupported: %v", err)
	}
	child, err := crashenum.BuildChild(tmp, "./cmd/dbchild")
	if err != nil {
		t.Fatal(err)
	}
	rng := r.Rand(515151)
	name := markerName(rng)
	v1, v2 := markerValue(rng), markerValue(rng)
	f := scan.NewFinder()
	f.Add("name "+name, []byte(name))
	f.Add("old value", v1)
	f.Add("new value", v2)
	prep := filepath.Join(tmp, "crashprep")
	os.MkdirAll(prep, 0o700)
	d, err := realdb.Open(filepath.Join(prep, "db"), realdb.DummyKey("c05-crash"))
	if err != nil {
		t.Fatal(err)
	}
	d.Put(realdb.Super(), name, v1)
	base, _ := os.ReadFile(filepath.Join(prep, "db"))
	run := func(dir string, fault sysfault.Fault) *sysfault.Result {
		os.RemoveAll(dir)
		os.MkdirAll(dir, 0o700)
		os.WriteFile(filepath.Join(dir, "db"), base, 0o600)
		spec, _ := json.Marshal(map[string]any{"path": filepath.Join(dir, "db"), "key": "c05-crash", "op": ops.Op{Kind: ops.Put, Name: name, Value: v2}})
		// the child runs under the usual umask 022: what the code asks for at creation is what protects the file
		res, err := sysfault.Run([]string{child, string(spec)}, append(os.Environ(), "GOMAXPROCS=2", "VERIF_UMASK=022"), dir, fault, crashenum.Timeout)
		if err != nil {
			return nil
		}
		return res
	}
	res := run(filepath.Join(tmp, "crash0"), sysfault.Fault{})
	if res == nil || !res.SawEnd {
		t.Fatalf("crash temporaries: fault-free pass failed")
	}
	// every file the save creates is created owner-only (observed at the system-call boundary)
	creates := 0
	for _, ev := range res.Events {
		if (ev.Name == "openat" || ev.Name == "open" || ev.Name == "creat") && ev.Flags&syscall.O_CREAT != 0 {
			creates++
			r.Eval(1)
			r.Count("creating_open_calls_observed", 1)
			r.Distinct(fmt.Sprintf("create mode %o", ev.Mode&0o777))
			if eff := ev.Mode & 0o777 &^ 0o022; eff&0o077 != 0 {
				r.Violation("created-readable-by-others", -1, fmt.Sprintf("the save creates %s with mode %o (effective %o under umask 022): readable by others while it is being written", filepath.Base(ev.Path), ev.Mode&0o777, eff), nil)
			}
		}
	}
	if creates == 0 {
		r.Inconclusive("crash temporaries: no creating open call observed during a save")
	}
	for _, ev := range res.Events {
		for _, kind := range []sysfault.FaultKind{sysfault.KillBefore, sysfault.KillAfter} {
			dir := filepath.Join(tmp, "crashN")
			if rr := run(dir, sysfault.Fault{Kind: kind, At: ev.Idx}); rr == nil || !rr.FaultFired {
				r.Inconclusive("crash temporaries: fault point not reached")
				continue
			}
			r.Eval(1)
			r.Count("crash_point_scans", 1)
			files, _ := scan.Files(dir)
			for _, fl := range files {
				if filepath.Base(fl.Path) != "db" {
					r.Count("temporaries_scanned", 1)
				}
				r.Distinct(fmt.Sprintf("crash scan %s@%s", kind, ev.Name))
				if hit, ok := f.Find(fl.Data); ok {
					r.Violation("plaintext-in-temporary", -1, fmt.Sprintf("after %s at %s the file %s contains %s", kind, ev, filepath.Base(fl.Path), hit), nil)
				}
				if fl.Mode.Perm()&0o077 != 0 {
					r.Violation("mode-after-crash", -1, fmt.Sprintf("after %s at %s the file %s is left with mode %o (umask 022)", kind, ev, filepath.Base(fl.Path), fl.Mode.Perm()), nil)
				}
			}
		}
	}
}

// cacheCreation: the client's cache file holds secret values; every file a cache write creates is created
// owner-only, and whatever a killed write leaves behind is owner-only too (child under umask 022).
func cacheCreation(t *testing.T, r *evid.Run, tmp string) {
	child, err := crashenum.BuildChild(tmp, "./cmd/cachechild")
	if err != nil {
		t.Fatal(err)
	}
	docPath := filepath.Join(tmp, "cache-new.json")
	os.WriteFile(docPath, []byte(`{"s":{"secret":{"Value":"c2VjcmV0LXZhbHVl","Version":2},"lastAccess":"0"}}`), 0o600)
	for _, pre := range []bool{false, true} {
		run := func(dir string, fault sysfault.Fault) *sysfault.Result {
			os.RemoveAll(dir)
			os.MkdirAll(dir, 0o700)
			if pre {
				os.WriteFile(filepath.Join(dir, "cache.json"), []byte(`{"s":{"secret":{"Value":"b2xk","Version":1},"lastAccess":"0"}}`), 0o600)
			}
			res, err := sysfault.Run([]string{child, filepath.Join(dir, "cache.json"), docPath}, append(os.Environ(), "GOMAXPROCS=2", "VERIF_UMASK=022"), dir, fault, crashenum.Timeout)
			if err != nil {
				return nil
			}
			return res
		}
		res := run(filepath.Join(tmp, "cc0"), sysfault.Fault{})
		if res == nil || !res.SawEnd {
			t.Fatalf("cache creation: fault-free pass failed")
		}
		creates := 0
		for _, ev := range res.Events {
			if (ev.Name == "openat" || ev.Name == "open" || ev.Name == "creat") && ev.Flags&syscall.O_CREAT != 0 {
				creates++
				r.Eval(1)
				r.Count("creating_open_calls_observed", 1)
				r.Distinct(fmt.Sprintf("cache create mode %o", ev.Mode&0o777))
				if eff := ev.Mode & 0o777 &^ 0o022; eff&0o077 != 0 {
					r.Violation("cache-created-readable-by-others", -1, fmt.Sprintf("the cache write creates %s with mode %o (effective %o under umask 022)", filepath.Base(ev.Path), ev.Mode&0o777, eff), nil)
				}
			}
		}
		if creates == 0 {
			r.Inconclusive("cache creation: no creating open call observed during a cache write")
		}
		for _, ev := range res.Events {
			for _, kind := range []sysfault.FaultKind{sysfault.KillBefore, sysfault.KillAfter} {
				dir := filepath.Join(tmp, "ccN")
				if rr := run(dir, sysfault.Fault{Kind: kind, At: ev.Idx}); rr == nil || !rr.FaultFired {
					r.Inconclusive("cache creation: fault point not reached")
					continue
				}
				r.Eval(1)
				r.Count("cache_crash_point_scans", 1)
				files, _ := scan.Files(dir)
				for _, fl := range files {
					if fl.Mode.Perm()&0o077 != 0 {
						r.Violation("cache-mode-after-crash", -1, fmt.Sprintf("after %s at %s the file %s is left with mode %o (umask 022)", kind, ev, filepath.Base(fl.Path), fl.Mode.Perm()), nil)
					}
				}
			}
		}
		r.Distinct(fmt.Sprintf("cache creation pre-existing=%t", pre))
	}
}

// memS3 is an in-memory S3 endpoint that accepts everything and keeps the uploaded bodies.
type memS3 struct {
	mu     sync.Mutex
	bodies [][]byte
	during func() // called while an upload is in flight
}

func (e *memS3) RoundTrip(req *http.Request) (*http.Response, error) {
	var body []byte
	if req.Body != nil {
		body, _ = io.ReadAll(req.Body)
		req.Body.Close()
	}
	e.mu.Lock()
	e.bodies = append(e.bodies, body)
	e.mu.Unlock()
	if e.during != nil {
		e.during()
	}
	h := http.Header{"Content-Type": {"application/xml"}, "X-Amz-Request-Id": {"verif"}, "ETag": {`"d41d8cd98f00b204e9800998ecf8427e"`}}
	return &http.Response{StatusCode: 200, Status: "200", Header: h, Body: io.NopCloser(strings.NewReader("")), Request: req, Proto: "HTTP/1.1", ProtoMajor: 1, ProtoMinor: 1}, nil
}

// runningServerBackups: the server's own periodic backup task (the real loop, through the verif hook) runs for
// virtual hours beside writes. It is part of "a running server": the key-encryption key must not be consulted
// by it, and what it uploads is a file the server writes, so it must not expose names or values either.
func runningServerBackups(t *testing.T, r *evid.Run, tmp string) {
	rng := r.Rand(717171)
	name := markerName(rng)
	f := scan.NewFinder()
	f.Add("name "+name, []byte(name))
	var vals [][]byte
	for i := 0; i < 6; i++ {
		v := markerValue(rng)
		vals = append(vals, v)
		f.Add(fmt.Sprintf("value %d", i), v)
	}
	dir := filepath.Join(tmp, "backups")
	os.MkdirAll(dir, 0o700)
	kek := newKEK(t)
	synctest.Test(t, func(t *testing.T) {
		d, err := realdb.Open(filepath.Join(dir, "db"), kek)
		if err != nil {
			t.Fatal(err)
		}
		after := kek.calls()
		ep := &memS3{}
		// while an upload is in flight: whatever stands beside the database file then (a spool copy, a
		// temporary) is the server's file too - owner-only like the rest, under the usual umask
		oldMask := syscall.Umask(0o022)
		defer syscall.Umask(oldMask)
		var lax atomic.Pointer[string]
		ep.during = func() {
			ents, _ := os.ReadDir(dir)
			r.Count("state_directory_listings_during_an_upload", 1)
			for _, e := range ents {
				if in, err := e.Info(); err == nil && in.Mode().Perm()&0o077 != 0 {
					m := fmt.Sprintf("%s has mode %v", e.Name(), in.Mode())
					lax.CompareAndSwap(nil, &m)
				}
			}
		}
		defer func() {
			if m := lax.Load(); m != nil {
				r.Violation("file-mode-not-owner-only", -1, "while a backup upload was in flight the state directory held a file others can read: "+*m, nil)
			}
		}()
		cfg := aws.Config{Region: "us-east-1", Credentials: credentials.NewStaticCredentialsProvider("AKIDVERIF", "SECRETVERIF", ""), HTTPClient: &http.Client{Transport: ep}}
		client := s3.NewFromConfig(cfg, func(o *s3.Options) {
			o.BaseEndpoint = aws.String("http://s3.verif.invalid")
			o.UsePathStyle = true
		})
		ctx, cancel := context.WithCancel(context.Background())
		done := make(chan struct{})
		go func() { defer close(done); server.VerifRunPeriodicBackup(ctx, d, client, "backup-bucket") }()
		su := realdb.Super()
		for i, v := range vals {
			time.Sleep(time.Duration(1+rng.IntN(4)) * time.Minute)
			d.Put(su, name, v)
			if i%2 == 1 {
				d.Activate(su, name, 1)
			}
			time.Sleep(90 * time.Second)
			synctest.Wait()
			r.Eval(1)
			if c := kek.calls(); c != after {
				r.Violation("kek-used-after-open", -1, fmt.Sprintf("with the server's backup task running, %d call(s) to the key-encryption key were made after the database had been opened (by write #%d or the backup that followed it)", c-after, i+1), nil)
				break
			}
		}
		// "a running server" includes whoever scrapes its metrics: rendering them consults no key either
		if srvM, err := server.New(ctx, server.Config{DB: d, Mux: http.NewServeMux()}); err == nil {
			for k := 0; k < 3; k++ {
				out := srvM.Metrics().String()
				r.Count("metrics_renderings_beside_the_kek", 1)
				if hit, ok := f.Find([]byte(out)); ok {
					r.Violation("plaintext-in-metrics", -1, "the server's metrics contain "+hit, nil)
				}
			}
			if c := kek.calls(); c != after {
				r.Violation("kek-used-after-open", -1, fmt.Sprintf("rendering the server's metrics made %d call(s) to the key-encryption key", c-after), nil)
			}
		}
		cancel()
		<-done
		ep.mu.Lock()
		defer ep.mu.Unlock()
		r.Count("backup_uploads_scanned", len(ep.bodies))
		for i, b := range ep.bodies {
			if hit, ok := f.Find(b); ok {
				r.Violation("plaintext-in-backup", -1, fmt.Sprintf("backup upload #%d (%d bytes) contains %s", i, len(b), hit), nil)
				break
			}
		}
		if len(ep.bodies) == 0 {
			r.Inconclusive("running server: the backup task uploaded nothing")
		}
	})
	r.Distinct("running server with backups")
}

// auditLogFiles: the audit log is opened by name again and again over a server's life (every restart), small
// and large. Whatever files exist beside it afterwards (the log itself, anything it was rotated or archived to)
// are readable by the owner only, and the log has kept every record.
func auditLogFiles(t *testing.T, r *evid.Run, tmp string) {
	dir := filepath.Join(tmp, "auditdir")
	os.MkdirAll(dir, 0o700)
	p := filepath.Join(dir, "audit.log")
	old := syscall.Umask(0o022)
	defer syscall.Umask(old)
	// a log that is already big when the server starts (as after months of operation); sparse, so it costs nothing
	sizes := []int64{0, 1 << 20, 70 << 20, 1<<30 + 5}
	for round, sz := range sizes {
		if sz > 0 {
			fh, err := os.OpenFile(p, os.O_WRONLY|os.O_CREATE, 0o600)
			if err != nil {
				t.Fatal(err)
			}
			fh.Truncate(sz)
			fh.Close()
		}
		w, err := audit.NewFile(p)
		if err != nil {
			r.Violation("audit-log-does-not-open", -1, fmt.Sprintf("audit.NewFile on a %d-byte log: %v", sz, err), nil)
			return
		}
		d, err := db.Open(filepath.Join(dir, "db"), realdb.DummyKey("c05-audit"), w)
		if err != nil {
			t.Fatal(err)
		}
		d.Put(realdb.Super(), fmt.Sprintf("audited/%d", round), []byte("v"))
		// the log is rotated from outside while the server runs (logrotate: rename aside; or simply removed),
		// and the server goes on auditing
		if round%2 == 1 {
			os.Rename(p, p+".1")
		} else {
			os.Remove(p)
		}
		for k := 0; k < 3; k++ {
			d.Put(realdb.Super(), fmt.Sprintf("audited/%d/after-rotation-%d", round, k), []byte("v"))
			d.Get(realdb.Super(), fmt.Sprintf("audited/%d", round))
		}
		r.Count("audit_log_rotations_while_running", 1)
		w.Close()
		ents, _ := os.ReadDir(dir)
		for _, e := range ents {
			fi, err := e.Info()
			if err != nil {
				continue
			}
			r.Eval(1)
			r.Count("audit_dir_mode_checks", 1)
			if fi.Mode().Perm()&0o077 != 0 {
				r.Violation("mode-audit-file", -1, fmt.Sprintf("after restart #%d with a %d-byte audit log, %s has mode %o (umask 022): readable by others", round, sz, e.Name(), fi.Mode().Perm()), nil)
				return
			}
		}
		r.Distinct(fmt.Sprintf("audit log reopened at size class %d", round))
	}
}

// forgedKeyMaterial: files made by somebody who knows the format but not the key-encryption key. The DEK
// field carries key material of the forger's own making in every encoding the libraries offer (a cleartext
// keyset in binary or JSON form, an "encrypted" keyset whose ciphertext is the cleartext, a keyset wrapped
// under another key), and the DB field a payload encrypted under that key. None of them may open as a database.
func forgedKeyMaterial(t *testing.T, r *evid.Run, tmp string) {
	dir := filepath.Join(tmp, "forged")
	os.MkdirAll(dir, 0o700)
	kek := newKEK(t)
	path := filepath.Join(dir, "db")
	d, err := realdb.Open(path, kek)
	if err != nil {
		t.Fatal(err)
	}
	d.Put(realdb.Super(), "genuine", []byte("genuine-value"))
	genuine, _ := os.ReadFile(path)
	var gw map[string]json.RawMessage
	json.Unmarshal(genuine, &gw)
	orig, _ := realdb.Dump(d)

	forger, err := keyset.NewHandle(aead.XChaCha20Poly1305KeyTemplate())
	if err != nil {
		t.Fatal(err)
	}
	fa, _ := aead.New(forger)
	var clearBin, clearJSON, wrappedOther bytes.Buffer
	insecurecleartextkeyset.Write(forger, keyset.NewBinaryWriter(&clearBin))
	insecurecleartextkeyset.Write(forger, keyset.NewJSONWriter(&clearJSON))
	other := newKEK(t)
	forger.WriteWithAssociatedData(keyset.NewBinaryWriter(&wrappedOther), other, []byte("setec DEK v1"))
	// an EncryptedKeyset message (field 2, length-delimited) whose "ciphertext" is the cleartext keyset
	fake := append([]byte{0x12}, protoLen(clearBin.Len())...)
	fake = append(fake, clearBin.Bytes()...)
	payload := []byte(`{"Secrets":{"genuine":{"LatestVersion":1,"ActiveVersion":1,"Versions":{"1":"Zm9yZ2VkLXZhbHVl"}}}}`)
	for vi, dek := range [][]byte{clearBin.Bytes(), clearJSON.Bytes(), fake, wrappedOther.Bytes(), nil, {}} {
		for _, ctx := range []string{"setec database v1", "", "setec database v0", "setec database v2", "setec DEK v1"} {
			for _, ver := range []int{1, 0, 2} {
				ct, _ := fa.Encrypt(payload, []byte(ctx))
				w := map[string]any{"Version": ver, "DEK": dek, "DB": ct}
				b, _ := json.Marshal(w)
				fp := filepath.Join(dir, "forged.db")
				os.WriteFile(fp, b, 0o600)
				fd, err := realdb.Open(fp, kek)
				r.Eval(1)
				r.Count("forged_key_material_opens", 1)
				if err == nil {
					got, derr := realdb.Dump(fd)
					if derr != nil || got.Canon() != orig.Canon() {
						r.Violation("tampered-file-opens-differently", -1, fmt.Sprintf("a file whose DEK field holds key material of the forger's own making (variant %d, %d bytes), DB context %q, schema version %d, opens with the server's key-encryption key and yields contents the server never stored", vi, len(dek), ctx, ver), nil)
						return
					}
				}
			}
		}
	}
	r.Distinct("forged key material")
}

func protoLen(n int) []byte {
	var out []byte
	for n >= 0x80 {
		out = append(out, byte(n)|0x80)
		n >>= 7
	}
	return append(out, byte(n))
}

// longLivedHandle: a server that stays up for thousands of writes still never needs the key service.
func longLivedHandle(t *testing.T, r *evid.Run, tmp string) {
	dir := filepath.Join(tmp, "longlived")
	os.MkdirAll(dir, 0o700)
	kek := newKEK(t)
	d, err := realdb.Open(filepath.Join(dir, "db"), kek)
	if err != nil {
		t.Fatal(err)
	}
	after := kek.calls()
	su := realdb.Super()
	n := r.N(2500, 12000)
	for i := 0; i < n; i++ {
		switch i % 5 {
		case 0, 1, 2:
			d.Put(su, fmt.Sprintf("k%d", i%7), []byte(fmt.Sprintf("v%d", i)))
		case 3:
			d.Activate(su, fmt.Sprintf("k%d", i%7), 1)
		case 4:
			d.Delete(su, fmt.Sprintf("k%d", (i+3)%7))
		}
		// things that happen to a database file from outside: a backup tool resets its times, a sync agent
		// moves a byte-identical copy back into place
		if i%40 == 7 {
			ts := time.Unix(1_600_000_000+int64(i), 0)
			os.Chtimes(filepath.Join(dir, "db"), ts, ts)
			r.Count("external_stat_changes", 1)
		}
		if i%130 == 11 {
			if b, err := os.ReadFile(filepath.Join(dir, "db")); err == nil {
				tmpf := filepath.Join(dir, "db.copy-from-outside")
				os.WriteFile(tmpf, b, 0o600)
				os.Rename(tmpf, filepath.Join(dir, "db"))
				r.Count("external_stat_changes", 1)
			}
		}
		r.Count("kek_checks_long_lived_handle", 1)
		if c := kek.calls(); c != after {
			r.Violation("kek-used-after-open", -1, fmt.Sprintf("write #%d on a database handle that has been open since creation made %d call(s) to the key-encryption key", i+1, c-after), nil)
			return
		}
	}
	r.Eval(1)
	r.Distinct("long-lived handle")
}

// clientCacheModes: the client's file cache holds secret values by design; whatever was at its path before,
// after a write it is readable by the owner only (the harness runs with umask 0).
func clientCacheModes(t *testing.T, r *evid.Run, tmp string) {
	for _, pre := range []os.FileMode{0, 0o600, 0o644, 0o640, 0o666} {
		dir := filepath.Join(tmp, fmt.Sprintf("ccache-%o", pre), "nested")
		p := filepath.Join(dir, "cache.json")
		fc, err := setec.NewFileCache(p)
		if err != nil {
			t.Fatal(err)
		}
		if pre != 0 {
			os.WriteFile(p, []byte("{}"), pre)
			os.Chmod(p, pre)
		}
		for k := 0; k < 2; k++ {
			r.Eval(1)
			if err := fc.Write([]byte(fmt.Sprintf(`{"s":{"secret":{"Value":"c2VjcmV0","Version":%d},"lastAccess":"0"}}`, k+1))); err != nil {
				r.Violation("client-cache-write", -1, err.Error(), nil)
				continue
			}
			st, err := os.Stat(p)
			r.Count("client_cache_mode_checks", 1)
			if err != nil || st.Mode().Perm()&0o077 != 0 {
				r.Violation("mode-client-cache", -1, fmt.Sprintf("the client cache file (pre-existing with mode %o) has mode %o after a write: readable by others", pre, st.Mode().Perm()), nil)
			}
		}
		if st, err := os.Stat(dir); err == nil && st.Mode().Perm()&0o077 != 0 {
			r.Violation("mode-client-cache-dir", -1, fmt.Sprintf("the cache directory was created with mode %o", st.Mode().Perm()), nil)
		}
		r.Distinct(fmt.Sprintf("client cache pre-existing mode %o", pre))
	}
}

// rejectedBodiesOverHTTP: clients send requests the front door rejects - a put whose value was written as a
// plain string instead of base64, a body cut off in the middle - each carrying a marker value, while other
// clients are served normally. Afterwards no file in the state directory (the audit log is one of them)
// contains a marker in any form.
func rejectedBodiesOverHTTP(t *testing.T, r *evid.Run, tmp string) {
	dir := filepath.Join(tmp, "rejected-http")
	os.MkdirAll(dir, 0o700)
	rng := r.Rand(919191)
	aw, err := audit.NewFile(filepath.Join(dir, "audit.log"))
	if err != nil {
		t.Fatal(err)
	}
	defer aw.Close()
	d, err := db.Open(filepath.Join(dir, "db"), realdb.DummyKey("c05rej"), aw)
	if err != nil {
		t.Fatal(err)
	}
	srv, err := httpdrv.New(d)
	if err != nil {
		t.Fatal(err)
	}
	f := scan.NewFinder()
	const W = 8
	var wg sync.WaitGroup
	for w := 0; w < W; w++ {
		addr := fmt.Sprintf("100.64.5.%d:5", w+1)
		srv.SetWho(addr, httpdrv.Who{Login: fmt.Sprintf("c%d@verif", w), Node: "n", Rules: []refmodel.Rule{{Actions: []string{"get", "info", "put"}, Patterns: []string{"*"}}}})
		var marks []string
		for k := 0; k < r.N(40, 400); k++ {
			m := fmt.Sprintf("PLAINTEXT-MARKER-%d-%d-%x", w, k, rng.Uint64())
			marks = append(marks, m)
			f.Add("marker "+m, []byte(m))
		}
		wg.Add(1)
		go func(w int, addr string, marks []string) {
			defer wg.Done()
			for k, m := range marks {
				var body string
				switch k % 3 {
				case 0:
					body = fmt.Sprintf(`{"Name":"app/secret-%d","Value":%q}`, w, m) // not base64: rejected
				case 1:
					body = fmt.Sprintf(`{"Name":"app/secret-%d","Value":"%s`, w, m) // cut off
				default:
					body = fmt.Sprintf(`{"Name":"app/secret-%d","Value":[%q]}`, w, m) // wrong type
				}
				rep := srv.Raw("POST", "/api/put", addr, httpdrv.GoodHeaders, []byte(body))
				r.Count("rejected_request_bodies_sent", 1)
				if rep.Status >= 200 && rep.Status < 300 {
					r.Violation("malformed-put-accepted", -1, fmt.Sprintf("a put with body %.60q was answered %d", body, rep.Status), nil)
					return
				}
				// and ordinary traffic in between
				srv.Do(addr, ops.Op{Kind: ops.Info, Name: "app/none"})
				srv.Do(addr, ops.Op{Kind: ops.Put, Name: fmt.Sprintf("ok/%d", w), Value: []byte("fine")})
			}
		}(w, addr, marks)
	}
	wg.Wait()
	aw.Sync()
	ents, _ := os.ReadDir(dir)
	for _, e := range ents {
		b, _ := os.ReadFile(filepath.Join(dir, e.Name()))
		r.Eval(1)
		if hit, ok := f.Find(b); ok {
			r.Violation("value-in-audit-log", -1, fmt.Sprintf("after clients sent requests the front door rejected (each carrying a marker value), the file %s in the state directory contains %s", e.Name(), hit), nil)
			return
		}
	}
	r.Distinct("rejected bodies over HTTP")
}
