// C02 — the versioned secret store behaves exactly as its sequential
// specification. Reference-model monitor: generated histories are applied in
// lock-step to the real db.DB and to the map model; after EVERY step the
// result and the full observable state are compared, plus invariants computed
// from the real state alone.
package c02

import (
	"encoding/json"
	"errors"
	"fmt"
	"github.com/tailscale/setec/audit"
	"github.com/tailscale/setec/db"
	"os"
	"path/filepath"
	"runtime"
	"sync"
	"sync/atomic"
	"testing"
	"verif/harness/internal/httpdrv"

	"verif/harness/internal/evid"
	"verif/harness/internal/ops"
	"verif/harness/internal/realdb"
	"verif/harness/internal/refmodel"
)

type step struct {
	Op    string `json:"op"`
	Real  string `json:"real"`
	Model string `json:"model"`
}

func TestC02(t *testing.T) {
	r := evid.Start("C02", "exploration")
	defer r.Finish(t)
	r.Assume("the map model in harness/internal/refmodel is the meaning of the property statement",
		"the state is observed through List/Info/Get/GetVersion as a superuser")
	dir := evid.TempDir(t)
	nHist := r.N(3000, 60000)
	cfg := ops.GenCfg{
		Names:  []string{"a", "a", "a", "b", "b", "c/d", "", "_internal/x", "c/../a", "b/", "c//d", "./a", "x", "x", "_internal/_internal/x", " a", "a ", "b\n", "\ta", "base64:YQ==", "base64:Yg", "hex:61", "a%2f", "json:\"a\""},
		Values: [][]byte{[]byte(""), []byte("one"), []byte("two"), []byte("one"), {0, 255, '\n'}},
		Weights: map[ops.Kind]int{ops.List: 1, ops.Info: 2, ops.Get: 2, ops.GetVer: 3, ops.GetCond: 1,
			ops.Put: 10, ops.Act: 5, ops.DelVer: 7, ops.Delete: 1},
	}
	su := realdb.Super()
	var wg sync.WaitGroup
	nw := runtime.NumCPU()
	for w := 0; w < nw; w++ {
		wg.Add(1)
		go func(w int) {
			defer wg.Done()
			for h := w; h < nHist; h += nw {
				if r.Skip(h) {
					continue
				}
				rng := r.Rand(uint64(h))
				os.MkdirAll(filepath.Join(dir, fmt.Sprintf("h%d", h)), 0o700)
				path := filepath.Join(dir, fmt.Sprintf("h%d", h), "db")
				snk := &flakySink{}
				d, err := db.Open(path, realdb.DummyKey("c02"), audit.New(snk))
				if err != nil {
					r.Violation("open-fails", h, "creating a database failed: "+err.Error(), nil)
					continue
				}
				m := refmodel.New()
				n := 30 + rng.IntN(31)
				var trace []step
				issued := map[string]uint32{} // highest version issued per live name
				deletedNewest := map[string]bool{}
				everDeleted := map[string]bool{}
				bad := false
				for i := 0; i < n && !bad; i++ {
					op := ops.Gen(rng, m, cfg)
					pre := m.Clone()
					// now and then the server is restarted between two calls: the specification is about
					// the service, not about one process
					if rng.IntN(15) == 0 {
						d2, err := db.Open(path, realdb.DummyKey("c02"), audit.New(snk))
						if err != nil {
							r.Violation("reopen-fails", h, fmt.Sprintf("history %d: reopening the database failed: %v", h, err), map[string]any{"history": trace})
							break
						}
						d = d2
						trace = append(trace, step{"(restart)", "", ""})
						r.Count("restarts_inside_histories", 1)
					}
					// now and then the audit log cannot be made durable during a call (its Sync fails): the call
					// fails, and like every failed call it must change nothing
					if rng.IntN(14) == 0 {
						snk.failSync.Store(true)
						got := ops.ApplyReal(d, su, op)
						snk.failSync.Store(false)
						trace = append(trace, step{op.String() + " (audit log sync fails)", got.String(), ""})
						r.Eval(1)
						if got.Class == refmodel.Other {
							r.Count("calls_failed_by_audit_error", 1)
							real, err := realdb.Dump(d)
							if err != nil || real.Canon() != m.Canon() {
								r.Violation("failed-call-changed-state", h, fmt.Sprintf("history %d step %d (%s): the call failed (%s) but the state is now %v (err %v), it was %s", h, i, op, got.Err, real.Canon(), err, m.Canon()), map[string]any{"history": trace})
								break
							}
							// ... and the version counter has not moved either
							if op.Kind == ops.Put {
								want := ops.ApplyModel(m, nil, true, op)
								got2 := ops.ApplyReal(d, su, op)
								trace = append(trace, step{op.String() + " (retried)", got2.String(), want.String()})
								if !ops.Agree(want, got2) {
									r.Violation("failed-call-changed-state", h, fmt.Sprintf("history %d step %d: %s failed with the audit log down, and retried it returns %s; the model (in which the failed call never happened) says %s", h, i, op, got2, want), map[string]any{"history": trace})
									break
								}
								if want.Class == refmodel.OK {
									issued[op.Name] = max(issued[op.Name], want.Version)
								}
							}
							continue
						}
						// a call that needs no record (e.g. an unchanged conditional get, a miss) goes through as usual
						want := ops.ApplyModel(m, nil, true, op)
						if !ops.Agree(want, got) {
							r.Violation("result-differs", h, fmt.Sprintf("history %d step %d (%s, audit log sync failing): real %s, model %s", h, i, op, got, want), map[string]any{"history": trace})
							break
						}
						continue
					}
					// and now and then a call fails because the file system does: like every failed call it must change nothing
					if op.Kind.Mutating() && rng.IntN(12) == 0 {
						var got ops.Result
						realdb.BreakDir(path, func() { got = ops.ApplyReal(d, su, op) })
						want := ops.ApplyModel(m.Clone(), nil, true, op) // what it would have done
						changes := false
						{
							probe := m.Clone()
							ops.ApplyModel(probe, nil, true, op)
							changes = probe.CanonFull() != m.CanonFull()
						}
						trace = append(trace, step{op.String() + " (file system fails)", got.String(), want.String()})
						r.Eval(1)
						if changes {
							r.Count("calls_failed_by_io_error", 1)
							if got.Class == refmodel.OK {
								r.Violation("io-failure-reported-success", h, fmt.Sprintf("history %d step %d (%s): the save could not be written but the call reported success", h, i, op), map[string]any{"history": trace})
								break
							}
						}
						real, err := realdb.Dump(d)
						if err != nil || real.Canon() != m.Canon() {
							r.Violation("failed-call-changed-state", h, fmt.Sprintf("history %d step %d (%s): the call failed (%s) but the state is now %v (err %v), it was %s", h, i, op, got.Err, real.Canon(), err, m.Canon()), map[string]any{"history": trace})
							break
						}
						continue
					}
					want := ops.ApplyModel(m, nil, true, op)
					got := ops.ApplyReal(d, su, op)
					trace = append(trace, step{op.String(), got.String(), want.String()})
					r.Eval(1)
					fail := func(key, msg string) {
						r.Violation(key, h, fmt.Sprintf("history %d step %d (%s): %s", h, i, op, msg), map[string]any{"history": trace})
						bad = true
					}
					// precondition class for coverage
					preClass := "absent"
					if s := pre.S[op.Name]; s != nil {
						preClass = "present"
						switch {
						case op.Version == 0:
						case op.Version == s.Active:
							preClass = "v=active"
						case s.Versions[op.Version] != "" || func() bool { _, ok := s.Versions[op.Version]; return ok }():
							preClass = "v=inactive"
						case op.Version <= s.Latest:
							preClass = "v=deleted"
						default:
							preClass = "v=never"
						}
					}
					r.Distinct(fmt.Sprintf("%s/%s/%s", op.Kind, preClass, want.Class))
					if !ops.Agree(want, got) {
						fail("result-differs", fmt.Sprintf("real result %s, model %s (err %q)", got, want, got.Err))
						break
					}
					// named shapes
					if s := pre.S[op.Name]; s != nil {
						switch op.Kind {
						case ops.DelVer:
							if want.Class == refmodel.OK && op.Version == s.Latest {
								deletedNewest[op.Name] = true
								r.Count("shape_delete_newest_version", 1)
							}
						case ops.Put:
							if deletedNewest[op.Name] {
								if _, ok := s.Versions[s.Latest]; !ok {
									r.Count("shape_put_after_newest_deleted", 1)
									if len(op.Value) == 0 {
										r.Count("shape_put_empty_after_newest_deleted", 1)
									}
								}
							}
							if cur, ok := s.Versions[s.Latest]; ok && cur == string(op.Value) {
								r.Count("shape_put_duplicate_of_newest", 1)
							} else {
								for v, b := range s.Versions {
									if v != s.Latest && b == string(op.Value) {
										r.Count("shape_put_duplicate_of_older", 1)
										break
									}
								}
							}
						case ops.Act:
							if want.Class == refmodel.OK && op.Version < s.Active {
								r.Count("shape_activate_backwards", 1)
							}
						case ops.Delete:
							everDeleted[op.Name] = true
							delete(issued, op.Name)
							delete(deletedNewest, op.Name)
						}
					} else if op.Kind == ops.Put && want.Class == refmodel.OK && everDeleted[op.Name] {
						r.Count("shape_recreate_after_delete", 1)
					}
					if want.Class != refmodel.OK {
						r.Count("failed_calls", 1)
					}
					// invariants from the real side alone
					if op.Kind == ops.Put && got.Class == refmodel.OK {
						if prev, ok := issued[op.Name]; ok && got.Version < prev {
							fail("version-went-back", fmt.Sprintf("put returned version %d after %d had been issued", got.Version, prev))
							break
						}
						if got.Version > issued[op.Name] {
							issued[op.Name] = got.Version
						}
						rb := ops.ApplyReal(d, su, ops.Op{Kind: ops.GetVer, Name: op.Name, Version: got.Version})
						if rb.Class != refmodel.OK || rb.Bytes != string(op.Value) || rb.Version != got.Version {
							fail("put-not-retrievable", fmt.Sprintf("put returned version %d but get-version gives %s", got.Version, rb))
							break
						}
					}
					real, err := realdb.Dump(d)
					if err != nil {
						fail("state-inconsistent", err.Error())
						break
					}
					if real.Canon() != m.Canon() {
						fail("state-differs", fmt.Sprintf("full state after the step is %s, model %s", real.Canon(), m.Canon()))
						break
					}
					if want.Class != refmodel.OK && m.Canon() != pre.Canon() {
						panic("model bug: failed call changed the model")
					}
				}
				if h < 2 {
					r.Sample(map[string]any{"history": h, "steps": trace})
				}
				r.Count("histories", 1)
			}
		}(w)
	}
	wg.Wait()
	if r.Only < 0 {
		for i := 0; i < r.N(30, 300); i++ {
			overlappingPuts(t, r, dir, i)
		}
		for i := 0; i < r.N(150, 2000); i++ {
			httpHistory(t, r, dir, i)
		}
		for i := 0; i < r.N(40, 400); i++ {
			overlappingIdenticalPuts(t, r, dir, i)
		}
		for i := 0; i < r.N(3, 20); i++ {
			listsDuringChanges(t, r, dir, i)
		}
		for i := 0; i < r.N(4, 30); i++ {
			activateVersusDeleteVersion(t, r, dir, i)
		}
	}
	r.Require("activate_versus_delete_version_rounds", "lists_during_changes", "overlapping_identical_puts", "http_history_steps", "overlapping_puts", "histories", "restarts_inside_histories", "calls_failed_by_io_error", "calls_failed_by_audit_error", "failed_calls", "shape_delete_newest_version", "shape_put_after_newest_deleted", "shape_put_empty_after_newest_deleted",
		"shape_put_duplicate_of_newest", "shape_put_duplicate_of_older", "shape_activate_backwards", "shape_recreate_after_delete")
	r.Rule("seeded random histories of 30-60 operations (all 9 operations, weighted towards put/activate/delete-version) over 3 ordinary names plus the empty and a reserved name, values from a 4-element pool incl. the empty value; oracle after every step. A case is distinct by (operation, precondition class of its name/version argument, model outcome class); named shapes are counted in 'observed'")
}

// flakySink is an audit sink whose Sync can be made to fail (the record reached the page cache, not the disk).
type flakySink struct{ failSync atomic.Bool }

func (s *flakySink) Write(p []byte) (int, error) { return len(p), nil }
func (s *flakySink) Sync() error {
	if s.failSync.Load() {
		return errors.New("injected: audit log fsync failed")
	}
	return nil
}

// overlappingPuts: the per-call clauses of the specification when calls overlap: several clients put distinct
// values under ONE name at once. Every put returns a version number of its own, and that number is bound to
// the bytes of that very put, at once and for good.
func overlappingPuts(t *testing.T, r *evid.Run, dir string, idx int) {
	r.Eval(1)
	os.MkdirAll(filepath.Join(dir, fmt.Sprintf("op%d", idx)), 0o700)
	d, err := realdb.Open(filepath.Join(dir, fmt.Sprintf("op%d", idx), "db"), realdb.DummyKey("c02op"))
	if err != nil {
		t.Error(err)
		return
	}
	su := realdb.Super()
	const W, K = 8, 8
	type rec struct {
		v   uint32
		val string
	}
	got := make([][]rec, W)
	var wg sync.WaitGroup
	var gate atomic.Bool
	var bad atomic.Int32
	for w := 0; w < W; w++ {
		wg.Add(1)
		go func(w int) {
			defer wg.Done()
			for !gate.Load() {
			}
			for k := 0; k < K; k++ {
				val := fmt.Sprintf("case %d writer %d value %d", idx, w, k)
				res := ops.ApplyReal(d, su, ops.Op{Kind: ops.Put, Name: "shared", Value: []byte(val)})
				r.Count("overlapping_puts", 1)
				if res.Class != refmodel.OK {
					if bad.Add(1) <= 2 {
						r.Violation("result-differs", idx, fmt.Sprintf("overlapping puts case %d: put of %q failed: %s", idx, val, res), nil)
					}
					return
				}
				got[w] = append(got[w], rec{res.Version, val})
				back := ops.ApplyReal(d, su, ops.Op{Kind: ops.GetVer, Name: "shared", Version: res.Version})
				if (back.Class != refmodel.OK || back.Bytes != val) && bad.Add(1) <= 2 {
					r.Violation("put-result-not-retrievable", idx, fmt.Sprintf("overlapping puts case %d: Put(%q) returned version %d, but version %d holds %q (%s)", idx, val, res.Version, res.Version, back.Bytes, back.Class), nil)
				}
			}
		}(w)
	}
	gate.Store(true)
	wg.Wait()
	if bad.Load() > 0 {
		return
	}
	seen := map[uint32]string{}
	for w := range got {
		last := uint32(0)
		for _, rc := range got[w] {
			if prev, dup := seen[rc.v]; dup {
				r.Violation("version-issued-twice", idx, fmt.Sprintf("overlapping puts case %d: version %d was returned for %q and for %q", idx, rc.v, prev, rc.val), nil)
				return
			}
			seen[rc.v] = rc.val
			if rc.v <= last {
				r.Violation("versions-went-back", idx, fmt.Sprintf("overlapping puts case %d: writer %d received version %d after version %d", idx, w, rc.v, last), nil)
				return
			}
			last = rc.v
		}
	}
	for v, val := range seen {
		back := ops.ApplyReal(d, su, ops.Op{Kind: ops.GetVer, Name: "shared", Version: v})
		if back.Class != refmodel.OK || back.Bytes != val {
			r.Violation("bytes-of-a-version-changed", idx, fmt.Sprintf("overlapping puts case %d: version %d was acknowledged for %q and now holds %q (%s)", idx, v, val, back.Bytes, back.Class), nil)
			return
		}
	}
	if len(seen) != W*K {
		r.Violation("result-differs", idx, fmt.Sprintf("overlapping puts case %d: %d puts, %d distinct versions", idx, W*K, len(seen)), nil)
	}
	r.Distinct("overlapping puts on one name")
}

// httpHistory: the same specification through the real front door (handlers registered by server.New), with
// request bodies as clients really send them: an empty value as "", as null or left out altogether.
func httpHistory(t *testing.T, r *evid.Run, dir string, idx int) {
	r.Eval(1)
	rng := r.Rand(uint64(77_000_000 + idx))
	d, err := realdb.Open(filepath.Join(dir, fmt.Sprintf("http%d.db", idx)), realdb.DummyKey("c02h"))
	if err != nil {
		t.Error(err)
		return
	}
	srv, err := httpdrv.New(d)
	if err != nil {
		t.Error(err)
		return
	}
	const addr = "100.64.0.2:2"
	all := []refmodel.Rule{{Actions: []string{"get", "info", "put", "activate", "delete"}, Patterns: []string{"*"}}}
	srv.SetWho(addr, httpdrv.Who{Login: "c02@verif", Node: "c02", Rules: all})
	cfg := ops.GenCfg{Names: []string{"a", "a", "b", "c/d"}, Values: [][]byte{nil, {}, []byte("one"), []byte("two"), nil},
		Weights: map[ops.Kind]int{ops.List: 1, ops.Info: 2, ops.Get: 2, ops.GetVer: 2, ops.GetCond: 1, ops.Put: 10, ops.Act: 4, ops.DelVer: 5, ops.Delete: 1}}
	m := refmodel.New()
	var trace []string
	for i := 0; i < 30; i++ {
		op := ops.Gen(rng, m, cfg)
		if op.Kind == ops.GetVer && op.Version == 0 {
			op.Kind = ops.Get
		}
		want := ops.ApplyModel(m, nil, true, op)
		var got ops.Result
		var rep httpdrv.Reply
		ok := true
		if op.Kind == ops.Put && len(op.Value) == 0 && rng.IntN(3) == 0 {
			// the value left out of the request altogether
			b, _ := json.Marshal(map[string]any{"Name": op.Name})
			rep = srv.Raw("POST", "/api/put", addr, httpdrv.GoodHeaders, b)
			got, ok = httpdrv.Interpret(op, rep)
		} else {
			got, rep, ok = srv.Do(addr, op)
		}
		spelled := ""
		if op.Kind == ops.Put && len(op.Value) == 0 {
			spelled = fmt.Sprintf(" (empty value, nil=%t)", op.Value == nil)
			r.Count("http_puts_of_an_empty_value", 1)
		}
		trace = append(trace, fmt.Sprintf("%s%s -> %d %s", op, spelled, rep.Status, got))
		r.Count("http_history_steps", 1)
		if !ok || !ops.Agree(want, got) {
			r.Violation("result-differs", idx, fmt.Sprintf("http history %d step %d: %s%s answered %d (%s), the specification says %s", idx, i, op, spelled, rep.Status, got, want), map[string]any{"history": trace})
			return
		}
		real, err := realdb.Dump(d)
		if err != nil || real.Canon() != m.Canon() {
			r.Violation("state-differs", idx, fmt.Sprintf("http history %d step %d (%s): state differs from the model (err %v)", idx, i, op, err), map[string]any{"history": trace})
			return
		}
	}
	r.Distinct("http history")
}

// overlappingIdenticalPuts: several clients put the SAME new bytes under one name at the same moment (a fleet
// rolling out one credential). In any order of those calls the first stores a version and all the others find
// it is the latest and are told its number: one new version, one number for everybody.
func overlappingIdenticalPuts(t *testing.T, r *evid.Run, dir string, idx int) {
	r.Eval(1)
	d, err := realdb.Open(filepath.Join(dir, fmt.Sprintf("oip%d.db", idx)), realdb.DummyKey("c02oip"))
	if err != nil {
		t.Error(err)
		return
	}
	su := realdb.Super()
	rng := r.Rand(uint64(88_000_000 + idx))
	// (values that differ from the latest one only in their last byte: the comparison with the latest version
	// takes as long as it can, which widens whatever window there is between that check and the store)
	size := []int{8, 4096, 1 << 18, 1 << 20}[idx%4]
	val := make([]byte, size)
	for k := range val {
		val[k] = byte('a' + rng.IntN(26))
	}
	d.Put(su, "shared", append([]byte(nil), val...))
	for round := 0; round < 4; round++ {
		val[size-1]++
		const W = 8
		vers := make([]uint32, W)
		var wg sync.WaitGroup
		var gate atomic.Bool
		for w := 0; w < W; w++ {
			wg.Add(1)
			go func(w int) {
				defer wg.Done()
				mine := append([]byte(nil), val...)
				for !gate.Load() {
				}
				res := ops.ApplyReal(d, su, ops.Op{Kind: ops.Put, Name: "shared", Value: mine})
				vers[w] = res.Version
			}(w)
		}
		gate.Store(true)
		wg.Wait()
		r.Count("overlapping_identical_puts", W)
		for w := 1; w < W; w++ {
			if vers[w] != vers[0] || vers[w] == 0 {
				in, _ := d.Info(su, "shared")
				r.Violation("result-differs", idx, fmt.Sprintf("case %d round %d: %d overlapping puts of the same %d bytes returned versions %v; the secret now has versions %v - in every order of those calls all but the first find the value is the latest one", idx, round, W, size, vers, in.Versions), nil)
				return
			}
		}
		if in, err := d.Info(su, "shared"); err != nil || len(in.Versions) != round+2 {
			r.Violation("state-differs", idx, fmt.Sprintf("case %d round %d: after %d rounds of identical puts the secret has versions %v (err %v), want %d", idx, round, round+1, in.Versions, err, round+2), nil)
			return
		}
	}
	r.Distinct("overlapping identical puts")
}

// listsDuringChanges: List while another caller keeps changing the database. A listing is the state at ONE
// instant: it never fails because a secret went away meanwhile, and it never shows the second secret of a pair
// ahead of the first when every change touches the first one first.
func listsDuringChanges(t *testing.T, r *evid.Run, dir string, idx int) {
	r.Eval(1)
	d, err := realdb.Open(filepath.Join(dir, fmt.Sprintf("ldc%d.db", idx)), realdb.DummyKey("c02ldc"))
	if err != nil {
		t.Error(err)
		return
	}
	su := realdb.Super()
	// (a reader with many rules: evaluating them per name is what makes a listing take its time)
	var rules []refmodel.Rule
	for k := 0; k < 12; k++ {
		rules = append(rules, refmodel.Rule{Actions: []string{"info"}, Patterns: []string{fmt.Sprintf("no-such-%d/*", k)}})
	}
	rules = append(rules, refmodel.Rule{Actions: []string{"info"}, Patterns: []string{"*"}})
	reader := realdb.Caller("lister@verif", rules)
	nfill := []int{40, 150, 300}[idx%3]
	for k := 0; k < nfill; k++ {
		d.Put(su, fmt.Sprintf("mm/fill-%03d", k), []byte("x"))
	}
	stop := make(chan struct{})
	done := make(chan struct{})
	go func() {
		defer close(done)
		for n := 0; ; n++ {
			select {
			case <-stop:
				return
			default:
			}
			// first, then last; taken away in the opposite order
			d.Put(su, "aa/first", []byte(fmt.Sprint("v", n)))
			d.Put(su, "zz/last", []byte(fmt.Sprint("v", n)))
			if n%3 == 2 {
				d.Delete(su, "zz/last")
				d.Delete(su, "aa/first")
			}
		}
	}()
	for k, n := 0, r.N(150, 1500); k < n; k++ {
		infos, err := d.List(reader)
		r.Count("lists_during_changes", 1)
		if err != nil {
			r.Violation("list-fails-during-changes", idx, fmt.Sprintf("case %d: List call %d over %d secrets failed with %v while another caller was creating and deleting secrets; a listing is the state at one instant and has no reason to fail", idx, k, nfill+2, err), nil)
			break
		}
		var first, last *int
		fill := 0
		for _, in := range infos {
			nv := len(in.Versions)
			switch {
			case in.Name == "aa/first":
				first = &nv
			case in.Name == "zz/last":
				last = &nv
			default:
				fill++
			}
		}
		if fill != nfill {
			r.Violation("list-differs", idx, fmt.Sprintf("case %d: List call %d shows %d of the %d untouched secrets", idx, k, fill, nfill), nil)
			break
		}
		if last != nil && (first == nil || *first < *last) {
			f := -1
			if first != nil {
				f = *first
			}
			r.Violation("list-not-one-instant", idx, fmt.Sprintf("case %d: List call %d shows zz/last with %d versions and aa/first with %d (-1 = absent); every change touches aa/first before zz/last (and removes zz/last first), so at no instant is zz/last ahead", idx, k, *last, f), nil)
			break
		}
	}
	close(stop)
	<-done
	r.Distinct("lists during changes")
}

// activateVersusDeleteVersion: "activate 2" and "delete-version 2" of one secret arrive together (other callers
// keep the database busy with puts elsewhere). In either order exactly one of the two succeeds, and whichever
// it is, the active version exists afterwards.
func activateVersusDeleteVersion(t *testing.T, r *evid.Run, dir string, idx int) {
	r.Eval(1)
	d, err := realdb.Open(filepath.Join(dir, fmt.Sprintf("avd%d.db", idx)), realdb.DummyKey("c02avd"))
	if err != nil {
		t.Error(err)
		return
	}
	su := realdb.Super()
	var stop atomic.Bool
	var bg sync.WaitGroup
	for w := 0; w < 3; w++ {
		bg.Add(1)
		go func(w int) {
			defer bg.Done()
			for n := 0; !stop.Load(); n++ {
				d.Put(su, fmt.Sprintf("busy/%d", w), []byte(fmt.Sprint("v", n)))
			}
		}(w)
	}
	defer func() { stop.Store(true); bg.Wait() }()
	for round, n := 0, r.N(60, 600); round < n; round++ {
		name := fmt.Sprintf("s/%d", round)
		d.Put(su, name, []byte("one"))
		d.Put(su, name, []byte("two"))
		var gate atomic.Bool
		var wg sync.WaitGroup
		var aerr, derr error
		wg.Add(2)
		go func() {
			defer wg.Done()
			for !gate.Load() {
			}
			aerr = d.Activate(su, name, 2)
		}()
		go func() {
			defer wg.Done()
			for !gate.Load() {
			}
			if round%2 == 0 {
				runtime.Gosched()
			}
			derr = d.DeleteVersion(su, name, 2)
		}()
		gate.Store(true)
		wg.Wait()
		r.Count("activate_versus_delete_version_rounds", 1)
		in, ierr := d.Info(su, name)
		if ierr != nil {
			r.Violation("state-inconsistent", idx, fmt.Sprintf("case %d round %d: Info after activate 2 / delete-version 2: %v", idx, round, ierr), nil)
			return
		}
		hasActive := false
		for _, v := range in.Versions {
			if v == in.ActiveVersion {
				hasActive = true
			}
		}
		_, gerr := d.Get(su, name)
		if !hasActive || gerr != nil || (aerr == nil) == (derr == nil) {
			r.Violation("state-inconsistent", idx, fmt.Sprintf("case %d round %d: activate 2 returned %v and delete-version 2 returned %v at about the same time; afterwards the secret has versions %v, active %d, and Get says %v. In either order of the two calls exactly one succeeds and the active version exists", idx, round, aerr, derr, in.Versions, in.ActiveVersion, gerr), nil)
			return
		}
	}
	r.Distinct("activate versus delete-version")
}
