// C12 — a Secret handle always yields a complete, really-served value, never
// blocking. Self-describing values (name|serial|random|crc) served by a
// scripted service let every read be validated in O(1) and ordered by
// install; reader goroutines run against a background poller on a fast
// ticker, explicit refreshes, lookups, expiry sweeps and Close under the Go
// race detector; a parked-request probe decides "never waits for the
// service".
package c12

import (
	"context"
	"encoding/binary"
	"encoding/json"
	"errors"
	"fmt"
	"hash/crc32"
	"math/rand/v2"
	"runtime"
	"strings"
	"sync"
	"sync/atomic"
	"testing"
	"time"

	"github.com/tailscale/setec/client/setec"
	"github.com/tailscale/setec/types/api"

	"verif/harness/internal/evid"
	"verif/harness/internal/fakesvc"
)

// mkValue builds name|serial|32 random bytes|crc32.
func mkValue(name string, serial uint64, rng *rand.Rand) []byte {
	b := []byte(name)
	b = append(b, '|')
	b = binary.BigEndian.AppendUint64(b, serial)
	for i := 0; i < 32; i++ {
		b = append(b, byte(rng.IntN(256)))
	}
	return binary.BigEndian.AppendUint32(b, crc32.ChecksumIEEE(b))
}

// parse validates a value and returns its name and serial.
func parse(b []byte) (string, uint64, bool) {
	if len(b) < 1+8+32+4 {
		return "", 0, false
	}
	body, sum := b[:len(b)-4], binary.BigEndian.Uint32(b[len(b)-4:])
	if crc32.ChecksumIEEE(body) != sum {
		return "", 0, false
	}
	name := string(body[:len(body)-41])
	if body[len(body)-41] != '|' {
		return "", 0, false
	}
	return name, binary.BigEndian.Uint64(body[len(body)-40 : len(body)-32]), true
}

type world struct {
	mu     sync.Mutex
	svc    *fakesvc.Service
	rng    *rand.Rand
	serial uint64
	ver    map[string]uint32
	served map[string]map[uint64]string // name -> serial -> exact bytes set on the service
}

func (w *world) bump(name string) uint64 {
	w.mu.Lock()
	defer w.mu.Unlock()
	w.serial++
	w.ver[name]++
	v := mkValue(name, w.serial, w.rng)
	if w.served[name] == nil {
		w.served[name] = map[uint64]string{}
	}
	w.served[name][w.serial] = string(v)
	w.svc.Set(name, w.ver[name], v)
	return w.serial
}

func (w *world) wasSet(name string, serial uint64, b []byte) bool {
	w.mu.Lock()
	defer w.mu.Unlock()
	return w.served[name][serial] == string(b)
}

func (w *world) current(name string) uint64 {
	w.mu.Lock()
	defer w.mu.Unlock()
	var max uint64
	for s := range w.served[name] {
		if s > max {
			max = s
		}
	}
	return max
}

type fastTicker struct {
	ch   chan time.Time
	stop chan struct{}
	once sync.Once
}

func (f *fastTicker) Chan() <-chan time.Time { return f.ch }
func (f *fastTicker) Stop()                  { f.once.Do(func() { close(f.stop) }) }
func (f *fastTicker) Done()                  {}

func TestC12(t *testing.T) {
	r := evid.Start("C12", "exploration")
	defer r.Finish(t)
	r.Assume("values are self-describing (name|serial|random|crc32) so a torn, foreign or never-served value is recognised on every read",
		"the scripted service only moves forward, so install order = serial order",
		"'never waits for a request' is decided while a request is parked by construction: the probe must finish; if it does not, three stack samples showing the prober on the store mutex are the witness, anything else is inconclusive")
	reps := r.N(120, 1500)
	for rep := 0; rep < reps; rep++ {
		if r.Skip(rep) {
			continue
		}
		stressRep(t, r, rep)
	}
	probes := r.N(300, 3000)
	for p := 0; p < probes; p++ {
		if r.Skip(reps + p) {
			continue
		}
		parkedProbe(t, r, reps+p)
	}
	if r.Only < 0 {
		racingLookups(t, r)
		rollbacks(t, r)
		for i := 0; i < 24; i++ {
			afterClose(t, r, i)
		}
		updaterStorm(t, r)
		emptyValues(t, r)
		damagedCacheEntries(t, r)
		handlesAfterFailedCalls(t, r)
		storesOfTwoServices(t, r)
		for i := 0; i < r.N(12, 90); i++ {
			idleLookupsAcrossAPoll(t, r, i)
		}
	}
	r.Require("handles_beside_a_store_of_another_service", "handle_calls_after_a_failed_call", "starts_from_a_damaged_cache", "idle_lookups_across_a_poll", "empty_value_reads", "rollback_polls_after_a_failed_poll", "handle_reads_during_updater_storm", "reads_after_close_with_cache_fault", "rollback_polls", "handles_from_racing_lookups", "reads_validated", "reads_after_close", "polls_completed", "lookups_during_reads", "expiry_sweeps", "parked_probes_completed", "reader_serial_transitions", "read_after_poll_checks", "handles_obtained_during_poll")
	r.Rule("stress repetitions: 16 reader goroutines over handles of 3 declared + up to 4 looked-up secrets, concurrent with a background poller on a fast ticker, explicit Refresh callers, a service that keeps installing new values, lookups of fresh names, expiry sweeps driven by an injected clock, then Close with readers continuing; every read validated. Parked-request probes: while a poll/lookup/initial request is parked in the service, every handle is called 100 times. Distinct = (reader serial transition kind x concurrent event) and probe kinds")
}

func stressRep(t *testing.T, r *evid.Run, rep int) {
	r.Eval(1)
	rng := r.Rand(uint64(rep))
	w := &world{svc: fakesvc.New(), rng: rand.New(rand.NewPCG(uint64(rep), 17)), ver: map[string]uint32{}, served: map[string]map[uint64]string{}}
	declared := []string{"d/a", "d/b", "d/c"}
	extra := []string{"x/1", "x/2", "x/3", "x/4"}
	for _, n := range append(append([]string{}, declared...), extra...) {
		w.bump(n)
	}
	var delayMu sync.Mutex
	var quiet atomic.Bool // set when the final, decisive polls run
	drng := rand.New(rand.NewPCG(uint64(rep), 23))
	w.svc.Behave = func(q *fakesvc.Req) fakesvc.Behaviour {
		delayMu.Lock()
		defer delayMu.Unlock()
		switch drng.IntN(8) {
		case 0:
			return fakesvc.Behaviour{Delay: time.Duration(drng.IntN(300)) * time.Microsecond}
		case 1:
			runtime.Gosched()
		case 2:
			if q.Cond && !quiet.Load() {
				return fakesvc.Behaviour{Fail: fakesvc.ErrInjected} // a poll request fails now and then (error paths run beside lookups)
			}
		}
		return fakesvc.Behaviour{}
	}
	var now atomic.Int64
	now.Store(1_700_000_000)
	tick := &fastTicker{ch: make(chan time.Time), stop: make(chan struct{})}
	cdoc := map[string]any{}
	for _, n := range extra {
		v, _ := w.svc.Active(n)
		cdoc[n] = map[string]any{"secret": map[string]any{"Value": v.Bytes, "Version": v.Version}, "lastAccess": "1699990000"}
	}
	cbytes, _ := json.Marshal(cdoc)
	st, err := setec.NewStore(context.Background(), setec.StoreConfig{Client: w.svc, Secrets: declared, AllowLookup: true, Cache: &fakesvc.MonCache{Initial: cbytes},
		PollTicker: tick, ExpiryAge: time.Hour, TimeNow: func() time.Time { return time.Unix(now.Load(), 0) }, Logf: func(string, ...any) {}})
	if err != nil {
		t.Fatalf("NewStore: %v", err)
	}
	// Mode "mixed": background ticks + two explicit refreshers (polls coalesce, so a caller cannot tell
	// which poll it joined: no poll floor, only cross-reader monotonicity). Mode "sole": one explicit
	// refresher and no ticks, so each nil Refresh is a poll that began after the call: it must have
	// installed at least what the service had when it was called.
	sole := rep%2 == 1
	var maxSeen sync.Map // name -> *atomic.Uint64 : highest serial returned by a completed read
	for _, n := range declared {
		maxSeen.Store(n, new(atomic.Uint64))
	}
	var closed atomic.Bool
	var event atomic.Value // what is going on concurrently (for coverage classes)
	event.Store("idle")
	stopReaders := make(chan struct{})
	stopDrivers := make(chan struct{})
	var wgR, wgD sync.WaitGroup
	violate := func(key, msg string) {
		r.Violation(key, rep, fmt.Sprintf("stress repetition %d: %s", rep, msg), nil)
	}
	// poll floor: highest serial per declared name that a completed poll must have installed
	var floorMu sync.Mutex
	floor := map[string]uint64{}
	// readers
	for g := 0; g < 16; g++ {
		wgR.Add(1)
		seed := rng.Uint64()
		go func(g int) {
			defer wgR.Done()
			grng := rand.New(rand.NewPCG(seed, uint64(g)))
			defer func() {
				if p := recover(); p != nil {
					buf := make([]byte, 4096)
					buf = buf[:runtime.Stack(buf, false)]
					violate("handle-panics", fmt.Sprintf("a handle call panicked: %v\n%s", p, buf))
				}
			}()
			handles := map[string]setec.Secret{}
			for _, n := range declared {
				handles[n] = st.Secret(n)
			}
			last := map[string]uint64{}
			for i := 0; ; i++ {
				select {
				case <-stopReaders:
					return
				default:
				}
				// occasionally look up an undeclared name
				if grng.IntN(50) == 0 && !closed.Load() {
					n := extra[grng.IntN(len(extra))]
					if grng.IntN(2) == 0 {
						// the name may still be known from the start-up cache (or an earlier lookup): plain Secret()
						if h := st.Secret(n); h != nil {
							handles[n] = h
						}
					} else if h, err := st.LookupSecret(context.Background(), n); err == nil {
						handles[n] = h
						r.Count("lookups_during_reads", 1)
					}
				}
				for n, h := range handles {
					isDecl := strings.HasPrefix(n, "d/")
					var fl uint64
					if isDecl {
						floorMu.Lock()
						fl = floor[n]
						floorMu.Unlock()
					}
					var seenBefore uint64
					var ms *atomic.Uint64
					if isDecl {
						v, _ := maxSeen.Load(n)
						ms = v.(*atomic.Uint64)
						seenBefore = ms.Load()
					}
					b := h.Get()
					name, serial, ok := parse(b)
					r.Count("reads_validated", 1)
					if closed.Load() {
						r.Count("reads_after_close", 1)
					}
					if !ok {
						violate("torn-value", fmt.Sprintf("handle of %q returned %d bytes that are not a complete served value: %x", n, len(b), b))
						return
					}
					if name != n {
						violate("foreign-value", fmt.Sprintf("handle of %q returned a value of %q", n, name))
						return
					}
					if !w.wasSet(n, serial, b) {
						violate("never-served-value", fmt.Sprintf("handle of %q returned serial %d with bytes the service never had", n, serial))
						return
					}
					if isDecl {
						if serial < last[n] {
							violate("reader-went-backwards", fmt.Sprintf("a reader of %q saw install serial %d after %d", n, serial, last[n]))
							return
						}
						if serial < seenBefore {
							violate("read-older-than-completed-read", fmt.Sprintf("a read of %q had already returned install serial %d when this read began, which returned serial %d", n, seenBefore, serial))
							return
						}
						for {
							cur := ms.Load()
							if serial <= cur || ms.CompareAndSwap(cur, serial) {
								break
							}
						}
						if serial < fl {
							violate("stale-after-completed-poll", fmt.Sprintf("a poll that must have installed serial >= %d of %q had completed before this read began, which returned serial %d", fl, n, serial))
							return
						}
						if fl > 0 {
							r.Count("read_after_poll_checks", 1)
						}
						if serial != last[n] && last[n] != 0 {
							r.Count("reader_serial_transitions", 1)
							r.Distinct(fmt.Sprintf("transition during %s", event.Load()))
						}
						last[n] = serial
					}
				}
				if i%64 == 0 {
					runtime.Gosched()
				}
			}
		}(g)
	}
	// background ticks
	wgD.Add(1)
	go func() {
		defer wgD.Done()
		if sole {
			return
		}
		for {
			select {
			case <-stopDrivers:
				return
			case <-tick.stop:
				return
			case tick.ch <- time.Now():
				event.Store("background-poll")
				time.Sleep(50 * time.Microsecond)
			}
		}
	}()
	// service keeps installing
	wgD.Add(1)
	go func() {
		defer wgD.Done()
		all := append(append([]string{}, declared...), extra...)
		lrng := rand.New(rand.NewPCG(uint64(rep), 31))
		for {
			select {
			case <-stopDrivers:
				return
			default:
			}
			w.bump(all[lrng.IntN(len(all))])
			time.Sleep(time.Duration(20+lrng.IntN(100)) * time.Microsecond)
		}
	}()
	// explicit refreshers: record the poll floor
	nRef := 2
	if sole {
		nRef = 1
	}
	for k := 0; k < nRef; k++ {
		wgD.Add(1)
		go func() {
			defer wgD.Done()
			for {
				select {
				case <-stopDrivers:
					return
				default:
				}
				before := map[string]uint64{}
				for _, n := range declared {
					before[n] = w.current(n)
				}
				event.Store("explicit-refresh")
				if err := st.Refresh(context.Background()); err == nil {
					if sole {
						floorMu.Lock()
						for n, s := range before {
							if s > floor[n] {
								floor[n] = s
							}
						}
						floorMu.Unlock()
					}
					r.Count("polls_completed", 1)
				}
				time.Sleep(100 * time.Microsecond)
			}
		}()
	}
	// expiry sweeps: jump the clock forward so unreferenced undeclared secrets age out
	wgD.Add(1)
	go func() {
		defer wgD.Done()
		for {
			select {
			case <-stopDrivers:
				return
			default:
			}
			time.Sleep(2 * time.Millisecond)
			now.Add(2 * 3600)
			event.Store("expiry-sweep")
			r.Count("expiry_sweeps", 1)
		}
	}()
	time.Sleep(time.Duration(r.N(60, 120)) * time.Millisecond)
	close(stopDrivers)
	wgD.Wait()
	if rep < 2 {
		r.Sample(map[string]any{"stress_repetition": rep, "mode": map[bool]string{true: "sole refresher", false: "background ticks + 2 refreshers"}[sole],
			"declared": declared, "undeclared_from_cache": extra, "highest_serial_installed_on_service": w.current("d/a"), "polls_completed_so_far": r.Get("polls_completed")})
	}
	event.Store("close")
	st.Close()
	closed.Store(true)
	time.Sleep(5 * time.Millisecond) // readers continue after Close
	close(stopReaders)
	wgR.Wait()
	tick.Stop()
}

// parkedProbe: while a request to the service is outstanding, every handle call completes.
func parkedProbe(t *testing.T, r *evid.Run, idx int) {
	r.Eval(1)
	rng := r.Rand(uint64(idx))
	w := &world{svc: fakesvc.New(), rng: rand.New(rand.NewPCG(uint64(idx), 5)), ver: map[string]uint32{}, served: map[string]map[uint64]string{}}
	names := []string{"p/a", "p/b", "p/c"}
	for _, n := range append(names, "p/late") {
		w.bump(n)
	}
	kind := []string{"poll", "lookup", "poll-first-request", "poll-last-request"}[rng.IntN(4)]
	release := make(chan struct{})
	parked := make(chan string, 8)
	armed := false
	nthCond := 0
	target := 0
	switch kind {
	case "poll":
		target = rng.IntN(len(names))
	case "poll-last-request":
		target = len(names) - 1
	}
	release2 := make(chan struct{})
	parked2 := make(chan string, 8)
	w.svc.Behave = func(q *fakesvc.Req) fakesvc.Behaviour {
		if !armed {
			return fakesvc.Behaviour{}
		}
		if q.Name == "p/stale" {
			// nobody has any business asking for this one during the probed operation; if somebody does,
			// that request is parked as well, and handles are probed again while it is
			parked2 <- q.Name
			return fakesvc.Behaviour{Hold: release2}
		}
		if kind == "lookup" {
			if q.Name == "p/late" {
				parked <- q.Name
				return fakesvc.Behaviour{Hold: release}
			}
			return fakesvc.Behaviour{}
		}
		if q.Cond {
			i := nthCond
			nthCond++
			if i == target {
				parked <- q.Name
				return fakesvc.Behaviour{Hold: release}
			}
		}
		return fakesvc.Behaviour{}
	}
	// the start-up cache also supplies an undeclared secret nobody holds a handle for, last read long ago
	w.bump("p/stale")
	staleVal, _ := w.svc.Active("p/stale")
	doc, _ := json.Marshal(map[string]any{"p/stale": map[string]any{"secret": map[string]any{"Value": staleVal.Bytes, "Version": staleVal.Version}, "lastAccess": "1000"}})
	st, err := setec.NewStore(context.Background(), setec.StoreConfig{Client: w.svc, Secrets: names, AllowLookup: true, Cache: &fakesvc.MonCache{Initial: doc},
		ExpiryAge: time.Hour, PollInterval: -1, Logf: func(string, ...any) {}})
	if err != nil {
		t.Fatalf("NewStore: %v", err)
	}
	defer st.Close()
	handles := map[string]setec.Secret{}
	for _, n := range names {
		handles[n] = st.Secret(n)
	}
	for _, n := range names {
		w.bump(n)
	}
	armed = true
	opDone := make(chan struct{})
	go func() {
		defer close(opDone)
		if kind == "lookup" {
			st.LookupSecret(context.Background(), "p/late")
		} else {
			st.Refresh(context.Background())
		}
	}()
	select {
	case <-parked:
	case <-opDone:
		r.Inconclusive(fmt.Sprintf("probe %d (%s): the operation finished without parking a request", idx, kind))
		return
	case <-time.After(20 * time.Second):
		r.Inconclusive(fmt.Sprintf("probe %d (%s): no request was parked within 20 s", idx, kind))
		close(release)
		return
	}
	// A handle obtained while the poll is in flight (for a secret the poll's snapshot saw as stale and
	// unreferenced) must keep working after the poll has applied its updates.
	var lateHandle setec.Secret
	if kind != "lookup" && rng.IntN(2) == 0 {
		lateHandle = st.Secret("p/stale")
		if lateHandle == nil {
			r.Violation("cached-secret-unknown", idx, "a secret supplied by the start-up cache is unknown to Secret()", nil)
		}
		r.Count("handles_obtained_during_poll", 1)
	}
	proberDone := make(chan struct{})
	var proberID atomic.Int64
	go func() {
		defer close(proberDone)
		proberID.Store(1)
		for i := 0; i < 100; i++ {
			for n, h := range handles {
				b := h.Get()
				if name, _, ok := parse(b); !ok || name != n {
					r.Violation("torn-value", idx, fmt.Sprintf("probe %d: handle of %q returned an invalid value while a request was parked", idx, n), nil)
					return
				}
			}
		}
	}()
	select {
	case <-proberDone:
		if idx%25 == 0 {
			r.Sample(map[string]any{"parked_probe": idx, "kind": kind, "handle_obtained_during_poll": lateHandle != nil, "result": "100 calls of every handle completed while the request was parked"})
		}
		r.Count("parked_probes_completed", 1)
		r.Distinct("probe " + kind)
	case <-time.After(5 * time.Second):
		// not finished: witness = prober on the store mutex in three consecutive samples
		stuck := 0
		var lastDump string
		for s := 0; s < 3; s++ {
			buf := make([]byte, 1<<20)
			buf = buf[:runtime.Stack(buf, true)]
			lastDump = string(buf)
			onMutex := false
			for _, g := range strings.Split(lastDump, "\n\n") {
				if strings.Contains(g, "c12.parkedProbe.func") && strings.Contains(g, "sync.(*Mutex).Lock") && strings.Contains(g, "client/setec.(*Store)") {
					onMutex = true
				}
			}
			if onMutex {
				stuck++
			}
			time.Sleep(300 * time.Millisecond)
		}
		select {
		case <-proberDone:
			r.Inconclusive(fmt.Sprintf("probe %d: the prober was slow but finished", idx))
		default:
			if stuck == 3 {
				if len(lastDump) > 6000 {
					lastDump = lastDump[:6000]
				}
				r.Violation("handle-waits-for-service", idx, fmt.Sprintf("probe %d (%s): handle calls cannot complete while a request to the service is outstanding (prober blocked on the store mutex in 3 consecutive samples)", idx, kind), map[string]any{"stacks": lastDump})
			} else {
				r.Inconclusive(fmt.Sprintf("probe %d: prober did not finish, but is not on the store mutex", idx))
			}
		}
	}
	close(release)
	// while the operation finishes, a request for the stale cached secret may show up (it must not block anybody)
	select {
	case <-opDone:
	case <-parked2:
		r.Count("second_gate_probes", 1)
		done2 := make(chan struct{})
		go func() {
			defer close(done2)
			for i := 0; i < 50; i++ {
				for _, h := range handles {
					h.Get()
				}
				if lateHandle != nil {
					lateHandle.Get()
				}
			}
		}()
		select {
		case <-done2:
		case <-time.After(5 * time.Second):
			buf := make([]byte, 1<<20)
			buf = buf[:runtime.Stack(buf, true)]
			dump := string(buf)
			if strings.Contains(dump, "sync.(*Mutex).Lock") && strings.Contains(dump, "client/setec.(*Store)") {
				if len(dump) > 6000 {
					dump = dump[:6000]
				}
				r.Violation("handle-waits-for-service", idx, fmt.Sprintf("probe %d (%s): while the store was waiting for the service about a secret pinned during the poll, handle calls could not complete", idx, kind), map[string]any{"stacks": dump})
			} else {
				r.Inconclusive(fmt.Sprintf("probe %d: second prober slow", idx))
			}
		}
		close(release2)
		<-opDone
		<-done2
	}
	armed = false
	r.Count("second_gate_probes", 0)
	<-proberDone
	if lateHandle != nil {
		func() {
			defer func() {
				if p := recover(); p != nil {
					r.Violation("handle-panics", idx, fmt.Sprintf("probe %d: a handle obtained while a poll was in flight panics after the poll completed: %v", idx, p), nil)
				}
			}()
			for i := 0; i < 3; i++ {
				if name, _, ok := parse(lateHandle.Get()); !ok || name != "p/stale" {
					r.Violation("torn-value", idx, fmt.Sprintf("probe %d: handle of p/stale returned an invalid value", idx), nil)
				}
				st.Refresh(context.Background())
			}
		}()
	}
}

// racingLookups: several goroutines look up the same not-yet-known name at once; then the service moves on
// and a poll completes. Every handle given out, and Secret(name), must return the poll's value or a newer one.
func racingLookups(t *testing.T, r *evid.Run) {
	w := &world{svc: fakesvc.New(), rng: rand.New(rand.NewPCG(77, 5)), ver: map[string]uint32{}, served: map[string]map[uint64]string{}}
	w.bump("decl")
	st, err := setec.NewStore(context.Background(), setec.StoreConfig{Client: w.svc, Secrets: []string{"decl"}, AllowLookup: true, PollInterval: -1, Logf: func(string, ...any) {}})
	if err != nil {
		t.Fatal(err)
	}
	defer st.Close()
	for i, n := 0, r.N(400, 4000); i < n; i++ {
		r.Eval(1)
		name := fmt.Sprintf("fresh/%d", i)
		w.bump(name)
		const G = 8
		hs := make([]setec.Secret, G)
		var wg sync.WaitGroup
		var gate atomic.Bool
		for g := 0; g < G; g++ {
			wg.Add(1)
			go func(g int) {
				defer wg.Done()
				for !gate.Load() {
				}
				hs[g], _ = st.LookupSecret(context.Background(), name)
			}(g)
		}
		gate.Store(true)
		wg.Wait()
		want := w.bump(name)
		if err := st.Refresh(context.Background()); err != nil {
			t.Fatal(err)
		}
		for g, h := range append(hs, st.Secret(name)) {
			if h == nil {
				continue
			}
			r.Count("handles_from_racing_lookups", 1)
			nm, serial, ok := parse(h.Get())
			if !ok || nm != name {
				r.Violation("torn-value", -1, fmt.Sprintf("racing lookups of %q: handle %d returned an invalid value", name, g), nil)
				return
			}
			if serial < want {
				r.Violation("stale-after-completed-poll", -1, fmt.Sprintf("racing lookups of %q: a poll that installed serial %d has completed, yet handle %d returns serial %d", name, want, g, serial), nil)
				return
			}
		}
	}
	r.Distinct("racing lookups then poll")
}

// rollbacks: the service's active version number can go DOWN (an operator re-activates an older version).
// Once a poll has completed, handles return what that poll fetched, not what was there before.
func rollbacks(t *testing.T, r *evid.Run) {
	for i, n := 0, r.N(200, 2000); i < n; i++ {
		r.Eval(1)
		rng := r.Rand(uint64(3_000_000 + i))
		svc := fakesvc.New()
		v1, v2 := []byte(fmt.Sprintf("one-%d", i)), []byte(fmt.Sprintf("two-%d", i))
		fromCache := rng.IntN(2) == 0
		var cache *fakesvc.MonCache
		if fromCache {
			// the start-up cache supplies version 2; while the process was down the operator went back to version 1
			doc, _ := json.Marshal(map[string]any{"s": map[string]any{"secret": map[string]any{"Value": v2, "Version": 2}, "lastAccess": "0"}})
			cache = &fakesvc.MonCache{Initial: doc}
			svc.Set("s", 1, v1)
		} else {
			svc.Set("s", 2, v2)
			cache = &fakesvc.MonCache{}
		}
		st, err := setec.NewStore(context.Background(), setec.StoreConfig{Client: svc, Secrets: []string{"s"}, Cache: cache, PollInterval: -1, Logf: func(string, ...any) {}})
		if err != nil {
			t.Fatal(err)
		}
		h := st.Secret("s")
		if string(h.Get()) != string(v2) {
			r.Violation("never-served-value", -1, fmt.Sprintf("rollback case %d: before the poll the handle yields %q, want %q", i, h.Get(), v2), nil)
		}
		svc.Set("s", 1, v1)
		if err := st.Refresh(context.Background()); err != nil {
			t.Fatal(err)
		}
		r.Count("rollback_polls", 1)
		if got := string(h.Get()); got != string(v1) {
			r.Violation("stale-after-completed-poll", -1, fmt.Sprintf("rollback case %d (start-up value from cache: %t): the service re-activated version 1 and a poll completed, yet the handle still yields %q", i, fromCache, got), nil)
			st.Close()
			return
		}
		st.Close()
	}
	r.Distinct("rollback then poll")
	// the same with a poll that FAILS in between: the newer version arrives in a round in which another secret's
	// request errors (so nothing of that round counts), the operator goes back, the next round succeeds
	for i, n := 0, r.N(200, 2000); i < n; i++ {
		r.Eval(1)
		svc := fakesvc.New()
		v1, v2 := []byte(fmt.Sprintf("one-%d", i)), []byte(fmt.Sprintf("two-%d", i))
		svc.Set("s", 1, v1)
		svc.Set("t", 1, []byte("t-one"))
		failT := false
		svc.Behave = func(q *fakesvc.Req) fakesvc.Behaviour {
			if failT && q.Name == "t" {
				return fakesvc.Behaviour{Fail: fakesvc.ErrInjected}
			}
			return fakesvc.Behaviour{}
		}
		st, err := setec.NewStore(context.Background(), setec.StoreConfig{Client: svc, Secrets: []string{"s", "t"}, Cache: &fakesvc.MonCache{}, PollInterval: -1, Logf: func(string, ...any) {}})
		if err != nil {
			t.Fatal(err)
		}
		h := st.Secret("s")
		svc.Set("s", 2, v2)
		failT = true
		perr := st.Refresh(context.Background())
		failT = false
		mid := string(h.Get())
		if mid != string(v1) && mid != string(v2) {
			r.Violation("never-served-value", -1, fmt.Sprintf("rollback-after-failed-poll case %d: the handle yields %q", i, mid), nil)
		}
		svc.Set("s", 1, v1) // the operator withdraws version 2
		if err := st.Refresh(context.Background()); err != nil {
			t.Fatal(err)
		}
		r.Count("rollback_polls_after_a_failed_poll", 1)
		if got := string(h.Get()); got != string(v1) {
			r.Violation("stale-after-completed-poll", -1, fmt.Sprintf("rollback case %d: version 2 showed up in a poll that failed (%v), the service went back to version 1 and a poll completed without error, yet the handle yields %q", i, perr, got), nil)
			st.Close()
			return
		}
		st.Close()
	}
	r.Distinct("failed poll, rollback, poll")
}

// afterClose: a handle keeps answering after the store has been closed - also when the last cache write,
// the one Close performs, fails (or is slow, or succeeds), with and without a poller.
func afterClose(t *testing.T, r *evid.Run, idx int) {
	rng := r.Rand(uint64(77_000 + idx))
	w := &world{svc: fakesvc.New(), rng: rng, ver: map[string]uint32{}, served: map[string]map[uint64]string{}}
	svc := w.svc
	names := []string{"ac/one", "ac/two"}
	for _, n := range names {
		w.bump(n)
	}
	cacheMode := []string{"write fails at close", "write fails from the first poll on", "healthy", "none"}[idx%4]
	poller := (idx/4)%2 == 0
	closing := atomic.Bool{}
	cache := &fakesvc.MonCache{}
	cache.WriteErr = func(n int) error {
		switch {
		case cacheMode == "write fails at close" && closing.Load(), cacheMode == "write fails from the first poll on" && n > 0:
			return errors.New("injected: cache write failed")
		}
		return nil
	}
	cfg := setec.StoreConfig{Client: svc, Secrets: names, AllowLookup: true, Logf: func(string, ...any) {}}
	if cacheMode != "none" {
		cfg.Cache = cache
	}
	if poller {
		cfg.PollInterval = time.Hour
	} else {
		cfg.PollInterval = -1
	}
	st, err := setec.NewStore(context.Background(), cfg)
	if err != nil {
		t.Fatalf("NewStore: %v", err)
	}
	handles := map[string]setec.Secret{}
	for _, n := range names {
		handles[n] = st.Secret(n)
	}
	st.Refresh(context.Background())
	closing.Store(true)
	closed := make(chan struct{})
	go func() { st.Close(); close(closed) }()
	done := make(chan struct{})
	go func() {
		defer close(done)
		<-closed
		for i := 0; i < 50; i++ {
			for n, h := range handles {
				if name, _, ok := parse(h.Get()); !ok || name != n {
					r.Violation("torn-value", idx, fmt.Sprintf("after-close case %d: handle of %q returned an invalid value", idx, n), nil)
					return
				}
				r.Count("reads_after_close_with_cache_fault", 1)
			}
		}
	}()
	r.Eval(1)
	r.Distinct(fmt.Sprintf("after close: cache %s, poller=%t", cacheMode, poller))
	select {
	case <-done:
	case <-time.After(5 * time.Second):
		stuck := 0
		var dump string
		for s := 0; s < 3; s++ {
			buf := make([]byte, 1<<20)
			buf = buf[:runtime.Stack(buf, true)]
			dump = string(buf)
			for _, g := range strings.Split(dump, "\n\n") {
				if strings.Contains(g, "c12.afterClose.func") && strings.Contains(g, "sync.(*Mutex).Lock") && strings.Contains(g, "client/setec.(*Store)") {
					stuck++
					break
				}
			}
			time.Sleep(300 * time.Millisecond)
		}
		select {
		case <-done:
			r.Inconclusive(fmt.Sprintf("after-close case %d: slow but finished", idx))
		default:
			if stuck == 3 {
				if len(dump) > 6000 {
					dump = dump[:6000]
				}
				r.Violation("handle-blocks-after-close", idx, fmt.Sprintf("after-close case %d (cache: %s, poller=%t): handle calls made after Close (or Close itself) never return: blocked on the store mutex in 3 consecutive samples", idx, cacheMode, poller), map[string]any{"stacks": dump})
			} else {
				r.Inconclusive(fmt.Sprintf("after-close case %d: not finished, but nobody is on the store mutex", idx))
			}
		}
	}
}

// updaterStorm: many updaters on few secrets are polled by getter goroutines while new versions keep arriving
// (so notifications are pending, consumed and re-sent all the time). A handle reader beside them must never
// be kept waiting: whatever the store does to tell watchers about a new value, it does not do it at the
// expense of handle calls.
func updaterStorm(t *testing.T, r *evid.Run) {
	w := &world{svc: fakesvc.New(), rng: rand.New(rand.NewPCG(4242, 5)), ver: map[string]uint32{}, served: map[string]map[uint64]string{}}
	names := []string{"us/a", "us/b"}
	for _, n := range names {
		w.bump(n)
	}
	st, err := setec.NewStore(context.Background(), setec.StoreConfig{Client: w.svc, Secrets: names, PollInterval: -1, Logf: func(string, ...any) {}})
	if err != nil {
		t.Fatalf("NewStore: %v", err)
	}
	defer st.Close()
	var ups []*setec.Updater[int]
	for i := 0; i < 64; i++ {
		u, err := setec.NewUpdater(context.Background(), st, names[i%2], func(b []byte) (int, error) { return len(b), nil })
		if err != nil {
			t.Fatal(err)
		}
		ups = append(ups, u)
	}
	stop := make(chan struct{})
	var wg sync.WaitGroup
	for g := 0; g < 8; g++ {
		wg.Add(1)
		go func(g int) {
			defer wg.Done()
			for i := g; ; i += 3 {
				select {
				case <-stop:
					return
				default:
				}
				ups[i%len(ups)].Get()
			}
		}(g)
	}
	wg.Add(1)
	go func() { // the service moves on, and the store follows
		defer wg.Done()
		for i := 0; ; i++ {
			select {
			case <-stop:
				return
			default:
			}
			w.bump(names[i%2])
			st.Refresh(context.Background())
		}
	}()
	handles := []setec.Secret{st.Secret(names[0]), st.Secret(names[1])}
	progress := make(chan struct{}, 1)
	readerDone := make(chan struct{})
	go func() {
		defer close(readerDone)
		for {
			select {
			case <-stop:
				return
			default:
			}
			for i, h := range handles {
				if name, _, ok := parse(h.Get()); !ok || name != names[i] {
					r.Violation("torn-value", -1, "updater storm: a handle returned an invalid value", nil)
					return
				}
				r.Count("handle_reads_during_updater_storm", 1)
			}
			select {
			case progress <- struct{}{}:
			default:
			}
		}
	}()
	r.Eval(1)
	r.Distinct("updater storm")
	witness := func(what string) {
		n := 0
		var dump string
		for s := 0; s < 3; s++ {
			buf := make([]byte, 1<<20)
			buf = buf[:runtime.Stack(buf, true)]
			dump = string(buf)
			for _, g := range strings.Split(dump, "\n\n") {
				if strings.Contains(g, "c12.updaterStorm.func") && strings.Contains(g, "sync.(*Mutex).Lock") && strings.Contains(g, "client/setec.(*Store)") {
					n++
					break
				}
			}
			time.Sleep(300 * time.Millisecond)
		}
		if n == 3 {
			if len(dump) > 8000 {
				dump = dump[:8000]
			}
			r.Violation("handle-blocks-during-updates", -1, "updater storm: "+what+": a handle call is blocked on the store mutex in 3 consecutive samples while updaters are being notified", map[string]any{"stacks": dump})
		} else {
			r.Inconclusive("updater storm: " + what + ", but no handle call is on the store mutex")
		}
	}
	deadline := time.After(time.Duration(r.N(2500, 20000)) * time.Millisecond)
loop:
	for {
		select {
		case <-deadline:
			break loop
		case <-progress:
		case <-time.After(3 * time.Second):
			witness("the handle reader has not completed a round for three seconds")
			return // the goroutines cannot be collected; the process ends with the test
		}
	}
	close(stop)
	all := make(chan struct{})
	go func() { wg.Wait(); <-readerDone; close(all) }()
	select {
	case <-all:
	case <-time.After(5 * time.Second):
		witness("readers, getters and the refresher do not come to an end")
	}
}

// idleLookupsAcrossAPoll: an undeclared secret obtained by a lookup, its handle kept but not called for longer
// than the expiry age (the clock is the store's own TimeNow). Then the program looks the name up again - and
// meanwhile the service moves on and a poll completes. Whatever the second lookup does, once that poll has
// completed every handle of the name returns the poll's value or a newer one; in particular a reply that was
// slow on its way back must not put the older value under the handles again.
func idleLookupsAcrossAPoll(t *testing.T, r *evid.Run, idx int) {
	r.Eval(1)
	w := &world{svc: fakesvc.New(), rng: rand.New(rand.NewPCG(uint64(idx), 17)), ver: map[string]uint32{}, served: map[string]map[uint64]string{}}
	for _, n := range []string{"i/declared", "i/idle"} {
		w.bump(n)
	}
	var clock atomic.Int64
	clock.Store(1_700_000_000)
	var armed atomic.Bool
	release := make(chan struct{})
	parked := make(chan struct{}, 4)
	w.svc.Behave = func(q *fakesvc.Req) fakesvc.Behaviour {
		if armed.Load() && q.Name == "i/idle" && !q.Cond {
			parked <- struct{}{}
			return fakesvc.Behaviour{Hold: release, Snapshot: true}
		}
		return fakesvc.Behaviour{}
	}
	cache := &fakesvc.MonCache{}
	st, err := setec.NewStore(context.Background(), setec.StoreConfig{Client: w.svc, Secrets: []string{"i/declared"}, AllowLookup: true, Cache: cache,
		ExpiryAge: time.Hour, PollInterval: -1, Logf: func(string, ...any) {}, TimeNow: func() time.Time { return time.Unix(clock.Load(), 0) }})
	if err != nil {
		t.Fatalf("NewStore: %v", err)
	}
	defer st.Close()
	h1, err := st.LookupSecret(context.Background(), "i/idle")
	if err != nil {
		t.Fatalf("lookup: %v", err)
	}
	idle := []int64{30 * 60, 2 * 3600, 40 * 24 * 3600}[idx%3] // half an hour (not idle), two hours, forty days
	clock.Add(idle)
	armed.Store(true)
	type lres struct {
		h   setec.Secret
		err error
	}
	lookupDone := make(chan lres, 1)
	go func() { h, err := st.LookupSecret(context.Background(), "i/idle"); lookupDone <- lres{h, err} }()
	var second *lres
	select {
	case <-parked: // the store went to the service for it: its reply (the value of now) is on its way
	case l := <-lookupDone:
		second = &l
	case <-time.After(20 * time.Second):
		r.Inconclusive(fmt.Sprintf("idle lookup %d: neither answered nor asking the service after 20 s", idx))
		close(release)
		return
	}
	// the service moves on; a poll completes
	serial := w.bump("i/idle")
	if err := st.Refresh(context.Background()); err != nil {
		r.Violation("poll-fails", idx, fmt.Sprintf("idle lookup %d: Refresh: %v", idx, err), nil)
	}
	close(release)
	if second == nil {
		l := <-lookupDone
		second = &l
	}
	armed.Store(false)
	r.Count("idle_lookups_across_a_poll", 1)
	r.Distinct(fmt.Sprintf("idle lookup, handle idle for %ds", idle))
	if second.err != nil || second.h == nil {
		r.Violation("lookup-of-known-name-fails", idx, fmt.Sprintf("idle lookup %d: the second LookupSecret of a name the store holds failed: %v", idx, second.err), nil)
		return
	}
	for hi, h := range []setec.Secret{h1, second.h, st.Secret("i/idle")} {
		name, got, ok := parse(h.Get())
		if !ok || name != "i/idle" || !w.wasSet("i/idle", got, h.Get()) {
			r.Violation("torn-value", idx, fmt.Sprintf("idle lookup %d: handle %d returned an invalid value", idx, hi), nil)
			return
		}
		if got < serial {
			r.Violation("older-value-after-completed-poll", idx, fmt.Sprintf("idle lookup %d (handle idle for %d s, expiry age 1 h): a poll completed after the service had moved to serial %d, and afterwards handle %d of %q returns serial %d - an older value than the completed poll's (a second LookupSecret of the same name overlapped the poll)", idx, idle, serial, hi, "i/idle", got), nil)
			return
		}
	}
}

// emptyValues: the active version of a secret becomes the empty value (a feature switched off, a password
// cleared). Handles obtained before and after return it like any other value, as bytes and as a string.
func emptyValues(t *testing.T, r *evid.Run) {
	svc := fakesvc.New()
	svc.Set("e/switch", 1, []byte("on"))
	svc.Set("e/other", 1, []byte("x"))
	st, err := setec.NewStore(context.Background(), setec.StoreConfig{Client: svc, Secrets: []string{"e/switch"}, AllowLookup: true, PollInterval: -1, Logf: func(string, ...any) {}})
	if err != nil {
		t.Fatalf("NewStore: %v", err)
	}
	defer st.Close()
	before := st.Secret("e/switch")
	vals := [][]byte{{}, []byte("on-again"), nil, {}, []byte("z")}
	for i, v := range vals {
		svc.Set("e/switch", uint32(i+2), v)
		if err := st.Refresh(context.Background()); err != nil {
			r.Violation("poll-fails", -1, fmt.Sprintf("empty values: Refresh: %v", err), nil)
			return
		}
		looked, lerr := st.LookupSecret(context.Background(), "e/switch")
		if lerr != nil {
			r.Violation("lookup-of-known-name-fails", -1, lerr.Error(), nil)
			return
		}
		for hi, h := range []setec.Secret{before, st.Secret("e/switch"), looked} {
			r.Eval(1)
			r.Count("empty_value_reads", 1)
			var b []byte
			var s string
			if p := func() (p any) {
				defer func() { p = recover() }()
				b = h.Get()
				s = h.GetString()
				return nil
			}(); p != nil {
				r.Violation("handle-panics", -1, fmt.Sprintf("after a poll installed version %d of %q, a value of %d bytes, calling handle %d panics: %v", i+2, "e/switch", len(v), hi, p), nil)
				return
			}
			if string(b) != string(v) || s != string(v) {
				r.Violation("older-value-after-completed-poll", -1, fmt.Sprintf("after a poll installed version %d (%q), handle %d returns %q / %q", i+2, v, hi, b, s), nil)
				return
			}
		}
	}
	r.Distinct("empty values through handles")
}

// damagedCacheEntries: the start-up cache is a well-formed JSON document in which ONE field of one entry is
// damaged (bad base64, a number where the bytes belong, ...), while its version number is intact and equals
// what the service has active - so polls will answer "not changed" for it. Whatever the store makes of such a
// cache, every handle yields bytes that were really served for its name: at start-up and after polls.
func damagedCacheEntries(t *testing.T, r *evid.Run) {
	damages := []struct{ kind, field string }{
		{"bad base64", `"Value":"!!!not-base64!!!"`},
		{"number for bytes", `"Value":12345`},
		{"object for bytes", `"Value":{"x":1}`},
		{"array of strings for bytes", `"Value":["a","b"]`},
		{"base64 with a stray character", `"Value":"QUJD*EVG"`},
	}
	for di, dm := range damages {
		for _, declared := range []bool{true, false} {
			w := &world{svc: fakesvc.New(), rng: rand.New(rand.NewPCG(uint64(di), 23)), ver: map[string]uint32{}, served: map[string]map[uint64]string{}}
			names := []string{"d/a", "d/b"}
			for _, n := range names {
				w.bump(n)
			}
			entries := map[string]string{}
			for _, n := range names {
				v, _ := w.svc.Active(n)
				b, _ := json.Marshal(map[string]any{"secret": map[string]any{"Value": v.Bytes, "Version": v.Version}, "lastAccess": "1700000000"})
				entries[n] = string(b)
			}
			// damage the value field of d/a, keep its version
			va, _ := w.svc.Active("d/a")
			entries["d/a"] = fmt.Sprintf(`{"secret":{%s,"Version":%d},"lastAccess":"1700000000"}`, dm.field, va.Version)
			doc := fmt.Sprintf(`{"d/a":%s,"d/b":%s}`, entries["d/a"], entries["d/b"])
			cfg := setec.StoreConfig{Client: w.svc, Secrets: names, Cache: &fakesvc.MonCache{Initial: []byte(doc)}, PollInterval: -1, Logf: func(string, ...any) {}}
			if !declared {
				cfg.Secrets, cfg.AllowLookup = []string{"d/b"}, true
			}
			st, err := setec.NewStore(context.Background(), cfg)
			r.Eval(1)
			r.Count("starts_from_a_damaged_cache", 1)
			r.Distinct("start from a cache with " + dm.kind)
			what := fmt.Sprintf("start-up cache with %s in the entry of d/a (declared=%t), version number intact and equal to the service's active one", dm.kind, declared)
			if err != nil {
				r.Violation("newstore-fails", -1, what+": "+err.Error(), nil)
				continue
			}
			check := func(when string) bool {
				for _, n := range names {
					var h setec.Secret
					if p := func() (p any) {
						defer func() { p = recover() }()
						h = st.Secret(n)
						return nil
					}(); p != nil || h == nil {
						if n == "d/a" && !declared {
							// (an undeclared entry that was discarded is simply unknown; look it up)
							var lerr error
							if h, lerr = st.LookupSecret(context.Background(), n); lerr != nil {
								r.Violation("lookup-of-known-name-fails", -1, fmt.Sprintf("%s, %s: %v", what, when, lerr), nil)
								return false
							}
						} else {
							r.Violation("handle-panics", -1, fmt.Sprintf("%s, %s: Secret(%q) panics/nil: %v", what, when, n, p), nil)
							return false
						}
					}
					b := h.Get()
					name, serial, ok := parse(b)
					if !ok || name != n || !w.wasSet(n, serial, b) {
						r.Violation("never-served-value", -1, fmt.Sprintf("%s, %s: the handle of %q yields %d bytes (%.40q) that were never served for it", what, when, n, len(b), b), nil)
						return false
					}
				}
				return true
			}
			if check("right after NewStore") {
				for k := 1; k <= 2; k++ {
					st.Refresh(context.Background())
					if !check(fmt.Sprintf("after %d completed poll(s)", k)) {
						break
					}
				}
			}
			st.Close()
		}
	}
}

// handlesAfterFailedCalls: calls on the store that FAIL (a lookup, an updater or a struct field for a name the
// service does not have or refuses; the same with lookups disabled; a builder that rejects the value) leave
// the handles given out earlier as they were: their next call returns at once.
func handlesAfterFailedCalls(t *testing.T, r *evid.Run) {
	for _, allow := range []bool{true, false} {
		svc := fakesvc.New()
		svc.Set("h/known", 1, []byte("known-value"))
		svc.Behave = func(q *fakesvc.Req) fakesvc.Behaviour {
			if q.Name == "h/refused" {
				return fakesvc.Behaviour{Fail: api.ErrAccessDenied, Plain: true}
			}
			return fakesvc.Behaviour{}
		}
		st, err := setec.NewStore(context.Background(), setec.StoreConfig{Client: svc, Secrets: []string{"h/known"}, AllowLookup: allow, PollInterval: -1, Logf: func(string, ...any) {}})
		if err != nil {
			t.Fatalf("NewStore: %v", err)
		}
		h := st.Secret("h/known")
		ctx := context.Background()
		failing := []struct {
			what string
			call func() error
		}{
			{"LookupSecret of an absent name", func() error { _, err := st.LookupSecret(ctx, "h/absent"); return err }},
			{"NewUpdater on an absent name", func() error {
				_, err := setec.NewUpdater(ctx, st, "h/absent", func(b []byte) (string, error) { return string(b), nil })
				return err
			}},
			{"NewUpdater on a refused name", func() error {
				_, err := setec.NewUpdater(ctx, st, "h/refused", func(b []byte) (string, error) { return string(b), nil })
				return err
			}},
			{"NewUpdater whose builder rejects the value", func() error {
				_, err := setec.NewUpdater(ctx, st, "h/known", func(b []byte) (string, error) { return "", errors.New("cannot parse") })
				return err
			}},
			{"Apply of a field naming an absent secret", func() error {
				var v struct {
					F string `setec:"absent"`
				}
				f, err := setec.ParseFields(&v, "h")
				if err != nil {
					return err
				}
				return f.Apply(ctx, st)
			}},
		}
		for _, fc := range failing {
			if err := fc.call(); err == nil {
				r.Violation("failing-call-succeeds", -1, fmt.Sprintf("%s (lookups enabled=%t) reported success", fc.what, allow), nil)
				continue
			}
			got := make(chan []byte, 1)
			go func() { got <- h.Get() }()
			r.Eval(1)
			r.Count("handle_calls_after_a_failed_call", 1)
			r.Distinct(fmt.Sprintf("handle call after failed %s (lookups=%t)", fc.what, allow))
			select {
			case b := <-got:
				if string(b) != "known-value" {
					r.Violation("torn-value", -1, fmt.Sprintf("after a failed %s the handle of h/known yields %q", fc.what, b), nil)
				}
			case <-time.After(10 * time.Second):
				buf := make([]byte, 1<<20)
				buf = buf[:runtime.Stack(buf, true)]
				dump := string(buf)
				if strings.Contains(dump, "sync.(*Mutex).Lock") && strings.Contains(dump, "client/setec.(*Store)") {
					if len(dump) > 6000 {
						dump = dump[:6000]
					}
					r.Violation("handle-blocks-after-failed-call", -1, fmt.Sprintf("%s (lookups enabled=%t) returned its error - and afterwards a call of a handle obtained earlier does not return (10 s; it waits for the store's mutex, which nobody is going to release)", fc.what, allow), map[string]any{"stacks": dump})
				} else {
					r.Inconclusive("handle call after a failed call: slow, but not on the store mutex")
				}
				return // (the store is unusable now; it cannot even be closed)
			}
		}
		st.Close()
	}
}

// storesOfTwoServices: one process talks to two setec services (two tailnets, two environments) through two
// stores; the services use the same secret names. While a request of store A is outstanding, store B looks the
// same name up, and polls. B's handles return bytes that B's service served, and follow B's completed polls.
func storesOfTwoServices(t *testing.T, r *evid.Run) {
	for c, n := 0, r.N(8, 60); c < n; c++ {
		mk := func(tag string) (*fakesvc.Service, *setec.Store) {
			svc := fakesvc.New()
			svc.Set("base", 1, []byte("base@"+tag))
			svc.Set("api-key", 1, []byte("api-key@"+tag))
			st, err := setec.NewStore(context.Background(), setec.StoreConfig{Client: svc, Secrets: []string{"base"}, AllowLookup: true, PollInterval: -1, Logf: func(string, ...any) {}})
			if err != nil {
				t.Fatalf("NewStore: %v", err)
			}
			return svc, st
		}
		svcA, stA := mk("A")
		svcB, stB := mk("B")
		gate := make(chan struct{})
		parked := make(chan struct{}, 4)
		svcA.Behave = func(q *fakesvc.Req) fakesvc.Behaviour {
			parked <- struct{}{}
			return fakesvc.Behaviour{Hold: gate}
		}
		adone := make(chan struct{})
		go func() {
			defer close(adone)
			if c%2 == 0 {
				stA.LookupSecret(context.Background(), "api-key")
			} else {
				stA.Refresh(context.Background())
			}
		}()
		<-parked // A's request is outstanding
		type res struct {
			h   setec.Secret
			err error
		}
		bdone := make(chan res, 1)
		go func() {
			if c%2 == 0 {
				h, err := stB.LookupSecret(context.Background(), "api-key")
				bdone <- res{h, err}
			} else {
				svcB.Set("base", 2, []byte("base2@B"))
				err := stB.Refresh(context.Background())
				bdone <- res{stB.Secret("base"), err}
			}
		}()
		var b res
		select {
		case b = <-bdone:
		case <-time.After(3 * time.Second):
			// B waits for A's request: let it go and judge what B ends up with
			close(gate)
			gate = nil
			b = <-bdone
		}
		if gate != nil {
			close(gate)
		}
		<-adone
		r.Eval(1)
		r.Count("handles_beside_a_store_of_another_service", 1)
		r.Distinct(fmt.Sprintf("two services, lookup=%t", c%2 == 0))
		want := "api-key@B"
		if c%2 == 1 {
			want = "base2@B"
		}
		if b.err != nil || b.h == nil {
			r.Violation("lookup-of-known-name-fails", -1, fmt.Sprintf("two-services case %d: store B's call failed: %v", c, b.err), nil)
		} else if got := string(b.h.Get()); got != want {
			r.Violation("foreign-value", -1, fmt.Sprintf("two-services case %d: while a request of store A (service A) was outstanding, store B (service B) %s; B's handle returns %q - B's service has only ever served %q for it", c, map[bool]string{true: "looked the same name up", false: "completed a poll after its service had moved on"}[c%2 == 0], got, want), nil)
		}
		stA.Close()
		stB.Close()
	}
}
