// dbchild performs ONE real database operation between two marker system
// calls, so that the sysfault tracer can enumerate its file-system calls as
// crash and error points. It then reports what the operation returned, the
// state the running process serves, and the outcome of a retry.
package main

import (
	"encoding/json"
	"fmt"
	"os"
	"strconv"
	"syscall"

	"github.com/tailscale/setec/db"

	"verif/harness/internal/ops"
	"verif/harness/internal/realdb"
	"verif/harness/internal/sysfault"
)

type Spec struct {
	Path   string   `json:"path"`
	Key    string   `json:"key"`
	Prefix []ops.Op `json:"prefix"`
	Create bool     `json:"create"` // the operation under test is the creation of the database
	Op     ops.Op   `json:"op"`
}

type Report struct {
	Phase      string `json:"phase"`
	Err        string `json:"err,omitempty"`
	Class      string `json:"class"`
	Version    uint32 `json:"version,omitempty"`
	State      string `json:"state,omitempty"`
	StateErr   string `json:"state_err,omitempty"`
	GenBefore  uint64 `json:"gen_before"`
	GenAfter   uint64 `json:"gen_after"`
	FileState  string `json:"file_state,omitempty"` // what a fresh Open of the file shows right after the call
	RetryErr   string `json:"retry_err,omitempty"`
	RetryClass string `json:"retry_class,omitempty"`
	RetryState string `json:"retry_state,omitempty"`
	RetryVer   uint32 `json:"retry_version,omitempty"`
}

func emit(r Report) {
	b, _ := json.Marshal(r)
	fmt.Println(string(b))
}

func dump(d *db.DB) (string, string) {
	m, err := realdb.Dump(d)
	if err != nil {
		return "", err.Error()
	}
	return m.Canon(), ""
}

func main() {
	var spec Spec
	raw := []byte(os.Args[1])
	if len(raw) > 0 && raw[0] == '@' {
		var err error
		if raw, err = os.ReadFile(string(raw[1:])); err != nil {
			fmt.Fprintln(os.Stderr, "spec file:", err)
			os.Exit(2)
		}
	}
	if err := json.Unmarshal(raw, &spec); err != nil {
		fmt.Fprintln(os.Stderr, "bad spec:", err)
		os.Exit(2)
	}
	if u := os.Getenv("VERIF_UMASK"); u != "" {
		if n, err := strconv.ParseUint(u, 8, 32); err == nil {
			syscall.Umask(int(n))
		}
	}
	key := realdb.DummyKey(spec.Key)
	su := realdb.Super()
	if spec.Create {
		os.Stat(sysfault.MarkBegin)
		d, err := realdb.Open(spec.Path, key)
		os.Stat(sysfault.MarkEnd)
		rep := Report{Phase: "create", Class: "ok"}
		if err != nil {
			rep.Err, rep.Class = err.Error(), "other"
			// later calls succeed normally: retry the creation
			d2, err2 := realdb.Open(spec.Path, key)
			if err2 != nil {
				rep.RetryErr, rep.RetryClass = err2.Error(), "other"
			} else {
				rep.RetryClass = "ok"
				rep.RetryState, _ = dump(d2)
			}
		} else {
			rep.State, rep.StateErr = dump(d)
			rep.GenAfter = d.WriteGen()
		}
		emit(rep)
		return
	}
	d, err := realdb.Open(spec.Path, key)
	if err != nil {
		fmt.Fprintln(os.Stderr, "open:", err)
		os.Exit(2)
	}
	for _, p := range spec.Prefix {
		ops.ApplyReal(d, su, p)
	}
	rep := Report{Phase: "op", GenBefore: d.WriteGen()}
	os.Stat(sysfault.MarkBegin)
	res := ops.ApplyReal(d, su, spec.Op)
	os.Stat(sysfault.MarkEnd)
	rep.Class, rep.Err, rep.Version = res.Class.String(), res.Err, res.Version
	rep.GenAfter = d.WriteGen()
	rep.State, rep.StateErr = dump(d)
	if d2, err := realdb.Open(spec.Path, key); err != nil {
		rep.FileState = "<unreadable: " + err.Error() + ">"
	} else if fs, ferr := dump(d2); ferr != "" {
		rep.FileState = "<inconsistent: " + ferr + ">"
	} else {
		rep.FileState = fs
	}
	// a later call succeeds normally
	res2 := ops.ApplyReal(d, su, spec.Op)
	rep.RetryClass, rep.RetryErr, rep.RetryVer = res2.Class.String(), res2.Err, res2.Version
	rep.RetryState, _ = dump(d)
	emit(rep)
}
