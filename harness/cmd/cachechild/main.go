// cachechild performs ONE real FileCache.Write between two marker system calls
// (see dbchild), then reports the result and retries.
package main

import (
	"encoding/json"
	"fmt"
	"os"
	"strconv"
	"syscall"

	"github.com/tailscale/setec/client/setec"

	"verif/harness/internal/sysfault"
)

func main() {
	if u := os.Getenv("VERIF_UMASK"); u != "" {
		if n, err := strconv.ParseUint(u, 8, 32); err == nil {
			syscall.Umask(int(n))
		}
	}
	path, newDoc := os.Args[1], os.Args[2]
	data, err := os.ReadFile(newDoc)
	if err != nil {
		fmt.Fprintln(os.Stderr, err)
		os.Exit(2)
	}
	fc, err := setec.NewFileCache(path)
	if err != nil {
		fmt.Fprintln(os.Stderr, err)
		os.Exit(2)
	}
	os.Stat(sysfault.MarkBegin)
	werr := fc.Write(data)
	os.Stat(sysfault.MarkEnd)
	rep := map[string]any{"ok": werr == nil}
	if werr != nil {
		rep["err"] = werr.Error()
		rep["retry_ok"] = fc.Write(data) == nil
	}
	b, _ := json.Marshal(rep)
	fmt.Println(string(b))
}
