// Package httpdrv drives the real HTTP handlers registered by server.New
// in-process (no sockets), with a scripted WhoIs, and maps replies back to
// the vocabulary of the reference model.
package httpdrv

import (
	"bytes"
	"context"
	"encoding/json"
	"fmt"
	"html"
	"net/http"
	"net/http/httptest"
	"net/netip"
	"strconv"
	"strings"
	"sync"

	"github.com/tailscale/setec/audit"
	"github.com/tailscale/setec/db"
	"github.com/tailscale/setec/server"
	"github.com/tailscale/setec/types/api"
	"tailscale.com/client/tailscale/apitype"
	"tailscale.com/tailcfg"

	"verif/harness/internal/ops"
	"verif/harness/internal/realdb"
	"verif/harness/internal/refmodel"
)

// Who describes what the scripted tailnet answers for a source address.
type Who struct {
	Login string
	Node  string
	Tags  []string
	Rules []refmodel.Rule
}

// Srv is a real server on a real DB with a scripted WhoIs keyed by remote address.
type Srv struct {
	Mux *http.ServeMux
	S   *server.Server

	mu  sync.Mutex
	who map[string]Who // RemoteAddr -> identity
	any *Who           // if set, the identity of every address not in who

	// Override, if set, answers every WhoIs call instead of the table.
	Override func(ctx context.Context, addr string) (*apitype.WhoIsResponse, error)
}

// NewAnyAddr is like New but answers WhoIs for every source address with w
// (for servers reached over real loopback sockets, where the port is not known).
func NewAnyAddr(d *db.DB, w Who) (*Srv, error) {
	s, err := New(d)
	if err == nil {
		s.any = &w
	}
	return s, err
}

func New(d *db.DB) (*Srv, error) { return NewWithAudit(d, nil) }

// NewWithAudit is New; the audit writer is only passed through to server.Config (the DB has its own).
func NewWithAudit(d *db.DB, aw *audit.Writer) (*Srv, error) {
	s := &Srv{Mux: http.NewServeMux(), who: map[string]Who{}}
	srv, err := server.New(context.Background(), server.Config{DB: d, AuditLog: aw, WhoIs: s.whois, Mux: s.Mux})
	if err != nil {
		return nil, err
	}
	s.S = srv
	return s, nil
}

// SetWhoIP registers w for every address with the given IP, whatever the port.
func (s *Srv) SetWhoIP(ip string, w Who) { s.SetWho("ip:"+ip, w) }

func (s *Srv) SetWho(addr string, w Who) {
	s.mu.Lock()
	s.who[addr] = w
	s.mu.Unlock()
}

func (s *Srv) whois(ctx context.Context, addr string) (*apitype.WhoIsResponse, error) {
	s.mu.Lock()
	if ov := s.Override; ov != nil {
		s.mu.Unlock()
		return ov(ctx, addr)
	}
	w, ok := s.who[addr]
	if !ok {
		// identities registered for a bare IP answer for every port (and for the bare IP itself)
		host := addr
		if ap, err := netip.ParseAddrPort(addr); err == nil {
			host = ap.Addr().Unmap().String()
		}
		w, ok = s.who["ip:"+host]
	}
	s.mu.Unlock()
	if !ok && s.any != nil {
		w, ok = *s.any, true
	}
	if !ok {
		return nil, fmt.Errorf("no such peer %q", addr)
	}
	return WhoResponse(w, server.ACLCap), nil
}

// WhoResponse builds a WhoIs answer carrying w's rules under capability name.
func WhoResponse(w Who, capName tailcfg.PeerCapability) *apitype.WhoIsResponse {
	var raws []tailcfg.RawMessage
	for _, r := range w.Rules {
		b, _ := json.Marshal(r)
		raws = append(raws, tailcfg.RawMessage(b))
	}
	resp := &apitype.WhoIsResponse{
		Node:        &tailcfg.Node{Name: w.Node, Tags: w.Tags},
		UserProfile: &tailcfg.UserProfile{LoginName: w.Login},
		CapMap:      tailcfg.PeerCapMap{},
	}
	if raws != nil {
		resp.CapMap[capName] = raws
	}
	return resp
}

// Reply is a raw HTTP reply.
type Reply struct {
	Status int
	Body   []byte
	Header http.Header
}

// Raw issues one request to the mux.
func (s *Srv) Raw(method, path, remoteAddr string, hdr map[string]string, body []byte) Reply {
	req := httptest.NewRequest(method, path, bytes.NewReader(body))
	req.RemoteAddr = remoteAddr
	for k, v := range hdr {
		req.Header.Set(k, v)
	}
	rec := httptest.NewRecorder()
	s.Mux.ServeHTTP(rec, req)
	return Reply{Status: rec.Code, Body: rec.Body.Bytes(), Header: rec.Header()}
}

var GoodHeaders = map[string]string{"Content-Type": "application/json", "Sec-X-Tailscale-No-Browsers": "setec"}

// Request returns the endpoint and JSON body for op, as the real client would send it.
func Request(op ops.Op) (string, []byte) {
	var path string
	var req any
	switch op.Kind {
	case ops.List:
		path, req = "/api/list", api.ListRequest{}
	case ops.Info:
		path, req = "/api/info", api.InfoRequest{Name: op.Name}
	case ops.Get:
		path, req = "/api/get", api.GetRequest{Name: op.Name}
	case ops.GetVer:
		path, req = "/api/get", api.GetRequest{Name: op.Name, Version: api.SecretVersion(op.Version)}
	case ops.GetCond:
		path, req = "/api/get", api.GetRequest{Name: op.Name, Version: api.SecretVersion(op.Version), UpdateIfChanged: true}
	case ops.Put:
		path, req = "/api/put", api.PutRequest{Name: op.Name, Value: op.Value}
	case ops.Act:
		path, req = "/api/activate", api.ActivateRequest{Name: op.Name, Version: api.SecretVersion(op.Version)}
	case ops.DelVer:
		path, req = "/api/delete-version", api.DeleteVersionRequest{Name: op.Name, Version: api.SecretVersion(op.Version)}
	case ops.Delete:
		path, req = "/api/delete", api.DeleteRequest{Name: op.Name}
	}
	b, _ := json.Marshal(req)
	return path, b
}

// StatusClass maps an HTTP status to an outcome class.
func StatusClass(code int) refmodel.Class {
	switch code {
	case 200:
		return refmodel.OK
	case 403:
		return refmodel.Denied
	case 404:
		return refmodel.NotFound
	case 304:
		return refmodel.NotChanged
	}
	return refmodel.Other
}

// Interpret decodes a reply to op into a Result; ok is false when a 200 body
// does not decode into the documented result type.
func Interpret(op ops.Op, rep Reply) (ops.Result, bool) {
	r := ops.Result{Class: StatusClass(rep.Status), Err: fmt.Sprintf("%d %q", rep.Status, rep.Body)}
	if rep.Status != 200 {
		return r, true
	}
	switch op.Kind {
	case ops.List:
		var l []*api.SecretInfo
		if err := json.Unmarshal(rep.Body, &l); err != nil {
			return r, false
		}
		r.Meta = realdb.ListString(l)
	case ops.Info:
		var in *api.SecretInfo
		if err := json.Unmarshal(rep.Body, &in); err != nil || in == nil {
			return r, false
		}
		r.Meta = realdb.InfoString(in)
	case ops.Get, ops.GetVer, ops.GetCond:
		var sv *api.SecretValue
		if err := json.Unmarshal(rep.Body, &sv); err != nil || sv == nil {
			return r, false
		}
		r.Version, r.Bytes, r.HasVal = uint32(sv.Version), string(sv.Value), true
	case ops.Put:
		var v api.SecretVersion
		if err := json.Unmarshal(rep.Body, &v); err != nil {
			return r, false
		}
		r.Version = uint32(v)
	default:
		var x struct{}
		if err := json.Unmarshal(rep.Body, &x); err != nil {
			return r, false
		}
	}
	return r, true
}

// Do sends op as a well-formed API request from remoteAddr.
func (s *Srv) Do(remoteAddr string, op ops.Op) (ops.Result, Reply, bool) {
	return s.DoWith(remoteAddr, op, nil)
}

// DoWith is Do with additional request headers (which a client is free to send).
func (s *Srv) DoWith(remoteAddr string, op ops.Op, extra map[string]string) (ops.Result, Reply, bool) {
	path, body := Request(op)
	hdr := GoodHeaders
	if len(extra) > 0 {
		hdr = map[string]string{}
		for k, v := range GoodHeaders {
			hdr[k] = v
		}
		for k, v := range extra {
			hdr[k] = v
		}
	}
	rep := s.Raw("POST", path, remoteAddr, hdr, body)
	res, ok := Interpret(op, rep)
	return res, rep, ok
}

// SpoofHeaders are header sets by which a client may CLAIM to be somebody else (the peer at ip);
// identity is what the tailnet says about the connection's source address, never what the request says.
func SpoofHeaders(ip, login string) []map[string]string {
	return []map[string]string{
		{"X-Forwarded-For": ip},
		{"X-Forwarded-For": ip + ", 10.1.2.3"},
		{"X-Real-Ip": ip},
		{"Forwarded": "for=" + ip + ";proto=https"},
		{"Tailscale-User-Login": login, "Tailscale-User-Name": "Super", "Tailscale-Headers-Info": "https://tailscale.com/s/serve-headers"},
		{"X-Forwarded-For": ip, "X-Forwarded-Host": "setec.verif", "X-Forwarded-Proto": "https", "Via": "1.1 proxy"},
		{"X-Webauth-User": login, "X-Remote-User": login, "Remote-Addr": ip + ":4711"},
	}
}

// ClientDo returns a DoHTTP function for setec.Client that serves the request
// in-process from the mux, as coming from remoteAddr.
func (s *Srv) ClientDo(remoteAddr string) func(*http.Request) (*http.Response, error) {
	return func(req *http.Request) (*http.Response, error) {
		if err := req.Context().Err(); err != nil {
			return nil, err
		}
		r2 := req.Clone(req.Context())
		r2.RemoteAddr = remoteAddr
		r2.RequestURI = req.URL.RequestURI()
		rec := httptest.NewRecorder()
		s.Mux.ServeHTTP(rec, r2)
		return rec.Result(), nil
	}
}

// Dashboard loads the HTML listing ("GET /") as the peer at remoteAddr and parses the rows of its table back
// into (name, versions, active version). ok is false when the page is not a 200 or cannot be parsed.
func (s *Srv) Dashboard(remoteAddr string, hdr map[string]string) (infos []refmodel.Info, rep Reply, ok bool) {
	rep = s.Raw("GET", "/", remoteAddr, hdr, nil)
	if rep.Status != 200 {
		return nil, rep, false
	}
	rows := strings.Split(string(rep.Body), "<tr>")
	if len(rows) < 2 {
		return nil, rep, false
	}
	for _, row := range rows[2:] { // rows[0] is the preamble, rows[1] the header row
		a := strings.Index(row, "<td>")
		b := strings.Index(row, "</td>")
		if a < 0 || b < a {
			return nil, rep, false
		}
		in := refmodel.Info{Name: html.UnescapeString(row[a+4 : b])}
		rest := row[b+5:]
		a, b = strings.Index(rest, "<td>"), strings.Index(rest, "</td>")
		if a < 0 || b < a {
			return nil, rep, false
		}
		for _, f := range strings.Split(rest[a+4:b], ",") {
			f = strings.TrimSpace(f)
			bold := strings.HasPrefix(f, "<b>")
			f = strings.TrimSuffix(strings.TrimPrefix(f, "<b>"), "</b>")
			if f == "" {
				continue
			}
			v, err := strconv.ParseUint(f, 10, 32)
			if err != nil {
				return nil, rep, false
			}
			in.Versions = append(in.Versions, uint32(v))
			if bold {
				in.Active = uint32(v)
			}
		}
		infos = append(infos, in)
	}
	return infos, rep, true
}
