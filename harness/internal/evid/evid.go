// Package evid is the shared bookkeeping of every monitor: seeded randomness,
// counters of what was observed, the three-valued verdict, and the evidence,
// result and replay files that the driver (bin/check) reads.
package evid

import (
	"encoding/json"
	"fmt"
	"math/rand/v2"
	"os"
	"path/filepath"
	"runtime"
	"sort"
	"strconv"
	"strings"
	"sync"
	"sync/atomic"
	"syscall"
	"testing"
	"time"
)

// Violation is one observed refutation of the property.
type Violation struct {
	Key    string `json:"key"`    // stable identifier of what failed (used by known_findings.txt)
	Replay string `json:"replay"` // path of the replay file
	Brief  string `json:"brief"`
}

// Run collects what one check run observed.
type Run struct {
	Prop  string
	Tier  string
	Seed  int64
	Level string
	Only  int // if >= 0, only this case index is run (replay)

	start time.Time

	mu           sync.Mutex
	evaluations  int64
	distinct     map[string]struct{}
	samples      []any
	maxSamples   int
	counters     map[string]int64
	violations   []Violation
	violKeys     map[string]int
	inconclusive []string
	rule         string
	assumptions  []string
	exhaustive   *bool
	extra        map[string]any
	required     []string // counters that must be > 0 or the run is broken
}

func envInt(name string, def int64) int64 {
	if v := os.Getenv(name); v != "" {
		if n, err := strconv.ParseInt(v, 10, 64); err == nil {
			return n
		}
	}
	return def
}

// Start begins a run for property prop at the given claimed level.
func Start(prop, level string) *Run {
	tier := os.Getenv("VERIF_TIER")
	if tier != "thorough" {
		tier = "quick"
	}
	return &Run{
		Prop: prop, Tier: tier, Level: level,
		Seed:       envInt("VERIF_SEED", 1),
		Only:       int(envInt("VERIF_CASE", -1)),
		start:      time.Now(),
		distinct:   map[string]struct{}{},
		counters:   map[string]int64{},
		violKeys:   map[string]int{},
		extra:      map[string]any{},
		maxSamples: 4,
	}
}

// Thorough reports whether the thorough tier was requested.
func (r *Run) Thorough() bool { return r.Tier == "thorough" }

// N picks the per-tier size of a workload.
func (r *Run) N(quick, thorough int) int {
	if r.Thorough() {
		return thorough
	}
	return quick
}

// Skip reports whether case idx should be skipped (replay of a single case).
func (r *Run) Skip(idx int) bool { return r.Only >= 0 && idx != r.Only }

// Rand returns a PRNG determined by the run seed and a stream number, so
// that every case (or worker) draws from its own reproducible stream.
func (r *Run) Rand(stream uint64) *rand.Rand {
	return rand.New(rand.NewPCG(uint64(r.Seed)*0x9E3779B97F4A7C15+0x1234567, stream*0xD1342543DE82EF95+7))
}

func (r *Run) Eval(n int) {
	r.mu.Lock()
	r.evaluations += int64(n)
	r.mu.Unlock()
}

// Distinct records a non-trivial case class; the evidence reports how many
// different ones were seen.
func (r *Run) Distinct(key string) {
	r.mu.Lock()
	r.distinct[key] = struct{}{}
	r.mu.Unlock()
}

func (r *Run) Count(name string, n int) {
	r.mu.Lock()
	r.counters[name] += int64(n)
	r.mu.Unlock()
}

func (r *Run) Max(name string, v int64) {
	r.mu.Lock()
	if v > r.counters[name] {
		r.counters[name] = v
	}
	r.mu.Unlock()
}

func (r *Run) Get(name string) int64 {
	r.mu.Lock()
	defer r.mu.Unlock()
	return r.counters[name]
}

// Require marks counters that must be positive at the end: a run whose
// monitors never observed these kinds of event is broken, not a pass.
func (r *Run) Require(names ...string) {
	r.mu.Lock()
	r.required = append(r.required, names...)
	r.mu.Unlock()
}

// Sample keeps the first few written-out cases for the evidence file.
func (r *Run) Sample(v any) {
	r.mu.Lock()
	if len(r.samples) < r.maxSamples {
		r.samples = append(r.samples, v)
	}
	r.mu.Unlock()
}

func (r *Run) WantSample() bool {
	r.mu.Lock()
	defer r.mu.Unlock()
	return len(r.samples) < r.maxSamples
}

func (r *Run) Rule(s string)         { r.rule = s }
func (r *Run) Assume(s ...string)    { r.assumptions = append(r.assumptions, s...) }
func (r *Run) Exhaustive(b bool)     { r.exhaustive = &b }
func (r *Run) Extra(k string, v any) { r.mu.Lock(); r.extra[k] = v; r.mu.Unlock() }
func (r *Run) Inconclusive(why string) {
	r.mu.Lock()
	r.inconclusive = append(r.inconclusive, why)
	r.mu.Unlock()
}

func (r *Run) dir(env, def string) string {
	if d := os.Getenv(env); d != "" {
		return d
	}
	return def
}

// NumViolations reports how many violations were recorded so far.
func (r *Run) NumViolations() int {
	r.mu.Lock()
	defer r.mu.Unlock()
	return len(r.violations)
}

// Violation records a refutation. key identifies *what* failed in a way that
// is stable across runs (property clause + shape), caseIdx and detail go to
// the replay file. At most a few replay files per key are written.
func (r *Run) Violation(key string, caseIdx int, brief string, detail any) {
	r.mu.Lock()
	defer r.mu.Unlock()
	r.violKeys[key]++
	if r.violKeys[key] > 3 || len(r.violations) >= 40 {
		return
	}
	dir := r.dir("VERIF_REPLAY_DIR", "/verif/replays")
	os.MkdirAll(dir, 0o755)
	path := filepath.Join(dir, fmt.Sprintf("%s-seed%d-%s-%d.json", r.Prop, r.Seed, r.Tier, len(r.violations)))
	doc := map[string]any{
		"property_id": r.Prop, "seed": r.Seed, "tier": r.Tier, "case": caseIdx,
		"key": key, "brief": brief, "detail": detail,
		"replay_env": fmt.Sprintf("VERIF_SEED=%d VERIF_TIER=%s VERIF_CASE=%d", r.Seed, r.Tier, caseIdx),
	}
	b, err := json.MarshalIndent(doc, "", " ")
	if err != nil {
		b, _ = json.MarshalIndent(map[string]any{"property_id": r.Prop, "seed": r.Seed, "tier": r.Tier,
			"case": caseIdx, "key": key, "brief": brief, "detail": fmt.Sprintf("%+v", detail)}, "", " ")
	}
	os.WriteFile(path, b, 0o644)
	r.violations = append(r.violations, Violation{Key: key, Replay: path, Brief: brief})
	// Write a provisional result at once, so that a verdict survives even if the
	// process later crashes or hangs in the (possibly broken) code under test.
	if rpath := os.Getenv("VERIF_RESULT_FILE"); rpath != "" {
		rb, _ := json.MarshalIndent(map[string]any{"property_id": r.Prop, "status": "violated", "violations": r.violations, "provisional": true}, "", " ")
		os.WriteFile(rpath, rb, 0o644)
	}
}

// Finish writes evidence/<prop>.json and the result file read by the driver,
// and fails the test on violation or on a run that observed nothing.
func (r *Run) Finish(t *testing.T) {
	// Finish is deferred by every check. When it runs because the test goroutine is panicking - the real code
	// panicked in it, or testing/synctest found every goroutine of a bubble blocked for good although all
	// scripted events had been played (a call of the real code that never returns) - that is the verdict: it
	// must not be overwritten by "held on everything observed so far".
	if p := recover(); p != nil {
		buf := make([]byte, 64<<10)
		buf = buf[:runtime.Stack(buf, false)]
		msg := fmt.Sprint(p)
		if len(msg) > 600 {
			msg = msg[:600]
		}
		r.Violation("crash", -1, "the test process panicked while driving the real code (for a synctest bubble: every goroutine blocked for good, i.e. a call that never returns): "+msg, map[string]any{"stack": string(buf)})
		defer panic(p)
	}
	r.mu.Lock()
	defer r.mu.Unlock()
	var broken []string
	for _, n := range r.required {
		if r.counters[n] <= 0 {
			broken = append(broken, "monitor observed no event of kind "+n)
		}
	}
	if r.Only >= 0 {
		broken = nil // a single-case replay cannot observe everything
	}
	if r.evaluations == 0 {
		broken = append(broken, "no evaluations")
	}
	keys := make([]string, 0, len(r.distinct))
	for k := range r.distinct {
		keys = append(keys, k)
	}
	sort.Strings(keys)
	cov := map[string]any{
		"evaluations":         r.evaluations,
		"distinct_nontrivial": len(r.distinct),
		"rule":                r.rule,
		"samples":             r.samples,
		"observed":            r.counters,
		"inconclusive":        len(r.inconclusive),
	}
	if len(keys) <= 60 {
		cov["distinct_classes"] = keys
	} else {
		cov["distinct_classes_first60"] = keys[:60]
	}
	if r.exhaustive != nil {
		cov["exhaustive"] = *r.exhaustive
	}
	for k, v := range r.extra {
		cov[k] = v
	}
	if len(r.inconclusive) > 0 {
		n := len(r.inconclusive)
		if n > 10 {
			n = 10
		}
		cov["inconclusive_reasons"] = r.inconclusive[:n]
	}
	if r.samples == nil {
		cov["samples"] = []any{}
	}
	ev := map[string]any{
		"property_id": r.Prop,
		"tier":        r.Tier,
		"seed":        r.Seed,
		"level":       r.Level,
		"coverage":    cov,
		"assumptions": r.assumptions,
		"wall_s":      time.Since(r.start).Seconds(),
		"violations":  len(r.violations),
	}
	if r.assumptions == nil {
		ev["assumptions"] = []string{}
	}
	edir := r.dir("VERIF_EVIDENCE_DIR", "/verif/evidence")
	os.MkdirAll(edir, 0o755)
	b, err := json.MarshalIndent(ev, "", " ")
	if err != nil {
		t.Fatalf("evidence not serialisable: %v", err)
	}
	if r.Only < 0 {
		if err := os.WriteFile(filepath.Join(edir, r.Prop+".json"), b, 0o644); err != nil {
			t.Fatalf("writing evidence: %v", err)
		}
	}
	status := "held"
	switch {
	case len(r.violations) > 0:
		status = "violated"
	case len(broken) > 0:
		status = "broken"
	case r.evaluations > 0 && int64(len(r.inconclusive))*20 > r.evaluations:
		status = "inconclusive"
	}
	res := map[string]any{
		"property_id": r.Prop, "status": status, "violations": r.violations,
		"violation_key_counts": r.violKeys,
		"broken":               broken, "inconclusive": len(r.inconclusive),
	}
	rb, _ := json.MarshalIndent(res, "", " ")
	rpath := os.Getenv("VERIF_RESULT_FILE")
	if rpath == "" {
		rpath = filepath.Join(edir, "."+r.Prop+".result.json")
	}
	os.WriteFile(rpath, rb, 0o644)
	t.Logf("%s %s seed=%d: status=%s evaluations=%d distinct=%d violations=%d inconclusive=%d wall=%.1fs",
		r.Prop, r.Tier, r.Seed, status, r.evaluations, len(r.distinct), len(r.violations), len(r.inconclusive), time.Since(r.start).Seconds())
	for n, c := range r.counters {
		_ = n
		_ = c
	}
	if status != "held" {
		for _, v := range r.violations {
			t.Logf("violation key=%s replay=%s: %s", v.Key, v.Replay, v.Brief)
		}
		for _, bmsg := range broken {
			t.Logf("broken: %s", bmsg)
		}
		t.Fail()
	}
}

// TempDir makes a scratch directory on tmpfs (fsync is free there, so tens of
// thousands of real database saves fit in a quick run), removed when the test ends.
func TempDir(t testing.TB) string {
	base := os.Getenv("VERIF_TMP")
	if base == "" {
		if st, err := os.Stat("/dev/shm"); err == nil && st.IsDir() {
			base = "/dev/shm"
		} else {
			base = os.TempDir()
		}
	}
	d, err := os.MkdirTemp(base, "verif-")
	if err != nil {
		t.Fatalf("tempdir: %v", err)
	}
	t.Cleanup(func() { os.RemoveAll(d) })
	return d
}

// SpinWatchdog must be started OUTSIDE any synctest bubble. The driver bumps
// progress as it goes; when it has not moved for 15 s of wall time the
// watchdog decides whether the process is spinning inside the code under test: the driver has made no
// progress for 15 s, and in three consecutive samples one second apart a goroutine whose stack contains frame
// is neither parked in select, nor in a channel receive, nor asleep (it is runnable, running, in a system
// call, or queueing for a lock). That is a violation (a busy loop keeps a bubble from ever becoming idle, so
// virtual time stops and nothing inside can notice); anything else is inconclusive. CPU time is not part of
// the criterion: a loop that logs on every turn spends whole seconds in write(2) on a busy machine. Either way
// the process exits: a stuck bubble cannot be torn down. The returned function stops the watchdog.
func (r *Run) SpinWatchdog(progress *atomic.Int64, frame, key, msg string) (stop func()) {
	done := make(chan struct{})
	go func() {
		last, lastChange := progress.Load(), time.Now()
		for {
			select {
			case <-done:
				return
			case <-time.After(500 * time.Millisecond):
			}
			if p := progress.Load(); p != last {
				last, lastChange = p, time.Now()
				continue
			}
			if time.Since(lastChange) < 15*time.Second {
				continue
			}
			cpu := func() time.Duration {
				var ru syscall.Rusage
				syscall.Getrusage(syscall.RUSAGE_SELF, &ru)
				return time.Duration(ru.Utime.Nano() + ru.Stime.Nano())
			}
			spinning := 0
			var dump string
			for s := 0; s < 3; s++ {
				c0 := cpu()
				time.Sleep(time.Second)
				c1 := cpu()
				buf := make([]byte, 1<<20)
				buf = buf[:runtime.Stack(buf, true)]
				dump = string(buf)
				inLoop := false
				for _, g := range strings.Split(dump, "\n\n") {
					if strings.Contains(g, frame) && !strings.Contains(g, "[select") && !strings.Contains(g, "[chan receive") && !strings.Contains(g, "[sleep") {
						inLoop = true
					}
				}
				if _ = c1 - c0; inLoop { // (CPU time is reported, not required: a loop that logs every turn can sit in write(2) for a whole second)
					spinning++
				}
				if os.Getenv("VERIF_WATCHDOG_DEBUG") != "" {
					hdr := ""
					for _, g := range strings.Split(dump, "\n\n") {
						if strings.Contains(g, frame) {
							hdr += strings.SplitN(g, "\n", 2)[0] + " | "
						}
					}
					fmt.Fprintf(os.Stderr, "watchdog sample %d: cpu=%v inLoop=%t dump=%d bytes goroutines-with-frame: %s\n", s, c1-c0, inLoop, len(dump), hdr)
				}
			}
			if progress.Load() != last {
				last, lastChange = progress.Load(), time.Now()
				continue
			}
			if spinning == 3 {
				if len(dump) > 8000 {
					dump = dump[:8000]
				}
				r.Violation(key, -1, msg+" (no progress for 15 s, then 3 samples one second apart: the goroutine never parked, in "+frame+")", map[string]any{"stacks": dump})
			} else {
				r.Inconclusive("the driver made no progress for 15 s but nothing is visibly spinning in " + frame)
			}
			fmt.Fprintln(os.Stderr, "watchdog: giving up on a stuck bubble")
			os.Exit(3)
		}
	}()
	return func() { close(done) }
}
