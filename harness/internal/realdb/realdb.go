// Package realdb adapts the real setec db.DB (and helpers around it) to the
// vocabulary of the reference model: outcome classes, full-state dumps as a
// superuser, and ACL conversions.
package realdb

import (
	"errors"
	"fmt"
	"io"
	"net/netip"
	"os"
	"path/filepath"
	"sort"
	"strings"
	"sync/atomic"

	"github.com/tailscale/setec/acl"
	"github.com/tailscale/setec/audit"
	"github.com/tailscale/setec/db"
	"github.com/tailscale/setec/types/api"
	"github.com/tink-crypto/tink-go/v2/testutil"
	"github.com/tink-crypto/tink-go/v2/tink"

	"verif/harness/internal/refmodel"
)

// Classify maps an error of the DB API or of the client API to its class.
func Classify(err error) refmodel.Class {
	switch {
	case err == nil:
		return refmodel.OK
	case errors.Is(err, db.ErrAccessDenied), errors.Is(err, api.ErrAccessDenied):
		return refmodel.Denied
	case errors.Is(err, db.ErrNotFound), errors.Is(err, api.ErrNotFound):
		return refmodel.NotFound
	case errors.Is(err, api.ErrValueNotChanged):
		return refmodel.NotChanged
	}
	return refmodel.Other
}

var AllActions = []acl.Action{acl.ActionGet, acl.ActionInfo, acl.ActionPut, acl.ActionActivate, acl.ActionDelete}

// Super is a caller allowed to do everything.
func Super() db.Caller {
	return db.Caller{
		Principal:   audit.Principal{User: "super@verif", IP: netip.MustParseAddr("100.64.0.1"), Hostname: "super.verif"},
		Permissions: acl.Rules{{Action: AllActions, Secret: []acl.Secret{"*"}}},
	}
}

// Caller builds a caller with the given model rules.
func Caller(user string, rules []refmodel.Rule) db.Caller {
	return db.Caller{
		Principal:   audit.Principal{User: user, IP: netip.MustParseAddr("100.64.0.2"), Hostname: user + ".verif"},
		Permissions: ToACL(rules),
	}
}

func ToACL(rules []refmodel.Rule) acl.Rules {
	var out acl.Rules
	for _, r := range rules {
		var ar acl.Rule
		for _, a := range r.Actions {
			ar.Action = append(ar.Action, acl.Action(a))
		}
		for _, p := range r.Patterns {
			ar.Secret = append(ar.Secret, acl.Secret(p))
		}
		out = append(out, ar)
	}
	return out
}

// DummyKey is the key-encryption key used where the key itself is not what
// is being checked.
func DummyKey(name string) tink.AEAD { return &testutil.DummyAEAD{Name: name} }

// Open opens (or creates) a database at path with a discarding audit log.
func Open(path string, key tink.AEAD) (*db.DB, error) {
	return db.Open(path, key, audit.New(io.Discard))
}

// Dump reads the full observable state of d as the superuser into a model
// (the hidden Latest counters are set to 0). It returns an error if the
// state is not self-consistent (e.g. List names a version that GetVersion
// does not return).
func Dump(d *db.DB) (*refmodel.Model, error) {
	su := Super()
	infos, err := d.List(su)
	if err != nil {
		return nil, fmt.Errorf("list: %w", err)
	}
	m := refmodel.New()
	for _, in := range infos {
		if _, dup := m.S[in.Name]; dup {
			return nil, fmt.Errorf("list names %q twice", in.Name)
		}
		s := &refmodel.Secret{Versions: map[uint32]string{}, Active: uint32(in.ActiveVersion)}
		for _, v := range in.Versions {
			sv, err := d.GetVersion(su, in.Name, v)
			if err != nil {
				return nil, fmt.Errorf("list shows %q version %d but get-version fails: %v", in.Name, v, err)
			}
			if sv.Version != v {
				return nil, fmt.Errorf("get-version %q %d returned version %d", in.Name, v, sv.Version)
			}
			if _, dup := s.Versions[uint32(v)]; dup {
				return nil, fmt.Errorf("list shows %q version %d twice", in.Name, v)
			}
			s.Versions[uint32(v)] = string(sv.Value)
		}
		// Cross-check Info and Get against List.
		in2, err := d.Info(su, in.Name)
		if err != nil {
			return nil, fmt.Errorf("list shows %q but info fails: %v", in.Name, err)
		}
		if InfoString(in2) != InfoString(in) {
			return nil, fmt.Errorf("list and info disagree on %q: %s vs %s", in.Name, InfoString(in), InfoString(in2))
		}
		g, err := d.Get(su, in.Name)
		if err != nil {
			return nil, fmt.Errorf("list shows %q but get fails: %v", in.Name, err)
		}
		if g.Version != in.ActiveVersion || string(g.Value) != s.Versions[uint32(in.ActiveVersion)] {
			return nil, fmt.Errorf("get of %q returns v%d %x; active is v%d %x", in.Name, g.Version, g.Value, in.ActiveVersion, s.Versions[uint32(in.ActiveVersion)])
		}
		if _, ok := s.Versions[s.Active]; !ok {
			return nil, fmt.Errorf("active version %d of %q is not among its versions %v", s.Active, in.Name, in.Versions)
		}
		m.S[in.Name] = s
	}
	return m, nil
}

func InfoString(in *api.SecretInfo) string {
	if in == nil {
		return "<nil>"
	}
	vs := make([]string, len(in.Versions))
	for i, v := range in.Versions {
		vs[i] = v.String()
	}
	return fmt.Sprintf("%q[%s]@%d", in.Name, strings.Join(vs, " "), in.ActiveVersion)
}

// ModelInfoString renders a model info in the same format as InfoString.
func ModelInfoString(in refmodel.Info) string {
	vs := make([]string, len(in.Versions))
	for i, v := range in.Versions {
		vs[i] = fmt.Sprint(v)
	}
	return fmt.Sprintf("%q[%s]@%d", in.Name, strings.Join(vs, " "), in.Active)
}

// ListString renders a list result canonically (sorted by name as returned).
func ListString(infos []*api.SecretInfo) string {
	s := make([]string, len(infos))
	for i, in := range infos {
		s[i] = InfoString(in)
	}
	return strings.Join(s, ";")
}

func ModelListString(infos []refmodel.Info) string {
	s := make([]string, len(infos))
	for i, in := range infos {
		s[i] = ModelInfoString(in)
	}
	return strings.Join(s, ";")
}

// SortedNames returns the names of a model in order.
func SortedNames(m *refmodel.Model) []string {
	out := make([]string, 0, len(m.S))
	for n := range m.S {
		out = append(out, n)
	}
	sort.Strings(out)
	return out
}

// BreakDir makes every save of the database at dbPath fail while f runs, by
// moving the database's directory away (the temporary file can then not be
// created). The database must live in a directory of its own.
func BreakDir(dbPath string, f func()) {
	dir := filepath.Dir(dbPath)
	away := dir + ".away"
	if err := os.Rename(dir, away); err != nil {
		panic(err)
	}
	defer func() {
		if err := os.Rename(away, dir); err != nil {
			panic(err)
		}
	}()
	f()
}

// FlakySink is an audit sink that stores nothing and whose Sync can be made to fail (the record reached
// the page cache, not the disk): an audit-log fault that leaves the writer usable afterwards.
type FlakySink struct{ FailSync atomic.Bool }

func (s *FlakySink) Write(p []byte) (int, error) { return len(p), nil }
func (s *FlakySink) Sync() error {
	if s.FailSync.Load() {
		return errors.New("injected: audit log fsync failed")
	}
	return nil
}

// OpenFlaky opens the database with an audit writer on sink.
func OpenFlaky(path string, key tink.AEAD, sink *FlakySink) (*db.DB, error) {
	return db.Open(path, key, audit.New(sink))
}
