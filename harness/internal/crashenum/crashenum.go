// Package crashenum enumerates, for one traced operation, every watched
// system call as a crash point (kill before / after), as an error point (a
// list of errnos the kernel can really return for that call) and, for writes,
// as a short write and a short write followed by a kill.
package crashenum

import (
	"fmt"
	"os"
	"os/exec"
	"path/filepath"
	"strings"
	"syscall"
	"time"

	"verif/harness/internal/sysfault"
)

// Errnos lists, per system call, the errors that are injected (the first one only in the quick tier).
var Errnos = map[string][]syscall.Errno{
	"openat":    {syscall.EMFILE, syscall.EACCES, syscall.ENOSPC},
	"write":     {syscall.ENOSPC, syscall.EIO, syscall.EDQUOT},
	"pwrite64":  {syscall.ENOSPC, syscall.EIO},
	"fchmod":    {syscall.EPERM, syscall.EIO},
	"fchmodat":  {syscall.EPERM},
	"chmod":     {syscall.EPERM},
	"fsync":     {syscall.EIO, syscall.ENOSPC},
	"fdatasync": {syscall.EIO},
	"close":     {syscall.EIO, syscall.EDQUOT},
	// (the step that installs the new file is visited with every errno in both tiers: programs like to
	// special-case what it reports - EBUSY for a bind-mounted file, EXDEV for another file system ...)
	"rename":     {syscall.EACCES, syscall.EXDEV, syscall.ENOSPC, syscall.EBUSY, syscall.EROFS, syscall.EPERM},
	"renameat":   {syscall.EACCES, syscall.EXDEV, syscall.ENOSPC, syscall.EBUSY, syscall.EROFS, syscall.EPERM},
	"renameat2":  {syscall.EACCES, syscall.EXDEV, syscall.EBUSY, syscall.EROFS, syscall.EPERM},
	"newfstatat": {syscall.EACCES},
	"stat":       {syscall.EACCES},
	"unlinkat":   {syscall.EIO},
	"unlink":     {syscall.EIO},
	"ftruncate":  {syscall.EIO},
	"mkdirat":    {syscall.EACCES},
}

// Faults derives the fault list from a fault-free trace.
func Faults(trace []sysfault.Event, thorough bool) []sysfault.Fault {
	var out []sysfault.Fault
	for _, e := range trace {
		out = append(out, sysfault.Fault{Kind: sysfault.KillBefore, At: e.Idx}, sysfault.Fault{Kind: sysfault.KillAfter, At: e.Idx})
		errs := Errnos[e.Name]
		if !thorough && len(errs) > 1 && !strings.HasPrefix(e.Name, "rename") {
			errs = errs[:1]
		}
		for _, en := range errs {
			out = append(out, sysfault.Fault{Kind: sysfault.Errno, At: e.Idx, Errno: en})
		}
		if (e.Name == "write" || e.Name == "pwrite64") && e.Count > 1 {
			lens := []int{1, e.Count / 2, e.Count - 1}
			for _, l := range lens {
				if l >= 1 && l < e.Count {
					out = append(out, sysfault.Fault{Kind: sysfault.Short, At: e.Idx, ShortLen: l}, sysfault.Fault{Kind: sysfault.ShortKill, At: e.Idx, ShortLen: l})
				}
			}
		}
	}
	return out
}

func FaultString(f sysfault.Fault) string {
	switch f.Kind {
	case sysfault.Errno:
		return fmt.Sprintf("%s@%d:%d", f.Kind, f.At, int(f.Errno))
	case sysfault.Short, sysfault.ShortKill:
		return fmt.Sprintf("%s@%d:%d", f.Kind, f.At, f.ShortLen)
	}
	return fmt.Sprintf("%s@%d", f.Kind, f.At)
}

// BuildChild compiles a helper command of the harness module against the repository under test.
func BuildChild(outDir, pkg string) (string, error) {
	gobin := os.Getenv("VERIF_GO")
	if gobin == "" {
		gobin = "go1.26.8"
	}
	bin := filepath.Join(outDir, filepath.Base(pkg))
	args := []string{"build"}
	if ma := strings.Fields(os.Getenv("VERIF_MODARGS")); len(ma) > 0 {
		args = append(args, ma...)
	}
	args = append(args, "-tags", "verif", "-o", bin, pkg)
	cmd := exec.Command(gobin, args...)
	cmd.Dir = harnessDir()
	out, err := cmd.CombinedOutput()
	if err != nil {
		return "", fmt.Errorf("building %s: %v\n%s", pkg, err, out)
	}
	return bin, nil
}

func harnessDir() string {
	if d := os.Getenv("VERIF_DIR"); d != "" {
		return filepath.Join(d, "harness")
	}
	return "/verif/harness"
}

// Timeout for one traced child.
const Timeout = 60 * time.Second

// Protocol checks the write-to-temp / flush / replace discipline on a fault-free trace for
// the live file path. It returns a list of complaints.
func Protocol(trace []sysfault.Event, live string) []string {
	var bad []string
	dir := filepath.Dir(live)
	lastWrite := map[string]int{}
	synced := map[string]int{}
	renamed := false
	for _, e := range trace {
		switch e.Name {
		case "openat", "open", "creat", "openat2":
			if e.Path == live && (e.Flags&(syscall.O_WRONLY|syscall.O_RDWR|syscall.O_TRUNC|syscall.O_CREAT|syscall.O_APPEND) != 0 || e.Name == "creat") {
				bad = append(bad, fmt.Sprintf("the live file is opened for writing (%s)", e))
			}
		case "write", "pwrite64", "writev", "pwritev", "pwritev2", "ftruncate", "fallocate", "copy_file_range", "sendfile":
			if e.Path == live {
				bad = append(bad, fmt.Sprintf("the live file is written in place (%s)", e))
			}
			lastWrite[e.Path] = e.Idx
		case "truncate":
			if e.Path == live {
				bad = append(bad, fmt.Sprintf("the live file is truncated in place (%s)", e))
			}
		case "fsync", "fdatasync":
			if e.Returned && e.Ret == 0 {
				synced[e.Path] = e.Idx
			}
		case "rename", "renameat", "renameat2":
			if e.Path2 != live {
				continue
			}
			renamed = true
			if filepath.Dir(e.Path) != dir {
				bad = append(bad, fmt.Sprintf("the new contents come from another directory (%s)", e))
			}
			if lastWrite[e.Path] == 0 {
				bad = append(bad, fmt.Sprintf("nothing was written to the file that replaces the live file (%s)", e))
			}
			if synced[e.Path] < lastWrite[e.Path] {
				bad = append(bad, fmt.Sprintf("the new contents replace the live file before they were flushed: last write #%d, last successful fsync #%d, %s", lastWrite[e.Path], synced[e.Path], e))
			}
		}
	}
	if !renamed {
		bad = append(bad, "no rename onto the live file was observed")
	}
	return bad
}

// InPlace reports every event of a (possibly faulted) trace that opens the live file for writing or
// writes/truncates it in place. Unlike Protocol it does not demand that a rename happened.
func InPlace(trace []sysfault.Event, live string) []string {
	var bad []string
	for _, e := range trace {
		switch e.Name {
		case "openat", "open", "creat", "openat2":
			if e.Path == live && (e.Flags&(syscall.O_WRONLY|syscall.O_RDWR|syscall.O_TRUNC|syscall.O_CREAT|syscall.O_APPEND) != 0 || e.Name == "creat") {
				bad = append(bad, fmt.Sprintf("the live file is opened for writing (%s)", e))
			}
		case "write", "pwrite64", "writev", "pwritev", "pwritev2", "ftruncate", "fallocate", "copy_file_range", "sendfile", "truncate":
			if e.Path == live {
				bad = append(bad, fmt.Sprintf("the live file is modified in place (%s)", e))
			}
		}
	}
	return bad
}
