// Package ops defines the operation vocabulary shared by the history-based
// monitors, with one interpreter for the reference model (with its ACL layer)
// and one for the real db.DB.
package ops

import (
	"fmt"
	"math/rand/v2"

	"github.com/tailscale/setec/db"
	"github.com/tailscale/setec/types/api"

	"verif/harness/internal/realdb"
	"verif/harness/internal/refmodel"
)

type Kind string

const (
	List    Kind = "list"
	Info    Kind = "info"
	Get     Kind = "get"
	GetVer  Kind = "get-version"
	GetCond Kind = "get-if-changed"
	Put     Kind = "put"
	Act     Kind = "activate"
	DelVer  Kind = "delete-version"
	Delete  Kind = "delete"
)

var AllKinds = []Kind{List, Info, Get, GetVer, GetCond, Put, Act, DelVer, Delete}

// Action is the ACL action an operation requires.
func (k Kind) Action() string {
	switch k {
	case List, Info:
		return "info"
	case Get, GetVer, GetCond:
		return "get"
	case Put:
		return "put"
	case Act:
		return "activate"
	}
	return "delete"
}

func (k Kind) Mutating() bool { return k == Put || k == Act || k == DelVer || k == Delete }

type Op struct {
	Kind    Kind   `json:"op"`
	Name    string `json:"name"`
	Version uint32 `json:"version,omitempty"`
	Value   []byte `json:"value,omitempty"`
}

func (o Op) String() string {
	switch o.Kind {
	case List:
		return "list"
	case Put:
		return fmt.Sprintf("put %q=%q", o.Name, o.Value)
	case GetVer, GetCond, Act, DelVer:
		return fmt.Sprintf("%s %q %d", o.Kind, o.Name, o.Version)
	}
	return fmt.Sprintf("%s %q", o.Kind, o.Name)
}

// Result is the observable outcome of an operation.
type Result struct {
	Class   refmodel.Class
	Alt     refmodel.Class // a second acceptable class (model only; equal to Class when there is none)
	Version uint32         // put: assigned version; gets: version returned
	Bytes   string         // gets: value returned
	Meta    string         // info / list: canonical rendering
	HasVal  bool
	Err     string // real only, informational
}

func (r Result) String() string {
	s := r.Class.String()
	if r.Alt != r.Class && r.Alt != refmodel.OK {
		s += "|" + r.Alt.String()
	}
	if r.Class == refmodel.OK {
		if r.HasVal {
			s += fmt.Sprintf(" v%d %q", r.Version, r.Bytes)
		} else if r.Version != 0 {
			s += fmt.Sprintf(" v%d", r.Version)
		}
		if r.Meta != "" {
			s += " " + r.Meta
		}
	}
	return s
}

// Agree reports whether the real result is what the model allows.
func Agree(model, real Result) bool {
	if real.Class != model.Class && real.Class != model.Alt {
		return false
	}
	if real.Class != refmodel.OK || model.Class != refmodel.OK {
		// a refused/failed call returns nothing
		return !(real.Class != refmodel.OK && (real.HasVal || real.Meta != ""))
	}
	return real.Version == model.Version && real.Bytes == model.Bytes && real.Meta == model.Meta && real.HasVal == model.HasVal
}

// illFormed reports whether op is rejected regardless of permissions.
func illFormed(op Op) bool {
	switch op.Kind {
	case Put:
		return op.Name == ""
	case Act:
		return op.Name == "" || op.Version == 0
	case DelVer:
		return op.Version == 0
	}
	return false
}

// ApplyModel runs op on the model for a caller holding rules (nil rules =
// superuser with every permission).
func ApplyModel(m *refmodel.Model, rules []refmodel.Rule, super bool, op Op) Result {
	allowed := func(name string) bool { return super || refmodel.Allowed(rules, op.Kind.Action(), name) }
	res := func(c refmodel.Class) Result { return Result{Class: c, Alt: c} }
	if op.Kind == List {
		l := m.List(func(n string) bool { return super || refmodel.Allowed(rules, "info", n) })
		return Result{Class: refmodel.OK, Alt: refmodel.OK, Meta: realdb.ModelListString(l)}
	}
	if !allowed(op.Name) {
		r := res(refmodel.Denied)
		if illFormed(op) {
			r.Alt = refmodel.Other // refused either way; the property fixes the class only for well-formed requests
		}
		return r
	}
	switch op.Kind {
	case Info:
		in, c := m.Info(op.Name)
		if c != refmodel.OK {
			return res(c)
		}
		return Result{Class: c, Alt: c, Meta: realdb.ModelInfoString(in)}
	case Get:
		v, c := m.Get(op.Name)
		if c != refmodel.OK {
			return res(c)
		}
		return Result{Class: c, Alt: c, Version: v.Version, Bytes: v.Bytes, HasVal: true}
	case GetVer:
		v, c := m.GetVersion(op.Name, op.Version)
		if c != refmodel.OK {
			return res(c)
		}
		return Result{Class: c, Alt: c, Version: v.Version, Bytes: v.Bytes, HasVal: true}
	case GetCond:
		v, c := m.GetIfChanged(op.Name, op.Version)
		if c != refmodel.OK {
			return res(c)
		}
		return Result{Class: c, Alt: c, Version: v.Version, Bytes: v.Bytes, HasVal: true}
	case Put:
		v, c := m.Put(op.Name, op.Value)
		if c != refmodel.OK {
			return res(c)
		}
		return Result{Class: c, Alt: c, Version: v}
	case Act:
		return res(m.Activate(op.Name, op.Version))
	case DelVer:
		return res(m.DeleteVersion(op.Name, op.Version))
	case Delete:
		return res(m.Delete(op.Name))
	}
	panic("bad op")
}

// ApplyReal runs op on the real database through its exported API. A panic in
// the real code is reported as class Other with Err "panic: ...".
func ApplyReal(d *db.DB, caller db.Caller, op Op) (r Result) {
	defer func() {
		if p := recover(); p != nil {
			r = Result{Class: refmodel.Other, Err: fmt.Sprintf("panic: %v", p)}
		}
	}()
	val := func(sv *api.SecretValue, err error) Result {
		c := realdb.Classify(err)
		r := Result{Class: c}
		if err != nil {
			r.Err = err.Error()
		}
		if sv != nil {
			r.Version, r.Bytes, r.HasVal = uint32(sv.Version), string(sv.Value), true
			// the caller owns what it was given and does with it what callers do (wipe it after use):
			// that must never reach what the database holds
			for i := range sv.Value {
				sv.Value[i] ^= 0xA5
			}
			sv.Version = 0xDEAD
		}
		return r
	}
	cls := func(err error) Result {
		r := Result{Class: realdb.Classify(err)}
		if err != nil {
			r.Err = err.Error()
		}
		return r
	}
	switch op.Kind {
	case List:
		l, err := d.List(caller)
		r := cls(err)
		if l != nil || err == nil {
			r.Meta = realdb.ListString(l)
		}
		for _, in := range l {
			if in != nil {
				for i := range in.Versions {
					in.Versions[i] = 0xBAD
				}
				in.ActiveVersion, in.Name = 0xBAD, "scribbled"
			}
		}
		return r
	case Info:
		in, err := d.Info(caller, op.Name)
		r := cls(err)
		if in != nil {
			r.Meta = realdb.InfoString(in)
			for i := range in.Versions { // (the metadata is the caller's too)
				in.Versions[i] = 0xBAD
			}
			in.ActiveVersion, in.Name = 0xBAD, "scribbled"
		}
		return r
	case Get:
		return val(d.Get(caller, op.Name))
	case GetVer:
		return val(d.GetVersion(caller, op.Name, api.SecretVersion(op.Version)))
	case GetCond:
		return val(d.GetConditional(caller, op.Name, api.SecretVersion(op.Version)))
	case Put:
		// likewise the buffer handed to Put is the caller's, and is reused right after the call
		buf := append(make([]byte, 0, len(op.Value)+8), op.Value...)
		v, err := d.Put(caller, op.Name, buf)
		for i := range buf {
			buf[i] ^= 0x5A
		}
		copy(buf[len(buf):cap(buf)], "scribble")
		r := cls(err)
		r.Version = uint32(v)
		return r
	case Act:
		return cls(d.Activate(caller, op.Name, api.SecretVersion(op.Version)))
	case DelVer:
		return cls(d.DeleteVersion(caller, op.Name, api.SecretVersion(op.Version)))
	case Delete:
		return cls(d.Delete(caller, op.Name))
	}
	panic("bad op")
}

// GenCfg steers the operation generator.
type GenCfg struct {
	Names   []string
	Values  [][]byte
	Weights map[Kind]int
}

// Gen draws an operation; version arguments are biased towards the
// interesting ones of the current model state.
func Gen(rng *rand.Rand, m *refmodel.Model, cfg GenCfg) Op {
	total := 0
	for _, k := range AllKinds {
		total += cfg.Weights[k]
	}
	x := rng.IntN(total)
	var kind Kind
	for _, k := range AllKinds {
		if x < cfg.Weights[k] {
			kind = k
			break
		}
		x -= cfg.Weights[k]
	}
	op := Op{Kind: kind}
	if kind == List {
		return op
	}
	op.Name = cfg.Names[rng.IntN(len(cfg.Names))]
	switch kind {
	case Put:
		op.Value = cfg.Values[rng.IntN(len(cfg.Values))]
	case GetVer, GetCond, Act, DelVer:
		op.Version = GenVersion(rng, m, op.Name)
	}
	return op
}

// GenVersion picks a version argument for name: 0, active, latest, latest+1,
// an existing one, a deleted one, or a huge one.
func GenVersion(rng *rand.Rand, m *refmodel.Model, name string) uint32 {
	s := m.S[name]
	if s == nil {
		return uint32(rng.IntN(3))
	}
	switch rng.IntN(10) {
	case 0:
		return 0
	case 1, 2:
		return s.Active
	case 3, 4:
		return s.Latest
	case 5:
		return s.Latest + 1
	case 6:
		return 0xFFFFFFFF
	default:
		return uint32(1 + rng.IntN(int(s.Latest)))
	}
}
