// Package refmodel is the sequential reference model ("plain map model") of
// the versioned secret store, with an ACL layer on top, written from the
// property statements. It is the oracle of the E1/E2 monitors.
package refmodel

import (
	"fmt"
	"sort"
	"strings"
)

// Class is the class of an outcome. Oracles compare classes, never messages.
type Class int

const (
	OK Class = iota
	NotFound
	Denied
	NotChanged
	Other
)

func (c Class) String() string {
	return [...]string{"ok", "notfound", "denied", "notchanged", "other"}[c]
}

const ReservedPrefix = "_internal/"

// Secret is the model state of one name.
type Secret struct {
	Versions map[uint32]string
	Active   uint32
	Latest   uint32
}

// Model is the state of the whole store.
type Model struct {
	S map[string]*Secret
}

func New() *Model { return &Model{S: map[string]*Secret{}} }

func (m *Model) Clone() *Model {
	c := New()
	for n, s := range m.S {
		cs := &Secret{Versions: make(map[uint32]string, len(s.Versions)), Active: s.Active, Latest: s.Latest}
		for v, b := range s.Versions {
			cs.Versions[v] = b
		}
		c.S[n] = cs
	}
	return c
}

func reserved(name string) bool { return strings.HasPrefix(name, ReservedPrefix) }

// Put returns the version assigned.
func (m *Model) Put(name string, val []byte) (uint32, Class) {
	if name == "" || reserved(name) {
		return 0, Other
	}
	s := m.S[name]
	if s == nil {
		m.S[name] = &Secret{Versions: map[uint32]string{1: string(val)}, Active: 1, Latest: 1}
		return 1, OK
	}
	if cur, ok := s.Versions[s.Latest]; ok && cur == string(val) {
		return s.Latest, OK
	}
	s.Latest++
	s.Versions[s.Latest] = string(val)
	return s.Latest, OK
}

func (m *Model) Activate(name string, v uint32) Class {
	if name == "" || reserved(name) || v == 0 {
		return Other
	}
	s := m.S[name]
	if s == nil {
		return NotFound
	}
	if _, ok := s.Versions[v]; !ok {
		return NotFound
	}
	s.Active = v
	return OK
}

func (m *Model) DeleteVersion(name string, v uint32) Class {
	if reserved(name) || v == 0 {
		return Other
	}
	s := m.S[name]
	if s == nil {
		return NotFound
	}
	if v == s.Active {
		return Other
	}
	if _, ok := s.Versions[v]; !ok {
		return NotFound
	}
	delete(s.Versions, v)
	return OK
}

func (m *Model) Delete(name string) Class {
	if reserved(name) {
		return Other
	}
	delete(m.S, name)
	return OK
}

// Value is a (version, bytes) pair.
type Value struct {
	Version uint32
	Bytes   string
}

func (m *Model) Get(name string) (Value, Class) {
	s := m.S[name]
	if s == nil {
		return Value{}, NotFound
	}
	return Value{s.Active, s.Versions[s.Active]}, OK
}

func (m *Model) GetVersion(name string, v uint32) (Value, Class) {
	s := m.S[name]
	if s == nil {
		return Value{}, NotFound
	}
	b, ok := s.Versions[v]
	if !ok {
		return Value{}, NotFound
	}
	return Value{v, b}, OK
}

// GetIfChanged is the conditional get for a non-zero old version; with
// old == 0 it is a plain get.
func (m *Model) GetIfChanged(name string, old uint32) (Value, Class) {
	s := m.S[name]
	if s == nil {
		return Value{}, NotFound
	}
	if old != 0 && s.Active == old {
		return Value{}, NotChanged
	}
	return Value{s.Active, s.Versions[s.Active]}, OK
}

// Info is name + sorted versions + active (never bytes).
type Info struct {
	Name     string
	Versions []uint32
	Active   uint32
}

func (i Info) String() string { return fmt.Sprintf("%q%v@%d", i.Name, i.Versions, i.Active) }

func (m *Model) Info(name string) (Info, Class) {
	s := m.S[name]
	if s == nil {
		return Info{}, NotFound
	}
	vs := make([]uint32, 0, len(s.Versions))
	for v := range s.Versions {
		vs = append(vs, v)
	}
	sort.Slice(vs, func(i, j int) bool { return vs[i] < vs[j] })
	return Info{name, vs, s.Active}, OK
}

// List returns the info of every name accepted by keep, sorted by name.
func (m *Model) List(keep func(name string) bool) []Info {
	var out []Info
	for n := range m.S {
		if keep == nil || keep(n) {
			i, _ := m.Info(n)
			out = append(out, i)
		}
	}
	sort.Slice(out, func(i, j int) bool { return out[i].Name < out[j].Name })
	return out
}

// Canon is a canonical encoding of the full observable state (names, version
// sets, bytes, active), excluding the hidden next-version counter.
func (m *Model) Canon() string {
	var sb strings.Builder
	names := make([]string, 0, len(m.S))
	for n := range m.S {
		names = append(names, n)
	}
	sort.Strings(names)
	for _, n := range names {
		i, _ := m.Info(n)
		fmt.Fprintf(&sb, "%q@%d{", n, i.Active)
		for _, v := range i.Versions {
			fmt.Fprintf(&sb, "%d:%x,", v, m.S[n].Versions[v])
		}
		sb.WriteString("}")
	}
	return sb.String()
}

// CanonFull additionally includes the next-version counters.
func (m *Model) CanonFull() string {
	var sb strings.Builder
	sb.WriteString(m.Canon())
	names := make([]string, 0, len(m.S))
	for n := range m.S {
		names = append(names, n)
	}
	sort.Strings(names)
	for _, n := range names {
		fmt.Fprintf(&sb, "|%q^%d", n, m.S[n].Latest)
	}
	return sb.String()
}

// ---- ACL layer ----

// GlobMatch is an independent glob matcher: '*' matches any run of bytes
// (including none, '/', newline), every other byte is literal, the whole name
// must be consumed. Dynamic programming over bytes, no regexp.
func GlobMatch(pat, name string) bool {
	// prev[j]: pat[:i] matches name[:j]
	prev := make([]bool, len(name)+1)
	cur := make([]bool, len(name)+1)
	prev[0] = true
	for i := 1; i <= len(pat); i++ {
		pc := pat[i-1]
		if pc == '*' {
			cur[0] = prev[0]
		} else {
			cur[0] = false
		}
		for j := 1; j <= len(name); j++ {
			if pc == '*' {
				cur[j] = prev[j] || cur[j-1]
			} else {
				cur[j] = prev[j-1] && name[j-1] == pc
			}
		}
		prev, cur = cur, prev
	}
	return prev[len(name)]
}

// Rule grants Actions on names matching any of Patterns.
type Rule struct {
	Actions  []string `json:"action"`
	Patterns []string `json:"secret"`
}

// Allowed reports whether a single rule lists action and has a matching pattern.
func Allowed(rules []Rule, action, name string) bool {
	for _, r := range rules {
		hasAct := false
		for _, a := range r.Actions {
			if a == action {
				hasAct = true
				break
			}
		}
		if !hasAct {
			continue
		}
		for _, p := range r.Patterns {
			if GlobMatch(p, name) {
				return true
			}
		}
	}
	return false
}
