// Package scan (engine E6) searches files for marker byte strings in plain and
// trivially encoded forms, and walks directories checking mode bits.
package scan

import (
	"bytes"
	"encoding/base64"
	"encoding/hex"
	"encoding/json"
	"fmt"
	"os"
	"path/filepath"
	"strconv"
	"strings"
)

// b64Alignments returns, for both alphabets, the base64 text that m produces
// at each of the three byte alignments inside a longer stream (only the
// characters fully determined by m).
func b64Alignments(m []byte) [][]byte {
	var out [][]byte
	for _, enc := range []*base64.Encoding{base64.RawStdEncoding, base64.RawURLEncoding} {
		for k := 0; k < 3; k++ {
			buf := append(make([]byte, k), m...)
			s := enc.EncodeToString(buf)
			// characters influenced by the k prefix bytes
			drop := []int{0, 2, 3}[k]
			s = s[drop:]
			if len(buf)%3 != 0 {
				s = s[:len(s)-1] // the last character also depends on what follows
			}
			if len(s) >= 12 {
				out = append(out, []byte(s))
			}
		}
	}
	return out
}

// Variants lists the encodings of m that are searched for.
func Variants(m []byte) map[string][]byte {
	v := map[string][]byte{"raw": m, "hex": []byte(hex.EncodeToString(m)), "HEX": []byte(strings.ToUpper(hex.EncodeToString(m)))}
	if js, err := json.Marshal(string(m)); err == nil && len(js) > 2 {
		v["json-escaped"] = js[1 : len(js)-1]
	}
	// as a Go-quoted string (%q in an error or log message), also when that message is itself put into JSON
	if q := strconv.Quote(string(m)); len(q) > 2 {
		v["go-quoted"] = []byte(q[1 : len(q)-1])
		if js, err := json.Marshal(q[1 : len(q)-1]); err == nil && len(js) > 2 {
			v["go-quoted/json-escaped"] = js[1 : len(js)-1]
		}
	}
	for i, b := range b64Alignments(m) {
		v[fmt.Sprintf("base64/%d", i)] = b
		// a second layer (e.g. a JSON document holding base64 values, itself stored as a base64 field)
		for j, bb := range b64Alignments(b) {
			v[fmt.Sprintf("base64/%d/base64/%d", i, j)] = bb
		}
	}
	for j, bb := range b64Alignments([]byte(hex.EncodeToString(m))) {
		v[fmt.Sprintf("hex/base64/%d", j)] = bb
	}
	return v
}

// Finder is a compiled set of markers.
type Finder struct {
	pats []pat
}

type pat struct {
	label, enc string
	b          []byte
}

func NewFinder() *Finder { return &Finder{} }

func (f *Finder) Add(label string, m []byte) {
	for enc, b := range Variants(m) {
		f.pats = append(f.pats, pat{label, enc, b})
	}
}

// Find reports the first marker found in data as "label (encoding)".
func (f *Finder) Find(data []byte) (string, bool) {
	for _, p := range f.pats {
		if bytes.Contains(data, p.b) {
			return fmt.Sprintf("%s (%s)", p.label, p.enc), true
		}
	}
	return "", false
}

// Files returns every regular file under dir with contents and mode.
type File struct {
	Path string
	Mode os.FileMode
	Data []byte
}

func Files(dir string) ([]File, error) {
	var out []File
	err := filepath.Walk(dir, func(p string, info os.FileInfo, err error) error {
		if err != nil {
			return nil // files may vanish (temporaries)
		}
		if info.Mode().IsRegular() {
			b, err := os.ReadFile(p)
			if err == nil {
				out = append(out, File{p, info.Mode(), b})
			}
		}
		return nil
	})
	return out, err
}
