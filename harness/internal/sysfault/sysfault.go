// Package sysfault (engine E5) runs a child process under ptrace, logs every
// file-system system call that touches a watched directory between two marker
// calls, in global order across all threads, and can inject one fault at the
// k-th such call: kill the process before or after it, fail it with an errno
// without executing it, or shorten a write (a real short write).
//
// Linux/amd64 only. All ptrace requests are issued from one locked OS thread.
package sysfault

import (
	"bytes"
	"fmt"
	"os"
	"os/exec"
	"runtime"
	"strings"
	"syscall"
	"time"
)

// wnothread (__WNOTHREAD) restricts wait4 to children of the calling thread, so that several
// tracers can run in one process, each on its own locked OS thread.
const wnothread = 0x20000000

const (
	MarkBegin = "/verif-mark-begin"
	MarkEnd   = "/verif-mark-end"
)

// FaultKind selects what happens at the chosen call.
type FaultKind string

const (
	None       FaultKind = ""
	KillBefore FaultKind = "kill-before" // the call is suppressed and the process killed
	KillAfter  FaultKind = "kill-after"  // the process is killed when the call has returned
	Errno      FaultKind = "errno"       // the call is not executed and returns -Errno
	Short      FaultKind = "short"       // a write is shortened to ShortLen bytes (really written), execution continues
	ShortKill  FaultKind = "short-kill"  // as Short, then the process is killed when the short write has returned
)

type Fault struct {
	Kind     FaultKind
	At       int // 1-based index among watched calls
	Errno    syscall.Errno
	ShortLen int
}

// Event is one watched system call.
type Event struct {
	Idx      int    `json:"idx"`
	Tid      int    `json:"tid"`
	Nr       int    `json:"nr"`
	Name     string `json:"name"`
	Path     string `json:"path,omitempty"`
	Path2    string `json:"path2,omitempty"`
	Fd       int    `json:"fd,omitempty"`
	Count    int    `json:"count,omitempty"`
	Flags    int    `json:"flags,omitempty"`
	Mode     int    `json:"mode,omitempty"` // the mode argument of a creating call (before the umask is applied)
	Ret      int64  `json:"ret"`
	Returned bool   `json:"returned"`
	Injected string `json:"injected,omitempty"`
}

func (e Event) String() string {
	s := fmt.Sprintf("#%d %s", e.Idx, e.Name)
	if e.Path != "" {
		s += " " + e.Path
	}
	if e.Path2 != "" {
		s += " -> " + e.Path2
	}
	if e.Count != 0 {
		s += fmt.Sprintf(" count=%d", e.Count)
	}
	if e.Flags != 0 {
		s += fmt.Sprintf(" flags=%#o", e.Flags)
	}
	if e.Returned {
		s += fmt.Sprintf(" = %d", e.Ret)
	}
	if e.Injected != "" {
		s += " [" + e.Injected + "]"
	}
	return s
}

type Result struct {
	Events     []Event
	Stdout     []byte
	Stderr     []byte
	Killed     bool // killed by the injected fault
	ExitCode   int
	SawBegin   bool
	SawEnd     bool
	FaultFired bool
}

var sysNames = map[int]string{
	0: "read", 1: "write", 2: "open", 3: "close", 4: "stat", 6: "lstat", 18: "pwrite64", 20: "writev", 40: "sendfile", 74: "fsync", 75: "fdatasync", 76: "truncate", 77: "ftruncate",
	82: "rename", 83: "mkdir", 85: "creat", 86: "link", 87: "unlink", 88: "symlink", 90: "chmod", 91: "fchmod", 92: "chown", 93: "fchown",
	257: "openat", 258: "mkdirat", 262: "newfstatat", 263: "unlinkat", 264: "renameat", 265: "linkat", 266: "symlinkat", 268: "fchmodat",
	285: "fallocate", 296: "pwritev", 316: "renameat2", 326: "copy_file_range", 328: "pwritev2", 332: "statx", 437: "openat2", 452: "fchmodat2",
}

type thread struct {
	inSyscall bool
	cur       *Event // watched call in progress
	curFault  bool
	skip      bool // call suppressed: fix up return value at exit
	skipRet   int64
	openPath  string // path of an open in progress (for fd tracking)
	markSeen  string
}

func peekString(pid int, addr uintptr) string {
	var out []byte
	buf := make([]byte, 64)
	for len(out) < 4096 {
		n, err := syscall.PtracePeekData(pid, addr+uintptr(len(out)), buf)
		if err != nil || n == 0 {
			break
		}
		if i := bytes.IndexByte(buf[:n], 0); i >= 0 {
			out = append(out, buf[:i]...)
			return string(out)
		}
		out = append(out, buf[:n]...)
	}
	return string(out)
}

// Run executes argv under ptrace with dir as the watched directory.
func Run(argv []string, env []string, dir string, fault Fault, timeout time.Duration) (*Result, error) {
	type ret struct {
		r   *Result
		err error
	}
	ch := make(chan ret, 1)
	go func() {
		runtime.LockOSThread()
		// the thread is deliberately never unlocked: it dies with the goroutine, taking any ptrace state with it
		r, err := run(argv, env, dir, fault, timeout)
		ch <- ret{r, err}
	}()
	x := <-ch
	return x.r, x.err
}

func run(argv []string, env []string, dir string, fault Fault, timeout time.Duration) (*Result, error) {
	res := &Result{}
	var stdout, stderr bytes.Buffer
	cmd := exec.Command(argv[0], argv[1:]...)
	cmd.Env = env
	cmd.Stdout, cmd.Stderr = &stdout, &stderr
	cmd.SysProcAttr = &syscall.SysProcAttr{Ptrace: true, Setpgid: true}
	if err := cmd.Start(); err != nil {
		return nil, err
	}
	pid := cmd.Process.Pid
	deadline := time.Now().Add(timeout)
	killAll := func() { syscall.Kill(-pid, syscall.SIGKILL); syscall.Kill(pid, syscall.SIGKILL) }
	defer func() {
		killAll()
		// reap whatever is left
		for {
			var ws syscall.WaitStatus
			p, err := syscall.Wait4(-1, &ws, syscall.WALL|syscall.WNOHANG|wnothread, nil)
			if err != nil || p <= 0 {
				break
			}
		}
		cmd.Wait()
		res.Stdout, res.Stderr = stdout.Bytes(), stderr.Bytes()
	}()
	var ws syscall.WaitStatus
	if _, err := syscall.Wait4(pid, &ws, syscall.WALL|wnothread, nil); err != nil {
		return nil, fmt.Errorf("initial wait: %w", err)
	}
	if !ws.Stopped() {
		return nil, fmt.Errorf("child did not stop at exec: %v", ws)
	}
	opts := syscall.PTRACE_O_TRACESYSGOOD | syscall.PTRACE_O_TRACECLONE | syscall.PTRACE_O_TRACEFORK | syscall.PTRACE_O_TRACEVFORK | 0x100000 /*EXITKILL*/
	if err := syscall.PtraceSetOptions(pid, opts); err != nil {
		return nil, fmt.Errorf("setoptions: %w", err)
	}
	threads := map[int]*thread{pid: {}}
	fds := map[int]string{} // fd -> path under dir (the fd table is shared by all threads)
	active := false         // between the marks
	watched := 0
	under := func(p string) bool { return p == dir || strings.HasPrefix(p, dir+"/") }
	if err := syscall.PtraceSyscall(pid, 0); err != nil {
		return nil, err
	}
	mainExited := false
	for !mainExited {
		if time.Now().After(deadline) {
			return res, fmt.Errorf("sysfault: child timed out")
		}
		wpid, err := syscall.Wait4(-1, &ws, syscall.WALL|wnothread, nil)
		if err != nil {
			if err == syscall.EINTR {
				continue
			}
			if err == syscall.ECHILD {
				break
			}
			return res, fmt.Errorf("wait4: %w", err)
		}
		th := threads[wpid]
		if th == nil {
			th = &thread{}
			threads[wpid] = th
		}
		switch {
		case ws.Exited() || ws.Signaled():
			delete(threads, wpid)
			if wpid == pid {
				mainExited = true
				if ws.Exited() {
					res.ExitCode = ws.ExitStatus()
				} else {
					res.ExitCode = -int(ws.Signal())
				}
			}
			continue
		case !ws.Stopped():
			continue
		}
		sig := ws.StopSignal()
		switch {
		case sig == syscall.SIGTRAP|0x80: // syscall stop
			var regs syscall.PtraceRegs
			if err := syscall.PtraceGetRegs(wpid, &regs); err != nil {
				// thread vanished (process being killed)
				continue
			}
			if !th.inSyscall {
				th.inSyscall = true
				onEntry(wpid, th, &regs, res, fds, dir, under, &active, &watched, fault)
				if th.cur != nil && th.curFault {
					switch fault.Kind {
					case KillBefore:
						regs.Orig_rax = ^uint64(0)
						syscall.PtraceSetRegs(wpid, &regs)
						th.cur.Injected = "suppressed, process killed before the call"
						res.Killed, res.FaultFired = true, true
						killAll()
					case Errno:
						regs.Orig_rax = ^uint64(0)
						syscall.PtraceSetRegs(wpid, &regs)
						th.skip, th.skipRet = true, -int64(fault.Errno)
						th.cur.Injected = "not executed, returns " + fault.Errno.Error()
						res.FaultFired = true
					case Short, ShortKill:
						if th.cur.Name == "write" || th.cur.Name == "pwrite64" {
							n := uint64(fault.ShortLen)
							if n < regs.Rdx {
								regs.Rdx = n
								syscall.PtraceSetRegs(wpid, &regs)
								th.cur.Injected = fmt.Sprintf("count shortened to %d", n)
								res.FaultFired = true
							}
						}
					}
				}
			} else {
				th.inSyscall = false
				if th.skip {
					regs.Rax = uint64(th.skipRet)
					syscall.PtraceSetRegs(wpid, &regs)
					th.skip = false
				}
				onExit(wpid, th, &regs, fds, under)
				if th.cur != nil {
					fired := th.curFault
					th.cur, th.curFault = nil, false
					if fired && (fault.Kind == KillAfter || (fault.Kind == ShortKill && res.FaultFired)) {
						res.Killed, res.FaultFired = true, true
						killAll()
					}
				}
			}
			syscall.PtraceSyscall(wpid, 0)
		case sig == syscall.SIGTRAP && ws.TrapCause() > 0: // clone/fork/vfork event
			syscall.PtraceSyscall(wpid, 0)
		case sig == syscall.SIGSTOP && !th.seenFirstStop():
			// initial stop of a new thread
			syscall.PtraceSyscall(wpid, 0)
		default:
			// signal-delivery stop: forward the signal (the Go runtime relies on SIGURG etc.)
			syscall.PtraceSyscall(wpid, int(sig))
		}
	}
	return res, nil
}

// seenFirstStop reports (and records) whether this thread's attach SIGSTOP was already consumed.
func (t *thread) seenFirstStop() bool {
	if t.markSeen == "" {
		t.markSeen = "stopped"
		return false
	}
	return true
}

func onEntry(tid int, th *thread, regs *syscall.PtraceRegs, res *Result, fds map[int]string, dir string, under func(string) bool, active *bool, watched *int, fault Fault) {
	nr := int(regs.Orig_rax)
	name, known := sysNames[nr]
	if !known {
		return
	}
	ev := Event{Tid: tid, Nr: nr, Name: name}
	relevant := false
	switch name {
	case "openat", "openat2":
		ev.Path = peekString(tid, uintptr(regs.Rsi))
		ev.Flags = int(regs.Rdx)
		if name == "openat" {
			ev.Mode = int(regs.R10)
		}
		th.openPath = ev.Path
		relevant = under(ev.Path)
	case "open", "creat":
		ev.Path = peekString(tid, uintptr(regs.Rdi))
		ev.Flags = int(regs.Rsi)
		ev.Mode = int(regs.Rdx)
		if name == "creat" {
			ev.Flags, ev.Mode = syscall.O_CREAT|syscall.O_WRONLY|syscall.O_TRUNC, int(regs.Rsi)
		}
		th.openPath = ev.Path
		relevant = under(ev.Path)
	case "stat", "lstat":
		ev.Path = peekString(tid, uintptr(regs.Rdi))
		relevant = under(ev.Path)
	case "newfstatat", "statx":
		ev.Path = peekString(tid, uintptr(regs.Rsi))
		relevant = under(ev.Path)
	case "read":
		return
	case "write", "pwrite64", "writev", "pwritev", "pwritev2", "fsync", "fdatasync", "ftruncate", "fchmod", "fchown", "close", "fallocate", "sendfile", "copy_file_range":
		ev.Fd = int(regs.Rdi)
		if name == "sendfile" || name == "copy_file_range" {
			if name == "copy_file_range" {
				ev.Fd = int(regs.Rdx)
			}
		}
		p, ok := fds[ev.Fd]
		if !ok {
			return
		}
		ev.Path = p
		relevant = true
		if name == "write" || name == "pwrite64" {
			ev.Count = int(regs.Rdx)
		}
		if name == "fchmod" {
			ev.Flags = int(regs.Rsi)
		}
		if name == "ftruncate" {
			ev.Count = int(regs.Rsi)
		}
	case "rename", "link", "symlink":
		ev.Path = peekString(tid, uintptr(regs.Rdi))
		ev.Path2 = peekString(tid, uintptr(regs.Rsi))
		relevant = under(ev.Path) || under(ev.Path2)
	case "renameat", "renameat2", "linkat":
		ev.Path = peekString(tid, uintptr(regs.Rsi))
		ev.Path2 = peekString(tid, uintptr(regs.R10))
		relevant = under(ev.Path) || under(ev.Path2)
	case "symlinkat":
		ev.Path = peekString(tid, uintptr(regs.Rdi))
		ev.Path2 = peekString(tid, uintptr(regs.Rdx))
		relevant = under(ev.Path2)
	case "unlink", "truncate", "chmod", "chown", "mkdir":
		ev.Path = peekString(tid, uintptr(regs.Rdi))
		relevant = under(ev.Path)
		if name == "chmod" || name == "mkdir" {
			ev.Flags = int(regs.Rsi)
		}
	case "unlinkat", "fchmodat", "fchmodat2", "mkdirat":
		ev.Path = peekString(tid, uintptr(regs.Rsi))
		relevant = under(ev.Path)
		if name != "unlinkat" {
			ev.Flags = int(regs.Rdx)
		}
	}
	// marks
	if ev.Path == MarkBegin {
		*active, res.SawBegin = true, true
		return
	}
	if ev.Path == MarkEnd {
		*active, res.SawEnd = false, true
		return
	}
	if !relevant || !*active {
		return
	}
	*watched++
	ev.Idx = *watched
	res.Events = append(res.Events, ev)
	th.cur = &res.Events[len(res.Events)-1]
	th.curFault = fault.Kind != None && fault.At == ev.Idx
}

func onExit(tid int, th *thread, regs *syscall.PtraceRegs, fds map[int]string, under func(string) bool) {
	nr := int(regs.Orig_rax)
	ret := int64(regs.Rax)
	if th.cur != nil {
		th.cur.Ret, th.cur.Returned = ret, true
	}
	name := sysNames[nr]
	// a suppressed call has orig_rax = -1: use the recorded event's name instead
	if th.cur != nil {
		name = th.cur.Name
	}
	switch name {
	case "openat", "open", "creat", "openat2":
		if ret >= 0 && th.openPath != "" && under(th.openPath) && !(th.cur != nil && th.cur.Injected != "" && strings.HasPrefix(th.cur.Injected, "not executed")) {
			fds[int(ret)] = th.openPath
		}
		th.openPath = ""
	case "close":
		if th.cur != nil {
			if ret == 0 {
				delete(fds, th.cur.Fd)
			}
		} else if ret == 0 {
			delete(fds, int(regs.Rdi))
		}
	}
}

// NotSupported reports whether ptrace-based tracing can work here.
func Supported() error {
	if runtime.GOOS != "linux" || runtime.GOARCH != "amd64" {
		return fmt.Errorf("sysfault needs linux/amd64")
	}
	if _, err := os.Stat("/proc/self/status"); err != nil {
		return err
	}
	return nil
}
