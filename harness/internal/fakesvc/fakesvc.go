// Package fakesvc is a scripted in-memory secrets service implementing
// setec.StoreClient, with a request log stamped from the (virtual) clock,
// per-request behaviours and an in-flight gauge. It always honours the
// request context.
package fakesvc

import (
	"context"
	"errors"
	"fmt"
	"sync"
	"time"

	"github.com/tailscale/setec/types/api"
)

// Behaviour says what happens to one request.
type Behaviour struct {
	Delay time.Duration // wait this long (or until ctx ends) before answering
	Hold  chan struct{} // if non-nil, additionally wait until closed (or ctx ends)
	// Snapshot: the answer is what the service held when the request ARRIVED (a reply that is slow on its way
	// back) instead of what it holds when the wait is over (a request that is slow on its way in).
	Snapshot bool
	Fail     error // if non-nil, answer with this error
	// Plain makes an immediate failure (no Delay/Hold) report Fail even when the request context
	// has already ended, the way a client does that fails before it ever looks at the context
	// ("connection refused"). The error then does not wrap the context's error.
	Plain bool
}

var ErrInjected = errors.New("injected service failure")

// Req is one logged request.
type Req struct {
	Seq     int
	Name    string
	Cond    bool   // GetIfChanged
	Old     uint32 // version presented
	Start   time.Time
	End     time.Time
	Outcome string // "value", "notchanged", "notfound", "fail", "ctx"
	Version uint32 // version served
	Serial  uint64 // serve serial of the value served (0 if none)
	Done    bool
}

type Val struct {
	Version uint32
	Bytes   []byte
	Serial  uint64 // global install serial (order in which Set was called)
}

type Service struct {
	mu       sync.Mutex
	active   map[string]Val
	history  map[string][]HistEntry // every (time, value) ever active per name
	log      []*Req
	inflight map[string]int
	maxIn    map[string]int
	serial   uint64
	served   map[string]map[uint64]Val // name -> serial -> value actually returned to a caller

	// Behave, if set, decides the behaviour of each request. It is called
	// with the service lock held; it must not call back into the service.
	Behave func(r *Req) Behaviour
	// OnServe, if set, is called (lock held) when a value is about to be returned.
	OnServe func(r *Req, v Val)
}

type HistEntry struct {
	At  time.Time
	Val Val
	Del bool
}

func New() *Service {
	return &Service{active: map[string]Val{}, history: map[string][]HistEntry{}, inflight: map[string]int{},
		maxIn: map[string]int{}, served: map[string]map[uint64]Val{}}
}

// Set makes (version, bytes) the active value of name and returns its serial.
func (s *Service) Set(name string, version uint32, bytes []byte) uint64 {
	s.mu.Lock()
	defer s.mu.Unlock()
	s.serial++
	v := Val{Version: version, Bytes: append([]byte(nil), bytes...), Serial: s.serial}
	s.active[name] = v
	s.history[name] = append(s.history[name], HistEntry{At: time.Now(), Val: v})
	return v.Serial
}

func (s *Service) Remove(name string) {
	s.mu.Lock()
	defer s.mu.Unlock()
	delete(s.active, name)
	s.history[name] = append(s.history[name], HistEntry{At: time.Now(), Del: true})
}

func (s *Service) Active(name string) (Val, bool) {
	s.mu.Lock()
	defer s.mu.Unlock()
	v, ok := s.active[name]
	return v, ok
}

// History returns every value that was ever active for name, with the time it became active.
func (s *Service) History(name string) []HistEntry {
	s.mu.Lock()
	defer s.mu.Unlock()
	return append([]HistEntry(nil), s.history[name]...)
}

// Log returns a snapshot of the request log.
func (s *Service) Log() []Req {
	s.mu.Lock()
	defer s.mu.Unlock()
	out := make([]Req, len(s.log))
	for i, r := range s.log {
		out[i] = *r
	}
	return out
}

func (s *Service) NumRequests() int {
	s.mu.Lock()
	defer s.mu.Unlock()
	return len(s.log)
}

// MaxInFlight reports the largest number of simultaneous requests seen for name.
func (s *Service) MaxInFlight(name string) int {
	s.mu.Lock()
	defer s.mu.Unlock()
	return s.maxIn[name]
}

// WasServed reports whether bytes were ever returned to a caller (or are a value ever set) for name.
func (s *Service) EverActive(name string, version uint32, bytes string) bool {
	s.mu.Lock()
	defer s.mu.Unlock()
	for _, h := range s.history[name] {
		if !h.Del && h.Val.Version == version && string(h.Val.Bytes) == bytes {
			return true
		}
	}
	return false
}

func (s *Service) do(ctx context.Context, name string, cond bool, old uint32) (*api.SecretValue, error) {
	s.mu.Lock()
	r := &Req{Seq: len(s.log), Name: name, Cond: cond, Old: old, Start: time.Now()}
	s.log = append(s.log, r)
	s.inflight[name]++
	if s.inflight[name] > s.maxIn[name] {
		s.maxIn[name] = s.inflight[name]
	}
	var b Behaviour
	if s.Behave != nil {
		b = s.Behave(r)
	}
	snap, snapOK := s.active[name]
	s.mu.Unlock()

	var ctxErr error
	if b.Delay > 0 {
		tm := time.NewTimer(b.Delay)
		select {
		case <-tm.C:
		case <-ctx.Done():
			tm.Stop()
			ctxErr = ctx.Err()
		}
	}
	if ctxErr == nil && b.Hold != nil {
		select {
		case <-b.Hold:
		case <-ctx.Done():
			ctxErr = ctx.Err()
		}
	}
	if ctxErr == nil && ctx.Err() != nil && !(b.Plain && b.Fail != nil) {
		ctxErr = ctx.Err()
	}

	s.mu.Lock()
	defer s.mu.Unlock()
	s.inflight[name]--
	r.End = time.Now()
	r.Done = true
	switch {
	case ctxErr != nil:
		r.Outcome = "ctx"
		return nil, fmt.Errorf("fakesvc %q: %w", name, ctxErr)
	case b.Fail != nil:
		r.Outcome = "fail"
		return nil, b.Fail
	}
	v, ok := s.active[name]
	if b.Snapshot {
		v, ok = snap, snapOK
	}
	if !ok {
		r.Outcome = "notfound"
		return nil, api.ErrNotFound
	}
	if cond && old != 0 && v.Version == old {
		r.Outcome = "notchanged"
		return nil, api.ErrValueNotChanged
	}
	r.Outcome = "value"
	r.Version = v.Version
	r.Serial = v.Serial
	if s.served[name] == nil {
		s.served[name] = map[uint64]Val{}
	}
	s.served[name][v.Serial] = v
	if s.OnServe != nil {
		s.OnServe(r, v)
	}
	return &api.SecretValue{Value: append([]byte(nil), v.Bytes...), Version: api.SecretVersion(v.Version)}, nil
}

func (s *Service) Get(ctx context.Context, name string) (*api.SecretValue, error) {
	return s.do(ctx, name, false, 0)
}

func (s *Service) GetIfChanged(ctx context.Context, name string, old api.SecretVersion) (*api.SecretValue, error) {
	return s.do(ctx, name, true, uint32(old))
}

// MonCache is a monitor cache: records every payload written, scriptable failures.
type MonCache struct {
	mu       sync.Mutex
	Initial  []byte
	ReadErr  error
	WriteErr func(n int) error // n = index of this write (0-based); nil result = success
	Writes   [][]byte
	Stamps   []time.Time
	failed   int
	OnWrite  func(n int, data []byte) // called outside the lock, before the write is recorded (to park a write)
}

func (c *MonCache) Read() ([]byte, error) {
	c.mu.Lock()
	defer c.mu.Unlock()
	if c.ReadErr != nil {
		return nil, c.ReadErr
	}
	if n := len(c.Writes); n > 0 {
		return append([]byte(nil), c.Writes[n-1]...), nil
	}
	return append([]byte(nil), c.Initial...), nil
}

func (c *MonCache) Write(data []byte) error {
	c.mu.Lock()
	n := len(c.Writes)
	on := c.OnWrite
	c.mu.Unlock()
	if on != nil {
		on(n, data)
	}
	c.mu.Lock()
	defer c.mu.Unlock()
	if c.WriteErr != nil {
		if err := c.WriteErr(len(c.Writes) + c.failed); err != nil {
			c.failed++
			return err
		}
	}
	c.Writes = append(c.Writes, append([]byte(nil), data...))
	c.Stamps = append(c.Stamps, time.Now())
	return nil
}

func (c *MonCache) Last() []byte {
	c.mu.Lock()
	defer c.mu.Unlock()
	if n := len(c.Writes); n > 0 {
		return c.Writes[n-1]
	}
	return nil
}

// SetOnWrite installs (or removes) the OnWrite hook while the cache is in use.
func (c *MonCache) SetOnWrite(f func(n int, data []byte)) {
	c.mu.Lock()
	c.OnWrite = f
	c.mu.Unlock()
}

// NumFailed returns how many writes were refused by WriteErr.
func (c *MonCache) NumFailed() int {
	c.mu.Lock()
	defer c.mu.Unlock()
	return c.failed
}

func (c *MonCache) NumWrites() int {
	c.mu.Lock()
	defer c.mu.Unlock()
	return len(c.Writes)
}
