// C10 — store construction returns only with a value for every declared
// secret. Virtual-time trace checker (testing/synctest): NewStore runs
// against a scripted service whose request log carries virtual timestamps;
// predicates over the log and over the moment/result of the return decide.
package c10

import (
	"bytes"
	"context"
	"encoding/json"
	"errors"
	"fmt"
	"io"
	"math/rand/v2"
	"net/http"
	"os"
	"path"
	"path/filepath"
	"reflect"
	"sort"
	"strings"
	"sync"
	"sync/atomic"
	"testing"
	"testing/synctest"
	"time"
	"verif/harness/internal/httpdrv"
	"verif/harness/internal/realdb"
	"verif/harness/internal/refmodel"

	"github.com/tailscale/setec/client/setec"
	"github.com/tailscale/setec/types/api"

	"verif/harness/internal/evid"
	"verif/harness/internal/fakesvc"
)

var pool = []string{"alpha", "beta", "dir/gamma", "delta", "eps", "dir/zeta"}

type script struct {
	Mode string        `json:"mode"` // ok, failN, failUntil, hangUntil, slow, never, timeoutN
	N    int           `json:"n,omitempty"`
	T    time.Duration `json:"t,omitempty"`
}

type tcase struct {
	Idx       int               `json:"case"`
	Secrets   []string          `json:"secrets"`
	StructTag []string          `json:"struct_fields"` // names declared via a struct (prefix applied)
	Prefix    string            `json:"prefix"`
	Cache     string            `json:"cache_kind"`
	CacheDoc  string            `json:"cache_doc"`
	Scripts   map[string]script `json:"scripts"`
	Ctx       string            `json:"ctx"` // background, deadline, cancel
	CtxAt     time.Duration     `json:"ctx_at,omitempty"`
	Client    string            `json:"client"` // scripted, file
	FileHas   []string          `json:"file_has,omitempty"`
	FileHalf  map[string]string `json:"file_half,omitempty"` // names whose file entry records no value (raw JSON of the entry)
	Misconfig string            `json:"misconfig,omitempty"`
	Plain     bool              `json:"plain_errors"` // the client's failures do not wrap the context error
	ExpiryAge time.Duration     `json:"expiry_age,omitempty"`
	Stamp     string            `json:"cache_last_access"`
}

type cacheEntry struct {
	Secret     *api.SecretValue `json:"secret"`
	LastAccess string           `json:"lastAccess,omitempty"`
}

// (the secret "eps" is EMPTY, at the service as in caches: an empty value is a value)
func svcValue(name string) []byte {
	if name == "eps" {
		return []byte{}
	}
	return []byte("svc-value-of-" + name)
}
func cacheValue(name string) []byte {
	if name == "eps" {
		return []byte{}
	}
	return []byte("cached-value-of-" + name)
}

func gen(rng *rand.Rand, idx int) tcase {
	c := tcase{Idx: idx, Scripts: map[string]script{}, Client: "scripted", Ctx: "background", Plain: rng.IntN(2) == 0,
		ExpiryAge: []time.Duration{0, 0, time.Hour, 30 * 24 * time.Hour}[rng.IntN(4)], Stamp: []string{"0", "1000", "1700000000", "946684800"}[rng.IntN(4)]}
	if rng.IntN(25) == 0 {
		c.Misconfig = []string{"nil-client", "no-secrets", "empty-name", "struct-no-tags", "struct-empty-tag", "non-struct"}[rng.IntN(6)]
	}
	n := 1 + rng.IntN(6)
	perm := rng.Perm(len(pool))
	var decl []string
	for i := 0; i < n; i++ {
		decl = append(decl, pool[perm[i]])
	}
	// split between Secrets and a struct
	for _, d := range decl {
		switch rng.IntN(4) {
		case 0:
			c.StructTag = append(c.StructTag, d)
		case 1:
			c.StructTag = append(c.StructTag, d)
			c.Secrets = append(c.Secrets, d)
		default:
			c.Secrets = append(c.Secrets, d)
		}
	}
	for i, k := 0, rng.IntN(3); i < k && len(c.Secrets) > 0; i++ { // duplicates
		c.Secrets = append(c.Secrets, c.Secrets[rng.IntN(len(c.Secrets))])
	}
	rng.Shuffle(len(c.Secrets), func(i, j int) { c.Secrets[i], c.Secrets[j] = c.Secrets[j], c.Secrets[i] })
	// cache
	kinds := []string{"none", "none", "empty", "partial", "complete", "complete", "stale-complete", "invalid-json", "null-entry", "no-secret-field", "empty-key", "read-error", "wrong-type", "version-string", "value-number", "entry-is-array", "null-undeclared"}
	c.Cache = kinds[rng.IntN(len(kinds))]
	doc := map[string]*cacheEntry{}
	for _, d := range decl {
		if c.Cache == "partial" && rng.IntN(2) == 0 {
			continue
		}
		ver := api.SecretVersion(3)
		if c.Cache == "stale-complete" {
			ver = 1
		}
		doc[d] = &cacheEntry{Secret: &api.SecretValue{Value: cacheValue(d), Version: ver}, LastAccess: c.Stamp}
	}
	if rng.IntN(3) == 0 { // an undeclared extra entry
		doc["extra/undeclared"] = &cacheEntry{Secret: &api.SecretValue{Value: []byte("x"), Version: 9}, LastAccess: "0"}
	}
	switch c.Cache {
	case "none", "read-error":
	case "empty":
		c.CacheDoc = ""
	case "invalid-json":
		b, _ := json.Marshal(doc)
		c.CacheDoc = string(b[:len(b)/2])
	case "null-undeclared":
		// every declared secret has a good entry; an entry under a name nobody declares is null
		doc["ghost/undeclared"] = nil
		b, _ := json.Marshal(doc)
		c.CacheDoc = string(b)
	case "null-entry":
		doc[decl[0]] = nil
		b, _ := json.Marshal(doc)
		c.CacheDoc = string(b)
	case "no-secret-field":
		doc[decl[0]] = &cacheEntry{LastAccess: "5"}
		b, _ := json.Marshal(doc)
		c.CacheDoc = string(b)
	case "empty-key":
		doc[""] = &cacheEntry{Secret: &api.SecretValue{Value: []byte("x"), Version: 1}}
		b, _ := json.Marshal(doc)
		c.CacheDoc = string(b)
	case "wrong-type":
		c.CacheDoc = `["not","an","object"]`
	case "version-string", "value-number", "entry-is-array":
		// syntactically valid JSON whose LAST entry (in key order) has a wrongly typed field, so a
		// decoder that fills the map as it goes has already accepted the well-formed entries
		doc["zzz/last"] = &cacheEntry{Secret: &api.SecretValue{Value: []byte("x"), Version: 1}}
		b, _ := json.Marshal(doc)
		bad := map[string]string{"version-string": `{"secret":{"Value":"eA==","Version":"1"}}`, "value-number": `{"secret":{"Value":12345,"Version":1}}`, "entry-is-array": `[1,2]`}[c.Cache]
		c.CacheDoc = strings.Replace(string(b), `"zzz/last":{"secret":{"Value":"eA==","Version":1}}`, `"zzz/last":`+bad, 1)
		if !strings.Contains(c.CacheDoc, bad) {
			panic("cache doc construction")
		}
	default:
		b, _ := json.Marshal(doc)
		c.CacheDoc = string(b)
	}
	// scripts
	for _, d := range decl {
		var s script
		switch rng.IntN(10) {
		case 9:
			s = script{Mode: "timeoutN", N: 1 + rng.IntN(6)} // the client's own per-request timeout fires k times
		case 0, 1, 2:
			s = script{Mode: "ok"}
		case 3, 4:
			s = script{Mode: "failN", N: 1 + rng.IntN(14)}
		case 5:
			s = script{Mode: "failUntil", T: time.Duration(1+rng.IntN(90000)) * time.Millisecond}
		case 6:
			s = script{Mode: "hangUntil", T: time.Duration(1+rng.IntN(60000)) * time.Millisecond}
		case 7:
			s = script{Mode: "slow", T: time.Duration(1+rng.IntN(3000)) * time.Millisecond}
		case 8:
			s = script{Mode: "never"}
		}
		c.Scripts[d] = s
	}
	switch rng.IntN(5) {
	case 0:
		c.Ctx = "deadline"
		c.CtxAt = time.Duration(rng.IntN(120000))*time.Millisecond + 500*time.Microsecond
	case 1:
		c.Ctx = "cancel"
		c.CtxAt = time.Duration(rng.IntN(120000))*time.Millisecond + 500*time.Microsecond
	}
	hasNever := false
	for _, s := range c.Scripts {
		if s.Mode == "never" {
			hasNever = true
		}
	}
	if hasNever && c.Ctx == "background" {
		c.Ctx = "deadline"
		c.CtxAt = time.Duration(1000+rng.IntN(100000))*time.Millisecond + 500*time.Microsecond
	}
	if rng.IntN(8) == 0 {
		c.Client = "file"
		if rng.IntN(3) == 0 {
			// the caller's context has ended before NewStore is even called (a start-up deadline used up by
			// earlier steps): a file-backed client answers all the same, at once
			c.Ctx, c.CtxAt = "deadline", 0
		}
		for _, d := range pool {
			if rng.IntN(4) != 0 {
				c.FileHas = append(c.FileHas, d)
			} else if rng.IntN(2) == 0 {
				if c.FileHalf == nil {
					c.FileHalf = map[string]string{}
				}
				c.FileHalf[d] = []string{`{"secret":{"Version":4}}`, `{"secret":{"Version":4,"Value":""}}`, `{"secret":{"Version":4,"TextValue":""}}`,
					`{"secret":null}`, `{}`, `{"secret":{}}`, `{"lastAccess":"12","secret":{"Version":1}}`}[rng.IntN(7)]
			}
		}
	}
	return c
}

type idleTicker struct{ ch chan time.Time }

func (idleTicker) Stop()                    {}
func (i idleTicker) Chan() <-chan time.Time { return i.ch }
func (idleTicker) Done()                    {}

type outcome struct {
	st       *setec.Store
	err      error
	at       time.Duration
	panicked any
}

func (c tcase) declared() []string {
	m := map[string]bool{}
	for _, s := range c.Secrets {
		m[s] = true
	}
	for _, s := range c.StructTag {
		m[s] = true
	}
	var out []string
	for s := range m {
		out = append(out, s)
	}
	sort.Strings(out)
	return out
}

func TestC10(t *testing.T) {
	r := evid.Start("C10", "exploration")
	defer r.Finish(t)
	r.Assume("time is virtual (testing/synctest); the scripted service honours the request context",
		"'a few seconds' between retry rounds is taken as <= 5 s; 'promptly' after the context ends as <= 100 ms of virtual time",
		"'keeps retrying until all succeed' is checked as bounded progress: once every script has turned ok, NewStore returns within 5 s per remaining retry round")
	tmp := evid.TempDir(t)
	n := r.N(20000, 400000)
	stop := r.SpinWatchdog(&progress, "initializeActive", "newstore-spins", "NewStore spins on the CPU instead of returning or pausing (its retry loop never blocks, so virtual time cannot advance)")
	for i := 0; i < n; i++ {
		if r.Skip(i) {
			continue
		}
		c := gen(r.Rand(uint64(i)), i)
		progress.Add(1)
		lastCase.Store(&c)
		runCase(t, r, c, tmp)
	}
	stop()
	if r.Only < 0 {
		realClientOddReplies(t, r, tmp)
		realClientRetryAfter(t, r)
		embeddedDeclarations(t, r, tmp)
		structsOfOneType(t, r)
		bigFileCache(t, r, tmp)
		uncleanStructPrefixes(t, r)
	}
	r.Require("struct_values_of_one_type", "embedded_struct_declarations", "cases_with_a_poll_ticker_of_the_callers", "retry_after_cases", "undeclared_null_entry_cases", "big_file_cache_restarts", "struct_prefix_spellings", "real_client_odd_replies", "returned_nil", "returned_error_ctx", "complete_cache_no_request", "retry_rounds", "fileclient_missing", "fileclient_entries_without_value", "misconfig", "cache_ignored_as_invalid")
	r.Rule("seeded cases = declared names (1-6 of a 6-name pool, with duplicates, via Secrets and/or a run-time generated tagged struct) x cache content (none, empty, partial, complete, stale, invalid JSON, null entry, entry without secret, empty key, wrong JSON type, one entry with a wrongly typed field, read error) x per-secret service script (ok, fail k times, fail k times with the client's own timeout error, fail until T, hang until T, slow, never; failures with and without the context error wrapped) x expiry age {0, 1h, 30d} with old/zero/future cache stamps x context (background, deadline, cancel at T) x client kind (scripted / real FileClient). Distinct = (cache kind, set of script modes, context kind, client kind, outcome)")
}

var progress atomic.Int64
var lastCase atomic.Pointer[tcase]

func runCase(t *testing.T, r *evid.Run, c tcase, tmp string) {
	r.Eval(1)
	fail := func(key, msg string, extra map[string]any) {
		d := map[string]any{"case": c}
		for k, v := range extra {
			d[k] = v
		}
		r.Violation(key, c.Idx, fmt.Sprintf("case %d: %s", c.Idx, msg), d)
	}
	decl := c.declared()
	// a file for the FileClient, prepared outside the bubble
	var fileClient *setec.FileClient
	if c.Client == "file" {
		doc := map[string]*cacheEntry{}
		for _, n := range c.FileHas {
			doc[n] = &cacheEntry{Secret: &api.SecretValue{Value: svcValue(n), Version: 3}}
		}
		raw := map[string]json.RawMessage{}
		for n, e := range doc {
			raw[n], _ = json.Marshal(e)
		}
		for n, e := range c.FileHalf {
			raw[n] = json.RawMessage(e) // an entry that records no value is no value
			r.Count("fileclient_entries_without_value", 1)
		}
		b, _ := json.Marshal(raw)
		p := filepath.Join(tmp, fmt.Sprintf("fc%d.json", c.Idx))
		os.WriteFile(p, b, 0o600)
		fc, err := setec.NewFileClient(p)
		os.Remove(p)
		if err != nil {
			fail("fileclient-rejects-document", "NewFileClient failed on a well-formed document: "+err.Error(), nil)
			return
		}
		fileClient = fc
	}
	synctest.Test(t, func(t *testing.T) {
		start := time.Now()
		svc := fakesvc.New()
		for _, n := range pool {
			svc.Set(n, 3, svcValue(n))
		}
		attempts := map[string]int{}
		svc.Behave = func(q *fakesvc.Req) fakesvc.Behaviour {
			s := c.Scripts[q.Name]
			attempts[q.Name]++
			now := time.Since(start)
			switch s.Mode {
			case "failN":
				if attempts[q.Name] <= s.N {
					return fakesvc.Behaviour{Fail: failKind(c.Idx, q.Name), Plain: c.Plain}
				}
			case "timeoutN":
				if attempts[q.Name] <= s.N {
					return fakesvc.Behaviour{Fail: fmt.Errorf("request timed out inside the client: %w", context.DeadlineExceeded), Plain: c.Plain}
				}
			case "failUntil":
				if now < s.T {
					return fakesvc.Behaviour{Fail: failKind(c.Idx, q.Name), Plain: c.Plain}
				}
			case "hangUntil":
				if now < s.T {
					return fakesvc.Behaviour{Delay: s.T - now}
				}
			case "slow":
				return fakesvc.Behaviour{Delay: s.T}
			case "never":
				return fakesvc.Behaviour{Fail: failKind(c.Idx, q.Name), Plain: c.Plain}
			}
			return fakesvc.Behaviour{}
		}
		cfg := setec.StoreConfig{ExpiryAge: c.ExpiryAge, Client: svc, Secrets: append([]string(nil), c.Secrets...), PollInterval: -1, Logf: func(string, ...any) {}}
		if fileClient != nil {
			cfg.Client = fileClient
		}
		if c.Idx%3 == 1 {
			// the program brings a poll ticker of its own (here: one that never fires during construction);
			// construction does not depend on it
			cfg.PollInterval = 0
			cfg.PollTicker = idleTicker{ch: make(chan time.Time)}
			r.Count("cases_with_a_poll_ticker_of_the_callers", 1)
		}
		var cache *fakesvc.MonCache
		if c.Cache != "none" {
			cache = &fakesvc.MonCache{Initial: []byte(c.CacheDoc)}
			if c.Cache == "read-error" {
				cache.ReadErr = errors.New("injected cache read error")
			}
			cfg.Cache = cache
		}
		// struct declared at run time
		var structPtr reflect.Value
		if len(c.StructTag) > 0 {
			var fields []reflect.StructField
			for i, n := range c.StructTag {
				tag := n
				if c.Prefix != "" {
					tag = strings.TrimPrefix(n, c.Prefix+"/")
				}
				fields = append(fields, reflect.StructField{Name: fmt.Sprintf("F%d", i), Type: reflect.TypeOf(""), Tag: reflect.StructTag(fmt.Sprintf(`setec:"%s"`, tag))})
			}
			structPtr = reflect.New(reflect.StructOf(fields))
			cfg.Structs = []setec.Struct{{Value: structPtr.Interface(), Prefix: c.Prefix}}
		}
		switch c.Misconfig {
		case "nil-client":
			cfg.Client = nil
		case "no-secrets":
			cfg.Secrets, cfg.Structs = nil, nil
		case "empty-name":
			cfg.Secrets = append(cfg.Secrets, "")
		case "struct-no-tags":
			cfg.Structs = append(cfg.Structs, setec.Struct{Value: &struct{ A string }{}})
		case "struct-empty-tag":
			cfg.Structs = append(cfg.Structs, setec.Struct{Value: &struct {
				A string `setec:""`
			}{}})
		case "non-struct":
			x := 5
			cfg.Structs = append(cfg.Structs, setec.Struct{Value: &x})
		}
		base, cancelAll := context.WithCancel(context.Background())
		defer cancelAll()
		ctx := base
		ctxEnd := time.Duration(-1)
		switch c.Ctx {
		case "deadline":
			var cf context.CancelFunc
			ctx, cf = context.WithTimeout(base, c.CtxAt)
			defer cf()
			ctxEnd = c.CtxAt
		case "cancel":
			var cf context.CancelFunc
			ctx, cf = context.WithCancel(base)
			ctxEnd = c.CtxAt
			go func() {
				select {
				case <-time.After(c.CtxAt):
				case <-base.Done():
				}
				cf()
			}()
		}
		resCh := make(chan outcome, 1)
		go func() {
			var o outcome
			defer func() {
				if p := recover(); p != nil {
					o.panicked = p
				}
				o.at = time.Since(start)
				resCh <- o
			}()
			o.st, o.err = setec.NewStore(ctx, cfg)
		}()
		var o outcome
		select {
		case o = <-resCh:
		case <-time.After(6 * time.Hour):
			fail("newstore-never-returns", "NewStore had not returned after 6 virtual hours", map[string]any{"log": svc.Log()})
			cancelAll()
			select {
			case o = <-resCh:
			case <-time.After(time.Hour):
				t.Fatalf("case %d: NewStore does not return even after its context was cancelled", c.Idx)
			}
			return
		}
		log := svc.Log()
		scriptModes := map[string]bool{}
		for _, d := range decl {
			scriptModes[c.Scripts[d].Mode] = true
		}
		var modes []string
		for m := range scriptModes {
			modes = append(modes, m)
		}
		sort.Strings(modes)
		outc := "nil"
		if o.err != nil {
			outc = "error"
		}
		r.Distinct(fmt.Sprintf("cache=%s ctx=%s client=%s misconfig=%s out=%s", c.Cache, c.Ctx, c.Client, c.Misconfig, outc))
		r.Distinct(fmt.Sprintf("scripts=%s out=%s", strings.Join(modes, "+"), outc))
		if c.Idx < 3 {
			r.Sample(map[string]any{"case": c, "returned_at": o.at.String(), "error": fmt.Sprint(o.err), "requests": len(log)})
		}
		if o.panicked != nil {
			fail("newstore-panics", fmt.Sprintf("NewStore panicked: %v", o.panicked), nil)
			return
		}
		if o.st != nil {
			defer o.st.Close()
		}
		if c.Misconfig != "" {
			r.Count("misconfig", 1)
			if o.err == nil {
				fail("misconfig-accepted", "misconfiguration "+c.Misconfig+" was accepted", nil)
			}
			if o.at != 0 || len(log) != 0 {
				fail("misconfig-not-upfront", fmt.Sprintf("misconfiguration %s was reported after %v and %d requests", c.Misconfig, o.at, len(log)), nil)
			}
			return
		}
		// what the cache supplies
		cacheValid := c.Cache == "partial" || c.Cache == "complete" || c.Cache == "stale-complete"
		certainlyInvalid := c.Cache == "invalid-json" || c.Cache == "null-entry" || c.Cache == "no-secret-field" || c.Cache == "empty-key" || c.Cache == "wrong-type" || c.Cache == "read-error" || c.Cache == "version-string" || c.Cache == "value-number" || c.Cache == "entry-is-array"
		cached := map[string]bool{}
		if cacheValid {
			var doc map[string]*cacheEntry
			json.Unmarshal([]byte(c.CacheDoc), &doc)
			for k := range doc {
				cached[k] = true
			}
		}
		var needed []string
		for _, d := range decl {
			if !cached[d] {
				needed = append(needed, d)
			}
		}
		if certainlyInvalid {
			r.Count("cache_ignored_as_invalid", 1)
		}
		if c.Cache == "null-undeclared" {
			r.Count("undeclared_null_entry_cases", 1)
		}
		// per-name request stats
		got := map[string]time.Duration{} // name -> time of the successful reply
		for _, q := range log {
			if _, ok := got[q.Name]; ok {
				fail("refetch-after-success", fmt.Sprintf("%q was requested again (request #%d at %v) after it had been obtained at %v", q.Name, q.Seq, q.Start.Sub(start), got[q.Name]), map[string]any{"log": log})
				return
			}
			if q.Outcome == "value" {
				got[q.Name] = q.End.Sub(start)
			}
			isNeeded := false
			for _, nn := range needed {
				if nn == q.Name {
					isNeeded = true
				}
			}
			if !isNeeded {
				fail("request-for-unneeded-name", fmt.Sprintf("%q was requested although it is not a declared secret lacking a cache value", q.Name), map[string]any{"log": log})
				return
			}
		}
		// gaps between rounds
		for i := 1; i < len(log); i++ {
			gap := log[i].Start.Sub(log[i-1].End)
			if gap > 0 {
				r.Count("retry_rounds", 1)
				r.Max("max_pause_ms", gap.Milliseconds())
			}
			if gap > 5*time.Second {
				fail("pause-too-long", fmt.Sprintf("NewStore paused %v between request #%d and #%d", gap, i-1, i), map[string]any{"log": log})
				return
			}
		}
		if c.Client == "file" {
			missing := 0
			for _, d := range needed {
				found := false
				for _, h := range c.FileHas {
					if h == d && len(svcValue(d)) > 0 { // (a secrets file cannot express an empty value: such an entry is absent)
						found = true
					}
				}
				if !found {
					missing++
				}
			}
			if missing > 0 {
				r.Count("fileclient_missing", 1)
				if o.err == nil {
					fail("fileclient-missing-accepted", "a declared secret is absent from the file-backed client but NewStore succeeded", nil)
				} else if o.at != 0 {
					fail("fileclient-missing-waited", fmt.Sprintf("NewStore waited %v before failing on a file-backed client", o.at), nil)
				}
				return
			}
		}
		allGot := true
		for _, d := range needed {
			if _, ok := got[d]; !ok {
				allGot = false
			}
		}
		if o.err == nil {
			r.Count("returned_nil", 1)
			if !allGot && c.Client != "file" && c.Cache != "null-undeclared" {
				fail("returned-before-all-fetched", "NewStore returned nil before every needed secret had been fetched", map[string]any{"log": log, "needed": needed})
				return
			}
			for _, d := range decl {
				want := svcValue(d)
				if cached[d] {
					want = cacheValue(d)
				}
				var val []byte
				pan := func() (p any) {
					defer func() { p = recover() }()
					val = o.st.Secret(d).Get()
					return nil
				}()
				if pan != nil {
					fail("declared-secret-without-value", fmt.Sprintf("NewStore succeeded but Secret(%q) panics: %v", d, pan), nil)
					return
				}
				if c.Cache == "null-undeclared" && string(val) == string(cacheValue(d)) {
					// (a cache that is good for every declared name and damaged elsewhere: both readings are
					// within the property - what is not, is asking the service about the undeclared name)
					r.Count("damaged_undeclared_entry_cases", 1)
					continue
				}
				if string(val) != string(want) {
					fail("declared-secret-wrong-value", fmt.Sprintf("Secret(%q) = %q, want %q (cache supplies it: %t)", d, val, want, cached[d]), nil)
					return
				}
			}
			if structPtr.IsValid() {
				for i, nme := range c.StructTag {
					want := svcValue(nme)
					if cached[nme] {
						want = cacheValue(nme)
					}
					if g := structPtr.Elem().Field(i).String(); g != string(want) {
						fail("struct-field-not-filled", fmt.Sprintf("struct field for %q = %q, want %q", nme, g, want), nil)
					}
				}
			}
			if len(needed) == 0 {
				r.Count("complete_cache_no_request", 1)
				if len(log) != 0 || o.at != 0 {
					fail("complete-cache-contacted-service", fmt.Sprintf("complete cache but %d requests / return at %v", len(log), o.at), nil)
				}
			}
			// bounded progress
			var bound time.Duration
			computable := c.Client != "file"
			for _, d := range needed {
				s := c.Scripts[d]
				switch s.Mode {
				case "failN", "timeoutN":
					bound += time.Duration(s.N) * 5 * time.Second
				case "failUntil", "hangUntil":
					if s.T > bound {
						bound += s.T
					}
				case "slow":
					bound += s.T
				case "never":
					computable = false
				}
			}
			bound += 5 * time.Second
			if computable && o.at > bound+time.Duration(len(needed))*5*time.Second {
				fail("slow-progress", fmt.Sprintf("NewStore returned at %v although every script had turned ok long before (bound %v)", o.at, bound), map[string]any{"log": log})
			}
			return
		}
		// error return
		if ctxEnd < 0 {
			fail("error-while-context-alive", fmt.Sprintf("NewStore gave up with %v at %v although its context never ended", o.err, o.at), map[string]any{"log": log})
			return
		}
		if o.at < ctxEnd {
			fail("error-while-context-alive", fmt.Sprintf("NewStore gave up with %v at %v, before its context ended at %v", o.err, o.at, ctxEnd), map[string]any{"log": log})
			return
		}
		r.Count("returned_error_ctx", 1)
		if o.at > ctxEnd+100*time.Millisecond {
			fail("late-after-context-end", fmt.Sprintf("context ended at %v but NewStore returned only at %v", ctxEnd, o.at), map[string]any{"log": log})
		}
	})
}

// realClientOddReplies: the REAL network client in front of a real server, with something in between (a proxy,
// a load balancer) that answers some requests oddly: 200 with an empty or whitespace body, with a
// cut-off document, with an HTML page; 204; 502. None of that is a value: construction keeps retrying and ends
// with the real value of every declared secret.
func realClientOddReplies(t *testing.T, r *evid.Run, tmp string) {
	d, err := realdb.Open(filepath.Join(tmp, "odd.db"), realdb.DummyKey("c10odd"))
	if err != nil {
		t.Fatal(err)
	}
	su := realdb.Super()
	names := []string{"alpha", "bravo", "charlie"}
	for _, n := range names {
		d.Put(su, n, svcValue(n))
	}
	srv, err := httpdrv.New(d)
	if err != nil {
		t.Fatal(err)
	}
	const addr = "100.64.0.10:10"
	srv.SetWho(addr, httpdrv.Who{Login: "c10@verif", Node: "c10", Rules: []refmodel.Rule{{Actions: []string{"get"}, Patterns: []string{"*"}}}})
	inner := srv.ClientDo(addr)
	type odd struct {
		name, ctype, body string
		status            int
	}
	// (replies that ARE well-formed JSON values of some other meaning - null, {} - are a broken service rather than
	// a failing one and are left out: the property's scripts are failures and recoveries)
	odds := []odd{{"empty 200", "application/json", "", 200}, {"whitespace 200", "application/json", " \n", 200},
		{"cut-off 200", "application/json", `{"Value":"c3Zj`, 200}, {"html 200", "text/html", "<html>please log in</html>", 200},
		{"204", "", "", 204}, {"502", "text/plain", "bad gateway", 502}, {"wrong type 200", "application/json", `"a string"`, 200}}
	for oi, o := range odds {
		for target := range names {
			var mu sync.Mutex
			seen := map[string]int{}
			do := func(req *http.Request) (*http.Response, error) {
				var gr api.GetRequest
				if req.Body != nil {
					b, _ := io.ReadAll(req.Body)
					json.Unmarshal(b, &gr)
					req.Body = io.NopCloser(bytes.NewReader(b))
				}
				mu.Lock()
				seen[gr.Name]++
				first := seen[gr.Name] == 1
				mu.Unlock()
				if first && gr.Name == names[target] {
					h := http.Header{}
					if o.ctype != "" {
						h.Set("Content-Type", o.ctype)
					}
					return &http.Response{StatusCode: o.status, Status: fmt.Sprint(o.status), Header: h, Body: io.NopCloser(strings.NewReader(o.body)), Request: req, Proto: "HTTP/1.1", ProtoMajor: 1, ProtoMinor: 1}, nil
				}
				return inner(req)
			}
			cl := setec.Client{Server: "http://setec.verif", DoHTTP: do}
			ctx, cancel := context.WithTimeout(context.Background(), 20*time.Second)
			var st *setec.Store
			var err error
			pan := func() (p any) {
				defer func() { p = recover() }()
				st, err = setec.NewStore(ctx, setec.StoreConfig{Client: cl, Secrets: names, PollInterval: -1, Logf: func(string, ...any) {}})
				return nil
			}()
			cancel()
			r.Eval(1)
			r.Count("real_client_odd_replies", 1)
			r.Distinct("real client, first reply " + o.name)
			what := fmt.Sprintf("real client, the first reply for %q is %s (%d)", names[target], o.name, oi)
			if pan != nil {
				r.Violation("newstore-panics", -1, fmt.Sprintf("%s: NewStore panicked: %v", what, pan), nil)
				continue
			}
			if err != nil {
				r.Violation("error-while-context-alive", -1, fmt.Sprintf("%s: NewStore gave up: %v", what, err), nil)
				continue
			}
			for _, n := range names {
				got, gp := func() (b []byte, p any) {
					defer func() { p = recover() }()
					return st.Secret(n).Get(), nil
				}()
				if gp != nil || !bytes.Equal(got, svcValue(n)) {
					r.Violation("returned-before-all-fetched", -1, fmt.Sprintf("%s: NewStore returned nil but %q yields %q (panic: %v); the service holds %q", what, n, got, gp, svcValue(n)), nil)
					break
				}
			}
			st.Close()
		}
	}
}

// bigFileCache: "with a complete cache it returns without contacting the service" - also when the complete
// cache is a real file of several megabytes (large secrets, or many).
func bigFileCache(t *testing.T, r *evid.Run, tmp string) {
	rng := r.Rand(101010)
	for si, sh := range []struct{ n, size int }{{2, 100}, {3, 500 << 10}, {300, 5000}, {1, 3 << 20}} {
		path := filepath.Join(tmp, fmt.Sprintf("bigcache%d", si), "cache.json")
		svc := fakesvc.New()
		var names []string
		want := map[string][]byte{}
		for i := 0; i < sh.n; i++ {
			n := fmt.Sprintf("big/%d", i)
			v := make([]byte, sh.size)
			for k := range v {
				v[k] = byte(rng.IntN(256))
			}
			names = append(names, n)
			want[n] = v
			svc.Set(n, 1, v)
		}
		fc, err := setec.NewFileCache(path)
		if err != nil {
			t.Fatal(err)
		}
		st, err := setec.NewStore(context.Background(), setec.StoreConfig{Client: svc, Secrets: names, Cache: fc, PollInterval: -1, Logf: func(string, ...any) {}})
		if err != nil {
			t.Fatal(err)
		}
		st.Close()
		before := svc.NumRequests()
		fc2, _ := setec.NewFileCache(path)
		ctx, cancel := context.WithTimeout(context.Background(), 5*time.Second)
		st2, err := setec.NewStore(ctx, setec.StoreConfig{Client: svc, Secrets: names, Cache: fc2, PollInterval: -1, Logf: func(string, ...any) {}})
		cancel()
		r.Eval(1)
		r.Count("big_file_cache_restarts", 1)
		r.Distinct(fmt.Sprintf("file cache %d x %d bytes", sh.n, sh.size))
		if err != nil {
			r.Violation("error-while-context-alive", -1, fmt.Sprintf("restart on a complete file cache (%d secrets of %d bytes): %v", sh.n, sh.size, err), nil)
			continue
		}
		if n := svc.NumRequests() - before; n != 0 {
			r.Violation("complete-cache-but-requests", -1, fmt.Sprintf("restart on a complete file cache (%d secrets of %d bytes) sent %d request(s) to the service", sh.n, sh.size, n), nil)
		}
		for _, n := range names {
			if !bytes.Equal(st2.Secret(n).Get(), want[n]) {
				r.Violation("returned-before-all-fetched", -1, fmt.Sprintf("restart on a complete file cache: %q yields other bytes", n), nil)
				break
			}
		}
		st2.Close()
	}
}

type prefixed struct {
	Key   string `setec:"api-key"`
	Other []byte `setec:"sub/other"`
}

// uncleanStructPrefixes: struct-tagged secrets with prefixes as people write them ("dev/", "dev//x", "./dev"):
// whatever name the store derives, it derives the same one when it declares, fetches and fills in, so
// construction succeeds with the service holding the (cleaned) names, and fails cleanly - never hangs - otherwise.
func uncleanStructPrefixes(t *testing.T, r *evid.Run) {
	for _, prefix := range []string{"dev", "dev/", "dev//", "/dev", "./dev", "dev/./x", "dev/x/..", "a//b", ""} {
		clean := path.Join(prefix, "api-key")
		svc := fakesvc.New()
		svc.Set(clean, 1, []byte("key-value"))
		svc.Set(path.Join(prefix, "sub/other"), 1, []byte("other-value"))
		var v prefixed
		ctx, cancel := context.WithTimeout(context.Background(), 3*time.Second)
		st, err := setec.NewStore(ctx, setec.StoreConfig{Client: svc, Structs: []setec.Struct{{Value: &v, Prefix: prefix}}, PollInterval: -1, Logf: func(string, ...any) {}})
		cancel()
		r.Eval(1)
		r.Count("struct_prefix_spellings", 1)
		r.Distinct(fmt.Sprintf("struct prefix %q", prefix))
		if err != nil {
			r.Violation("error-while-context-alive", -1, fmt.Sprintf("struct with prefix %q: the service holds %q and %q, but NewStore failed: %v", prefix, clean, path.Join(prefix, "sub/other"), err), nil)
			continue
		}
		if v.Key != "key-value" || string(v.Other) != "other-value" {
			r.Violation("returned-before-all-fetched", -1, fmt.Sprintf("struct with prefix %q: fields hold %q / %q", prefix, v.Key, v.Other), nil)
		}
		st.Close()
	}
}

// failKind: what a failing request of case idx fails with: a transport-like error, or one of the API's own
// error classes (a policy that has not reached the server yet answers 403; a replica that lags answers 404):
// all of them are failures to be retried while the caller's context lives.
func failKind(idx int, name string) error {
	switch (idx + len(name)) % 5 {
	case 1:
		return fmt.Errorf("get %q: %w", name, api.ErrAccessDenied)
	case 2:
		return fmt.Errorf("get %q: %w", name, api.ErrNotFound)
	case 3:
		return io.ErrUnexpectedEOF
	}
	return fakesvc.ErrInjected
}

// realClientRetryAfter: the REAL network client (virtual time, scripted transport) against a service - or a
// proxy in front of it - that sheds load: 503 / 429 with a Retry-After hint of several seconds. The pauses
// between rounds stay the store's own ("at most a few seconds"), and when the caller's context ends NewStore
// returns promptly, whatever the hint says.
func realClientRetryAfter(t *testing.T, r *evid.Run) {
	type rcase struct {
		status, hint, sheds int
		deadline            time.Duration // 0 = background
	}
	var cases []rcase
	for _, st := range []int{503, 429} {
		for _, hint := range []int{1, 4, 8, 30, 3600} {
			cases = append(cases, rcase{st, hint, 1, 0}, rcase{st, hint, 3, 0}, rcase{st, hint, 1 << 30, 300 * time.Millisecond}, rcase{st, hint, 1 << 30, 7 * time.Second})
		}
	}
	for ci, rc := range cases {
		synctest.Test(t, func(t *testing.T) {
			start := time.Now()
			var mu sync.Mutex
			var starts, ends []time.Duration
			n := 0
			do := func(req *http.Request) (*http.Response, error) {
				mu.Lock()
				n++
				k := n
				starts = append(starts, time.Since(start))
				mu.Unlock()
				defer func() { mu.Lock(); ends = append(ends, time.Since(start)); mu.Unlock() }()
				if err := req.Context().Err(); err != nil {
					return nil, err
				}
				if k <= rc.sheds {
					h := http.Header{}
					h.Set("Retry-After", fmt.Sprint(rc.hint))
					h.Set("Content-Type", "text/plain")
					return &http.Response{StatusCode: rc.status, Status: fmt.Sprint(rc.status), Header: h, Body: io.NopCloser(strings.NewReader("shedding load")), Request: req, Proto: "HTTP/1.1", ProtoMajor: 1, ProtoMinor: 1}, nil
				}
				b, _ := json.Marshal(api.SecretValue{Value: svcValue("alpha"), Version: 3})
				h := http.Header{}
				h.Set("Content-Type", "application/json")
				return &http.Response{StatusCode: 200, Status: "200", Header: h, Body: io.NopCloser(bytes.NewReader(b)), Request: req, Proto: "HTTP/1.1", ProtoMajor: 1, ProtoMinor: 1}, nil
			}
			ctx := context.Background()
			if rc.deadline > 0 {
				var cancel context.CancelFunc
				ctx, cancel = context.WithTimeout(ctx, rc.deadline)
				defer cancel()
			}
			st, err := setec.NewStore(ctx, setec.StoreConfig{Client: setec.Client{Server: "http://setec.verif", DoHTTP: do}, Secrets: []string{"alpha"}, PollInterval: -1, Logf: func(string, ...any) {}})
			at := time.Since(start)
			r.Eval(1)
			r.Count("retry_after_cases", 1)
			r.Distinct(fmt.Sprintf("real client, %d with Retry-After, deadline=%t", rc.status, rc.deadline > 0))
			what := fmt.Sprintf("retry-after case %d (real client; the first %d replies are %d with Retry-After: %d; caller deadline %v)", ci, min(rc.sheds, 99), rc.status, rc.hint, rc.deadline)
			mu.Lock()
			defer mu.Unlock()
			for i := 1; i < len(starts) && i-1 < len(ends); i++ {
				if gap := starts[i] - ends[i-1]; gap > 5*time.Second {
					r.Violation("pause-too-long", -1, fmt.Sprintf("%s: NewStore paused %v between the reply to request #%d and request #%d", what, gap, i, i+1), nil)
					return
				}
			}
			if rc.deadline > 0 {
				if err == nil {
					r.Violation("returned-before-all-fetched", -1, what+": NewStore succeeded although the service never delivered the value", nil)
				} else if at < rc.deadline {
					r.Violation("error-while-context-alive", -1, fmt.Sprintf("%s: NewStore gave up at %v with %v", what, at, err), nil)
				} else if at > rc.deadline+100*time.Millisecond {
					r.Violation("late-after-context-end", -1, fmt.Sprintf("%s: the context ended at %v but NewStore returned only at %v", what, rc.deadline, at), nil)
				}
				return
			}
			if err != nil {
				r.Violation("error-while-context-alive", -1, fmt.Sprintf("%s: NewStore gave up: %v", what, err), nil)
				return
			}
			defer st.Close()
			if got := st.Secret("alpha").Get(); !bytes.Equal(got, svcValue("alpha")) {
				r.Violation("declared-secret-wrong-value", -1, fmt.Sprintf("%s: alpha = %q", what, got), nil)
			}
			if at > time.Duration(rc.sheds)*5*time.Second+time.Second {
				r.Violation("slow-progress", -1, fmt.Sprintf("%s: NewStore returned at %v", what, at), nil)
			}
		})
	}
}

// Creds is embedded in the configuration structs below; its tagged fields are declarations like any other.
type Creds struct {
	User  string `setec:"user"`
	Token []byte `setec:"token"`
	Note  string // untagged
}

type deeper struct {
	Creds
	Region string `setec:"region"`
}

// embeddedDeclarations: secrets are also declared by the tagged fields of structs EMBEDDED in the struct handed
// to NewStore (one level, two levels). They are declared secrets: fetched, given values, and - with a
// file-backed client that lacks one of them - a reason to fail at once.
func embeddedDeclarations(t *testing.T, r *evid.Run, tmp string) {
	type one struct {
		Creds
		Direct string `setec:"direct"`
	}
	type two struct {
		deeper
		Direct string `setec:"direct"`
	}
	all := []string{"app/user", "app/token", "app/region", "app/direct"}
	for ci, mk := range []func() (any, func() map[string]string){
		func() (any, func() map[string]string) {
			v := &one{}
			return v, func() map[string]string {
				return map[string]string{"app/user": v.User, "app/token": string(v.Token), "app/direct": v.Direct}
			}
		},
		func() (any, func() map[string]string) {
			v := &two{}
			return v, func() map[string]string {
				return map[string]string{"app/user": v.User, "app/token": string(v.Token), "app/region": v.Region, "app/direct": v.Direct}
			}
		},
	} {
		for _, missing := range []string{"", "app/user", "app/token", "app/direct"} {
			// a file-backed client holding everything but `missing`
			doc := map[string]*cacheEntry{}
			for _, n := range all {
				if n != missing {
					doc[n] = &cacheEntry{Secret: &api.SecretValue{Value: svcValue(n), Version: 3}}
				}
			}
			b, _ := json.Marshal(doc)
			fp := filepath.Join(tmp, fmt.Sprintf("emb%d.json", ci))
			os.WriteFile(fp, b, 0o600)
			fc, err := setec.NewFileClient(fp)
			if err != nil {
				t.Fatal(err)
			}
			target, fields := mk()
			ctx, cancel := context.WithTimeout(context.Background(), 2*time.Second)
			st, err := setec.NewStore(ctx, setec.StoreConfig{Client: fc, Structs: []setec.Struct{{Value: target, Prefix: "app"}}, PollInterval: -1, Logf: func(string, ...any) {}})
			cancel()
			r.Eval(1)
			r.Count("embedded_struct_declarations", 1)
			r.Distinct(fmt.Sprintf("embedded declarations depth=%d missing=%t", ci+1, missing != ""))
			what := fmt.Sprintf("struct with tagged fields in an embedded struct (%d level(s)) and one of its own, file-backed client lacking %q", ci+1, missing)
			if missing != "" {
				if err == nil {
					r.Violation("fileclient-missing-accepted", -1, what+": NewStore succeeded although a declared secret has no value anywhere", nil)
					st.Close()
				}
				continue
			}
			if err != nil {
				r.Violation("error-while-context-alive", -1, what+": "+err.Error(), nil)
				continue
			}
			for n, got := range fields() {
				if got != string(svcValue(n)) {
					r.Violation("struct-field-not-filled", -1, fmt.Sprintf("%s: NewStore succeeded and the field for %q holds %q", what, n, got), nil)
				}
				if p := func() (p any) {
					defer func() { p = recover() }()
					st.Secret(n).Get()
					return nil
				}(); p != nil {
					r.Violation("declared-secret-without-value", -1, fmt.Sprintf("%s: Secret(%q) panics: %v", what, n, p), nil)
				}
			}
			st.Close()
		}
	}
}

// KeyMaterial unmarshals itself.
type KeyMaterial struct{ Raw string }

func (k *KeyMaterial) UnmarshalBinary(b []byte) error { k.Raw = string(b); return nil }

type envConfig struct {
	Key   *KeyMaterial `setec:"key"`
	KeyV  KeyMaterial  `setec:"key"`
	Token string       `setec:"token"`
}

// structsOfOneType: a program declares its secrets through several VALUES of one struct type (one per
// environment), in one store or in stores built one after the other. Every value's fields end up holding the
// secrets named by ITS prefix.
func structsOfOneType(t *testing.T, r *evid.Run) {
	svc := fakesvc.New()
	envs := []string{"dev", "staging", "prod"}
	for _, e := range envs {
		svc.Set(e+"/key", 3, []byte(e+"-key"))
		svc.Set(e+"/token", 3, []byte(e+"-token"))
	}
	check := func(what string, cfgs []*envConfig) {
		for i, c := range cfgs {
			e := envs[i]
			r.Eval(1)
			r.Count("struct_values_of_one_type", 1)
			if c.Key == nil || c.Key.Raw != e+"-key" || c.KeyV.Raw != e+"-key" || c.Token != e+"-token" {
				k := "<nil>"
				if c.Key != nil {
					k = c.Key.Raw
				}
				r.Violation("struct-field-not-filled", -1, fmt.Sprintf("%s: the %s struct holds Key=%q KeyV=%q Token=%q", what, e, k, c.KeyV.Raw, c.Token), nil)
			}
		}
	}
	// one store over three values of the type
	cfgs := []*envConfig{{}, {}, {}}
	var structs []setec.Struct
	for i, e := range envs {
		structs = append(structs, setec.Struct{Value: cfgs[i], Prefix: e})
	}
	st, err := setec.NewStore(context.Background(), setec.StoreConfig{Client: svc, Structs: structs, PollInterval: -1, Logf: func(string, ...any) {}})
	if err != nil {
		r.Violation("error-while-context-alive", -1, "one store over three struct values of one type: "+err.Error(), nil)
	} else {
		check("one store over three struct values of one type", cfgs)
		st.Close()
	}
	// three stores, one after the other
	cfgs = []*envConfig{{}, {}, {}}
	for i, e := range envs {
		st, err := setec.NewStore(context.Background(), setec.StoreConfig{Client: svc, Structs: []setec.Struct{{Value: cfgs[i], Prefix: e}}, PollInterval: -1, Logf: func(string, ...any) {}})
		if err != nil {
			r.Violation("error-while-context-alive", -1, "stores built one after the other over values of one struct type: "+err.Error(), nil)
			return
		}
		st.Close()
	}
	check("stores built one after the other over values of one struct type", cfgs)
	r.Distinct("struct values of one type")
}
