package c11

import (
	"net/http"
	"testing"

	"github.com/tailscale/setec/db"

	"verif/harness/internal/httpdrv"
	"verif/harness/internal/realdb"
	"verif/harness/internal/refmodel"
)

type muxT = http.ServeMux

// buildMux registers the real handlers on a mux; every remote address is the superuser.
func buildMux(t *testing.T, d interface{}) *http.ServeMux {
	s, err := httpdrv.NewAnyAddr(d.(*db.DB), httpdrv.Who{Login: "store@verif", Node: "store.verif",
		Rules: []refmodel.Rule{{Actions: []string{"get", "info", "put", "activate", "delete"}, Patterns: []string{"*"}}}})
	if err != nil {
		t.Fatal(err)
	}
	_ = realdb.Super
	return s.Mux
}
