// C11 — a successful poll brings every known secret to the server's active
// version. (A) virtual-time trace checker: a scripted service whose active
// versions change on a timeline (forwards, backwards, bursts, inside a held
// request), per-request failure scripts, expiry-aged secrets with live
// handles, coalesced refreshes, background cadence. (B) a real server + real
// HTTP client with random server-side histories alternating with Refresh,
// under the race detector.
package c11

import (
	"context"
	"encoding/json"
	"errors"
	"fmt"
	"io"
	"math/rand/v2"
	"net/http"
	"net/http/httptest"
	"os"
	"path/filepath"
	"runtime"
	"sort"
	"sync"
	"sync/atomic"
	"testing"
	"testing/synctest"
	"time"

	"github.com/tailscale/setec/client/setec"
	"github.com/tailscale/setec/server"
	"github.com/tailscale/setec/types/api"

	"verif/harness/internal/evid"
	"verif/harness/internal/fakesvc"
	"verif/harness/internal/ops"
	"verif/harness/internal/realdb"
	"verif/harness/internal/refmodel"
)

type event struct {
	Kind      string        `json:"kind"` // change, refresh, sleep, probe, lookup
	Name      string        `json:"name,omitempty"`
	Back      bool          `json:"back,omitempty"`
	D         time.Duration `json:"d,omitempty"`
	Fail      []int         `json:"fail_requests,omitempty"` // indices (within the round) of requests that fail
	FailKind  string        `json:"fail_kind,omitempty"`
	CacheDown bool          `json:"cache_down,omitempty"`
	Hold      []int         `json:"hold_requests,omitempty"` // indices of requests held for D, with a change of Name in the middle
	Result    string        `json:"result,omitempty"`
}

type world struct {
	svc      *fakesvc.Service
	versions map[string]map[uint32][]byte
	active   map[string]uint32
	latest   map[string]uint32
	inst     int
}

func (w *world) forward(name string) {
	w.inst++
	v := w.latest[name] + 1
	w.latest[name] = v
	b := []byte(fmt.Sprintf("%s#v%d#%d", name, v, w.inst))
	if w.inst%4 == 0 && v >= 3 {
		// the same bytes as an EARLIER (not the latest) version under a new number: a version is its number
		b = w.versions[name][v-2]
	}
	if w.versions[name] == nil {
		w.versions[name] = map[uint32][]byte{}
	}
	w.versions[name][v] = b
	w.active[name] = v
	w.svc.Set(name, v, b)
}

func (w *world) backward(name string, rng *rand.Rand) bool {
	cur := w.active[name]
	var older []uint32
	for v := range w.versions[name] {
		if v < cur {
			older = append(older, v)
		}
	}
	if len(older) == 0 {
		return false
	}
	sort.Slice(older, func(i, j int) bool { return older[i] < older[j] })
	v := older[rng.IntN(len(older))]
	w.active[name] = v
	w.svc.Set(name, v, w.versions[name][v])
	return true
}

type held struct {
	Version uint32
	Bytes   string
}

func payload(c *fakesvc.MonCache) (map[string]held, error) {
	var doc map[string]struct {
		Secret *api.SecretValue `json:"secret"`
	}
	b := c.Last()
	if b == nil {
		return map[string]held{}, nil
	}
	if err := json.Unmarshal(b, &doc); err != nil {
		return nil, err
	}
	out := map[string]held{}
	for n, e := range doc {
		if e.Secret == nil {
			return nil, fmt.Errorf("cache entry %q has no secret", n)
		}
		out[n] = held{uint32(e.Secret.Version), string(e.Secret.Value)}
	}
	return out, nil
}

// activeDuring reports whether (version, bytes) was name's active pair at some instant of [t0, t1].
func activeDuring(svc *fakesvc.Service, name string, h held, t0, t1 time.Time) bool {
	hist := svc.History(name)
	for k, e := range hist {
		if e.Del || e.Val.Version != h.Version || string(e.Val.Bytes) != h.Bytes {
			continue
		}
		if e.At.After(t1) {
			continue
		}
		if k+1 < len(hist) && hist[k+1].At.Before(t0) {
			continue
		}
		return true
	}
	return false
}

func TestC11(t *testing.T) {
	r := evid.Start("C11", "exploration")
	defer r.Finish(t)
	r.Assume("time is virtual (testing/synctest) in part A; freshness is judged by version number as the protocol does (the scripted service never reuses a version number for different bytes)",
		"poll window = [call of Refresh, its return]; equal virtual instants count as inside the window",
		"after a failed poll every secret must still hold its pre-poll value ('the old one')")
	n := r.N(6000, 100000)
	for i := 0; i < n; i++ {
		if r.Skip(i) {
			continue
		}
		bubbleCase(t, r, i)
	}
	if r.Only < 0 {
		for i := 0; i < r.N(60, 2000); i++ {
			cadenceCase(t, r, i)
		}
		for i := 0; i < r.N(100, 3000); i++ {
			coalesceCase(t, r, i)
		}
		for i := 0; i < r.N(100, 3000); i++ {
			tickerOverlapCase(t, r, i)
		}
		for i := 0; i < r.N(30, 500); i++ {
			parkedCacheWrite(t, r, i)
		}
		realServer(t, r)
		twoStoresOneServer(t, r)
		crowdAtTheEndOfARound(t, r)
		lateLookupReply(t, r)
		for i := 0; i < r.N(6, 40); i++ {
			cancelledLeaderCase(t, r, i)
		}
	}
	r.Require("file_cache_reads_after_a_poll", "late_lookup_replies_after_a_poll", "rounds_failed_by_a_cancelled_explicit_caller", "second_rounds_after_a_rollback", "overlapping_polls_of_two_stores", "polls_ok", "polls_failed", "changes_forward", "changes_backward", "changes_inside_window", "expired_with_handle_polls",
		"cadence_rounds", "cadence_cases_with_slow_service", "cadence_cases_with_an_outage", "cadence_cases_with_explicit_refreshes", "parked_cache_write_cases", "ticker_overlap_cases", "coalesced_refreshes", "coalesced_with_cancelled_leader", "coalesced_after_a_joiner_gave_up", "polls_with_cache_down", "real_server_refreshes", "real_server_empty_values", "final_convergence_checks")
	r.Rule("A: seeded histories of 8-25 events over 2-5 secrets (declared, looked-up, expiry-aged with a live unread handle): service changes (new version / re-activate an older one / bursts), Refresh with per-request failure and hold scripts (service changes inside the held window), sleeps up to several expiry ages, handle probes; oracle after every Refresh on the cache payload and at probes on handles. Plus cadence cases (background poller, instant service), coalescing cases (K refreshes while the first request is parked) and B: real server+client histories. Distinct = (event kind, poll outcome, backwards?, held?, expiry shape)")
}

func bubbleCase(t *testing.T, r *evid.Run, idx int) {
	rng := r.Rand(uint64(idx))
	r.Eval(1)
	var trace []*event
	fail := func(key, msg string, extra map[string]any) {
		d := map[string]any{"events": trace}
		for k, v := range extra {
			d[k] = v
		}
		r.Violation(key, idx, fmt.Sprintf("case %d: %s", idx, msg), d)
	}
	synctest.Test(t, func(t *testing.T) {
		w := &world{svc: fakesvc.New(), versions: map[string]map[uint32][]byte{}, active: map[string]uint32{}, latest: map[string]uint32{}}
		all := []string{"d/one", "d/two", "u/three", "u/four", "u/five"}
		nDecl := 1 + rng.IntN(2)
		declared := all[:nDecl]
		for _, nme := range all {
			w.forward(nme)
			if rng.IntN(2) == 0 {
				w.forward(nme)
			}
		}
		expiry := time.Duration(0)
		if rng.IntN(2) == 0 {
			expiry = time.Hour
		}
		cache := &fakesvc.MonCache{}
		cacheDown := false // the cache cannot be written for the time being (disk full, read-only file system)
		cache.WriteErr = func(int) error {
			if cacheDown {
				return errors.New("injected: cache write failed")
			}
			return nil
		}
		round, failedReqs := 0, 0
		var failSet, holdSet map[int]bool
		var failWith error = fakesvc.ErrInjected
		var holdFor time.Duration
		w.svc.Behave = func(q *fakesvc.Req) fakesvc.Behaviour {
			if !q.Cond {
				return fakesvc.Behaviour{}
			}
			i := round
			round++
			if failSet[i] {
				failedReqs++
				return fakesvc.Behaviour{Fail: failWith}
			}
			if holdSet[i] {
				return fakesvc.Behaviour{Delay: holdFor}
			}
			return fakesvc.Behaviour{}
		}
		st, err := setec.NewStore(context.Background(), setec.StoreConfig{Client: w.svc, Secrets: append([]string(nil), declared...), AllowLookup: true,
			Cache: cache, PollInterval: -1, ExpiryAge: expiry, Logf: func(string, ...any) {}})
		if err != nil {
			t.Fatalf("NewStore: %v", err)
		}
		defer st.Close()
		known := map[string]bool{}
		handles := map[string]setec.Secret{}
		lastRead := map[string]time.Time{}
		for _, d := range declared {
			known[d] = true
			handles[d] = st.Secret(d)
		}
		knownNames := func() []string {
			var out []string
			for k := range known {
				out = append(out, k)
			}
			sort.Strings(out)
			return out
		}
		cacheBehind := false // the last poll reported that it could not write the cache: until a poll succeeds the cache may lag
		probe := func(name string, why string) {
			got := string(handles[name].Get())
			lastRead[name] = time.Now()
			if cacheBehind {
				return
			}
			p, err := payload(cache)
			if err != nil {
				fail("cache-not-a-document", err.Error(), nil)
				return
			}
			if h, ok := p[name]; !ok || h.Bytes != got {
				fail("handle-and-cache-disagree", fmt.Sprintf("%s: handle of %q yields %q, cache holds %+v", why, name, got, p[name]), map[string]any{"cache": string(cache.Last())})
			}
		}
		nEv := 8 + rng.IntN(18)
		for e := 0; e < nEv; e++ {
			ev := &event{}
			trace = append(trace, ev)
			switch x := rng.IntN(20); {
			case x < 5:
				ev.Kind = "change"
				ev.Name = all[rng.IntN(len(all))]
				burst := 1
				if rng.IntN(4) == 0 {
					burst = 2 + rng.IntN(3)
				}
				for b := 0; b < burst; b++ {
					if rng.IntN(3) == 0 && w.backward(ev.Name, rng) {
						ev.Back = true
						r.Count("changes_backward", 1)
					} else {
						w.forward(ev.Name)
						r.Count("changes_forward", 1)
					}
				}
			case x < 8:
				ev.Kind = "sleep"
				ev.D = []time.Duration{time.Second, 10 * time.Minute, 59 * time.Minute, 61 * time.Minute, 3 * time.Hour}[rng.IntN(5)]
				time.Sleep(ev.D)
			case x < 10:
				ev.Kind = "lookup"
				var cand []string
				for _, nme := range all {
					if !known[nme] {
						cand = append(cand, nme)
					}
				}
				if len(cand) == 0 {
					ev.Kind = "noop"
					break
				}
				ev.Name = cand[rng.IntN(len(cand))]
				h, err := st.LookupSecret(context.Background(), ev.Name)
				if err != nil {
					fail("lookup-fails", err.Error(), nil)
					return
				}
				known[ev.Name] = true
				handles[ev.Name] = h // deliberately NOT read: it may age past the expiry window while pinned
				lastRead[ev.Name] = time.Now()
			case x < 12:
				ev.Kind = "probe"
				ns := knownNames()
				ev.Name = ns[rng.IntN(len(ns))]
				probe(ev.Name, "probe")
			default:
				ev.Kind = "refresh"
				cacheDownThisPoll := rng.IntN(8) == 0
				nk := len(known)
				failSet, holdSet = map[int]bool{}, map[int]bool{}
				if rng.IntN(3) == 0 {
					// what kind of failure the service (or something between it and the client) answers with
					fk := rng.IntN(5)
					failWith = []error{fakesvc.ErrInjected, fmt.Errorf("get: %w", api.ErrNotFound), fmt.Errorf("get: %w", api.ErrAccessDenied),
						fmt.Errorf("request timed out inside the client: %w", context.DeadlineExceeded), io.ErrUnexpectedEOF}[fk]
					r.Distinct(fmt.Sprintf("failure kind %d", fk))
					ev.FailKind = failWith.Error()
					for i := 0; i < nk; i++ {
						if rng.IntN(2) == 0 {
							failSet[i] = true
							ev.Fail = append(ev.Fail, i)
						}
					}
				}
				if rng.IntN(3) == 0 {
					holdFor = time.Duration(1+rng.IntN(5000)) * time.Millisecond
					ev.D = holdFor
					for i := 0; i < nk; i++ {
						if !failSet[i] && rng.IntN(2) == 0 {
							holdSet[i] = true
							ev.Hold = append(ev.Hold, i)
						}
					}
					if len(ev.Hold) > 0 {
						// the service changes while a request of this round is held
						ev.Name = knownNames()[rng.IntN(nk)]
						nme, back := ev.Name, rng.IntN(3) == 0
						time.AfterFunc(holdFor/2, func() {
							if !(back && w.backward(nme, rng)) {
								w.forward(nme)
							}
						})
						r.Count("changes_inside_window", 1)
					}
				}
				// expiry shape: an undeclared secret with a handle, unread for longer than the expiry age
				expiredPinned := 0
				if expiry > 0 {
					for nme := range known {
						isDecl := false
						for _, d := range declared {
							if d == nme {
								isDecl = true
							}
						}
						if !isDecl && time.Since(lastRead[nme]) > expiry {
							expiredPinned++
						}
					}
				}
				before, _ := payload(cache)
				round, failedReqs = 0, 0
				// now and then the cache cannot be written during this poll (and only during this one)
				cacheDown = cacheDownThisPoll
				if cacheDown {
					ev.CacheDown = true
					r.Count("polls_with_cache_down", 1)
				}
				cacheFailsBefore := cache.NumFailed()
				t0 := time.Now()
				err := st.Refresh(context.Background())
				t1 := time.Now()
				cacheDown = false
				cacheFailed := cache.NumFailed() > cacheFailsBefore
				cacheBehind = (cacheBehind && err != nil) || cacheFailed
				synctest.Wait() // let a pending in-window change land before anything else happens
				after, perr := payload(cache)
				if perr != nil {
					fail("cache-not-a-document", perr.Error(), nil)
					return
				}
				r.Distinct(fmt.Sprintf("refresh ok=%t fails=%t holds=%t expiredPinned=%t", err == nil, len(ev.Fail) > 0, len(ev.Hold) > 0, expiredPinned > 0))
				if err != nil {
					ev.Result = "error"
					r.Count("polls_failed", 1)
					if failedReqs == 0 && !cacheFailed {
						fail("poll-fails-without-cause", fmt.Sprintf("Refresh reported %v although no request failed", err), nil)
						return
					}
					for _, nme := range knownNames() {
						if before[nme] != after[nme] {
							fail("failed-poll-changed-values", fmt.Sprintf("the poll failed but %q went from %+v to %+v", nme, before[nme], after[nme]), nil)
							return
						}
					}
					break
				}
				ev.Result = "ok"
				r.Count("polls_ok", 1)
				if failedReqs > 0 {
					// a request failed and yet the poll reported success
					fail("poll-hides-failure", "a request of the round failed but Refresh returned nil", map[string]any{"log": w.svc.Log()})
					return
				}
				if expiredPinned > 0 {
					r.Count("expired_with_handle_polls", 1)
				}
				for _, nme := range knownNames() {
					h, ok := after[nme]
					if !ok {
						fail("known-secret-missing-from-cache", fmt.Sprintf("%q is known to the store but absent from the cache after a successful poll", nme), map[string]any{"cache": string(cache.Last())})
						return
					}
					if !activeDuring(w.svc, nme, h, t0, t1) {
						cur, _ := w.svc.Active(nme)
						fail("stale-after-successful-poll", fmt.Sprintf("after a successful poll %q is at v%d %q, which was not the service's active version at any instant of the poll (now v%d %q)", nme, h.Version, h.Bytes, cur.Version, cur.Bytes),
							map[string]any{"window": []string{t0.String(), t1.String()}, "history": w.svc.History(nme)})
						return
					}
				}
			}
		}
		// failures have stopped: one clean poll must converge exactly
		failSet, holdSet = nil, nil
		synctest.Wait()
		if err := st.Refresh(context.Background()); err != nil {
			fail("clean-poll-fails", err.Error(), nil)
			return
		}
		r.Count("final_convergence_checks", 1)
		p, _ := payload(cache)
		for _, nme := range knownNames() {
			cur, _ := w.svc.Active(nme)
			got := string(handles[nme].Get())
			if got != string(cur.Bytes) {
				fail("no-convergence", fmt.Sprintf("after failures stopped and a successful poll, the handle of %q yields %q but the service's active value is v%d %q", nme, got, cur.Version, cur.Bytes), map[string]any{"log": w.svc.Log()})
				return
			}
			if p[nme].Bytes != got || p[nme].Version != cur.Version {
				fail("handle-and-cache-disagree", fmt.Sprintf("final: cache holds %+v for %q, service active is v%d", p[nme], nme, cur.Version), nil)
				return
			}
		}
		if idx < 2 {
			r.Sample(map[string]any{"case": idx, "declared": declared, "expiry": expiry.String(), "events": trace})
		}
	})
}

// cadenceCase: background polls happen once per interval within +/-10 percent.
func cadenceCase(t *testing.T, r *evid.Run, idx int) {
	rng := r.Rand(uint64(5_000_000 + idx))
	r.Eval(1)
	synctest.Test(t, func(t *testing.T) {
		svc := fakesvc.New()
		svc.Set("a", 1, []byte("a1"))
		svc.Set("b", 1, []byte("b1"))
		// (also intervals that are not a whole number of seconds: 1.5 s, 2.5 s, 1.2 s, 90.5 s)
		interval := []time.Duration{time.Second, time.Minute, time.Hour, 7 * time.Hour, 0, 1500 * time.Millisecond, 2500 * time.Millisecond, 1200 * time.Millisecond, 90500 * time.Millisecond, 700 * time.Millisecond}[rng.IntN(10)]
		// the service may take a noticeable part of the interval to answer; the cadence is per interval all the same
		if lat := []time.Duration{0, 0, 20, 8}[rng.IntN(4)]; lat > 0 {
			eff := interval
			if eff == 0 {
				eff = time.Hour
			}
			d := eff / lat
			svc.Behave = func(q *fakesvc.Req) fakesvc.Behaviour {
				if q.Cond {
					return fakesvc.Behaviour{Delay: d}
				}
				return fakesvc.Behaviour{}
			}
			r.Count("cadence_cases_with_slow_service", 1)
		}
		eff := interval
		if eff == 0 {
			eff = time.Hour // documented default
		}
		start := time.Now()
		// explicit refreshes by the application between the background polls (their requests are told apart by
		// their start instants): the background cadence is what it is, whoever else asks in between
		var explicit []time.Duration
		nExplicit := rng.IntN(3)
		if svc.Behave != nil {
			nExplicit = 0 // (with a slow service an explicit refresh may still be in flight at the next tick, whose poll then joins it)
		}
		if svc.Behave == nil && rng.IntN(2) == 0 {
			// an outage of several intervals in the middle: the polls fail, one per interval all the same
			from, to := time.Duration(2+rng.IntN(3))*eff, time.Duration(6+rng.IntN(4))*eff
			svc.Behave = func(q *fakesvc.Req) fakesvc.Behaviour {
				if since := time.Since(start); q.Cond && since >= from && since < to {
					return fakesvc.Behaviour{Fail: fakesvc.ErrInjected}
				}
				return fakesvc.Behaviour{}
			}
			r.Count("cadence_cases_with_an_outage", 1)
		}
		st, err := setec.NewStore(context.Background(), setec.StoreConfig{Client: svc, Secrets: []string{"a", "b"}, PollInterval: interval, Logf: func(string, ...any) {}})
		if err != nil {
			t.Fatalf("NewStore: %v", err)
		}
		if nExplicit > 0 {
			// at odd fractions of the interval, never on a tick
			var at []time.Duration
			for k := 0; k < nExplicit; k++ {
				at = append(at, time.Duration(1+rng.IntN(10))*eff+eff*time.Duration(1+rng.IntN(8))/10)
			}
			sort.Slice(at, func(i, j int) bool { return at[i] < at[j] })
			for _, a := range at {
				if d := a - time.Since(start); d > 0 {
					time.Sleep(d)
				}
				explicit = append(explicit, time.Since(start))
				st.Refresh(context.Background())
			}
			r.Count("cadence_cases_with_explicit_refreshes", 1)
		}
		if d := 12*eff - time.Since(start); d > 0 {
			time.Sleep(d)
		}
		st.Close()
		// round instants = distinct start times of conditional requests
		var rounds []time.Duration
		nCond := 0
		for _, q := range svc.Log() {
			if q.Cond {
				// a round asks for both secrets, one after the other, in no particular order: its first request marks it
				if nCond%2 == 0 {
					at := q.Start.Sub(start)
					isExplicit := false
					for _, e := range explicit {
						if at == e {
							isExplicit = true
						}
					}
					if !isExplicit {
						rounds = append(rounds, at)
					}
				}
				nCond++
			}
		}
		r.Count("cadence_rounds", len(rounds))
		if len(rounds) < 9 {
			r.Violation("too-few-polls", idx, fmt.Sprintf("cadence case %d: interval %v but only %d polls in 12 intervals", idx, eff, len(rounds)), map[string]any{"rounds": rounds})
			return
		}
		prev := time.Duration(0)
		for i, at := range rounds {
			gap := at - prev
			prev = at
			ratio := float64(gap) / float64(eff)
			r.Max("cadence_max_ratio_permille", int64(ratio*1000))
			r.Max("cadence_min_ratio_permille_neg", -int64(ratio*1000))
			if ratio < 0.9 || ratio > 1.1 {
				r.Violation("poll-cadence", idx, fmt.Sprintf("cadence case %d: interval %v, gap before poll %d was %v (ratio %.3f)", idx, eff, i, gap, ratio), map[string]any{"rounds": rounds})
				return
			}
		}
		r.Distinct(fmt.Sprintf("cadence interval=%v", eff))
	})
}

// coalesceCase: overlapping refreshes are coalesced into a single round of requests.
func coalesceCase(t *testing.T, r *evid.Run, idx int) {
	rng := r.Rand(uint64(6_000_000 + idx))
	r.Eval(1)
	synctest.Test(t, func(t *testing.T) {
		svc := fakesvc.New()
		names := []string{"a", "b", "c", "d"}[:1+rng.IntN(4)]
		for _, n := range names {
			svc.Set(n, 1, []byte(n+"1"))
		}
		gate := make(chan struct{})
		first := true
		svc.Behave = func(q *fakesvc.Req) fakesvc.Behaviour {
			if q.Cond && first {
				first = false
				return fakesvc.Behaviour{Hold: gate}
			}
			return fakesvc.Behaviour{}
		}
		st, err := setec.NewStore(context.Background(), setec.StoreConfig{Client: svc, Secrets: names, PollInterval: -1, Logf: func(string, ...any) {}})
		if err != nil {
			t.Fatalf("NewStore: %v", err)
		}
		defer st.Close()
		base := svc.NumRequests()
		k := 2 + rng.IntN(6)
		errs := make([]error, k)
		var wg sync.WaitGroup
		cancelFirst := rng.IntN(3) == 0
		ctx0, cancel0 := context.WithCancel(context.Background())
		defer cancel0()
		wg.Add(1)
		go func() { // the caller whose context governs the shared poll
			defer wg.Done()
			errs[0] = st.Refresh(ctx0)
		}()
		synctest.Wait()
		// some of the joiners have little patience and leave the shared round before it ends
		giveUp := !cancelFirst && rng.IntN(2) == 0
		impatient := map[int]bool{}
		for i := 1; i < k; i++ {
			wg.Add(1)
			jctx := context.Background()
			if giveUp && i%2 == 1 {
				var jc context.CancelFunc
				jctx, jc = context.WithTimeout(jctx, time.Duration(1+rng.IntN(900))*time.Millisecond)
				defer jc()
				impatient[i] = true
			}
			go func(i int) {
				defer wg.Done()
				errs[i] = st.Refresh(jctx)
			}(i)
		}
		synctest.Wait() // every refresher is blocked: one inside the parked request, the rest on the shared flight
		if giveUp {
			time.Sleep(time.Second)
			synctest.Wait() // the impatient ones are gone; the round they had joined is still in flight
			late := 1 + rng.IntN(3)
			for j := 0; j < late; j++ {
				errs = append(errs, nil)
				wg.Add(1)
				go func(i int) { // arrives while the round is still in flight: joins it
					defer wg.Done()
					errs[i] = st.Refresh(context.Background())
				}(len(errs) - 1)
			}
			synctest.Wait()
			r.Count("coalesced_after_a_joiner_gave_up", 1)
			r.Distinct("coalesce joiner-gave-up")
		}
		for _, n := range names {
			svc.Set(n, 2, []byte(n+"2"))
		}
		if cancelFirst {
			// the first caller gives up: the shared poll is cut short. Whoever is told "nil" must see fresh values.
			cancel0()
			wg.Wait()
			r.Count("coalesced_with_cancelled_leader", 1)
			r.Distinct("coalesce cancelled-leader")
			for i := 1; i < k; i++ {
				if errs[i] != nil {
					continue
				}
				for _, n := range names {
					if got := string(st.Secret(n).Get()); got != n+"2" {
						r.Violation("nil-refresh-but-stale", idx, fmt.Sprintf("coalesce case %d: Refresh returned nil to joined caller %d but %q still yields %q (the service has had %q active since before the poll ended)", idx, i, n, got, n+"2"), map[string]any{"log": svc.Log()})
						return
					}
				}
			}
			// and a later poll converges
			if err := st.Refresh(context.Background()); err != nil {
				r.Violation("clean-poll-fails", idx, err.Error(), nil)
			}
			for _, n := range names {
				if got := string(st.Secret(n).Get()); got != n+"2" {
					r.Violation("no-convergence", idx, fmt.Sprintf("coalesce case %d: %q yields %q after a clean poll", idx, n, got), nil)
				}
			}
			return
		}
		close(gate)
		wg.Wait()
		nreq := svc.NumRequests() - base
		r.Count("coalesced_refreshes", k)
		r.Distinct(fmt.Sprintf("coalesce names=%d", len(names)))
		for _, n := range names {
			if got := string(st.Secret(n).Get()); got != n+"2" {
				r.Violation("nil-refresh-but-stale", idx, fmt.Sprintf("coalesce case %d: after the shared round %q yields %q (the service has had %q active since before the round ended)", idx, n, got, n+"2"), map[string]any{"log": svc.Log()})
			}
		}
		if nreq != len(names) {
			r.Violation("refreshes-not-coalesced", idx, fmt.Sprintf("coalesce case %d: %d overlapping Refresh calls over %d secrets caused %d requests (one round = %d)", idx, k, len(names), nreq, len(names)), map[string]any{"log": svc.Log()})
		}
		for i, e := range errs {
			if e != nil && !impatient[i] {
				r.Violation("coalesced-refresh-error", idx, fmt.Sprintf("refresher %d got %v", i, e), nil)
			}
		}
	})
}

// realServer: part B.
func realServer(t *testing.T, r *evid.Run) {
	dir := evid.TempDir(t)
	nh := r.N(40, 600)
	for h := 0; h < nh; h++ {
		rng := r.Rand(uint64(7_000_000 + h))
		d, err := realdb.Open(filepath.Join(dir, fmt.Sprintf("rs%d.db", h)), realdb.DummyKey("c11"))
		if err != nil {
			t.Fatal(err)
		}
		srvMux := newMux(t, d)
		hs := httptest.NewServer(srvMux)
		m := refmodel.New()
		su := realdb.Super()
		names := []string{"app/a", "app/b", "app/c"}
		inst := 0
		put := func(n string) {
			inst++
			op := ops.Op{Kind: ops.Put, Name: n, Value: []byte(fmt.Sprintf("%s-%d", n, inst))}
			if inst > len(names) && inst%5 == 0 {
				op.Value = []byte{} // an empty value is a value (a feature switched off, a cleared password)
				r.Count("real_server_empty_values", 1)
			}
			ops.ApplyModel(m, nil, true, op)
			ops.ApplyReal(d, su, op)
		}
		for _, n := range names {
			put(n)
		}
		cl := setec.Client{Server: hs.URL, DoHTTP: hs.Client().Do}
		// (with the package's own file cache: "and the cache holds the same" is judged on the file)
		cpath := filepath.Join(dir, fmt.Sprintf("rs%d.cache", h))
		fcache, _ := setec.NewFileCache(cpath)
		st, err := setec.NewStore(context.Background(), setec.StoreConfig{Client: cl, Secrets: names, Cache: fcache, PollInterval: -1, Logf: func(string, ...any) {}})
		if err != nil {
			hs.Close()
			r.Violation("real-newstore", -1, err.Error(), nil)
			continue
		}
		var trace []string
		for step := 0; step < 12; step++ {
			for k, nk := 0, 1+rng.IntN(4); k < nk; k++ {
				n := names[rng.IntN(len(names))]
				switch rng.IntN(4) {
				case 0, 1:
					put(n)
					op := ops.Op{Kind: ops.Act, Name: n, Version: m.S[n].Latest}
					if rng.IntN(2) == 0 {
						ops.ApplyModel(m, nil, true, op)
						ops.ApplyReal(d, su, op)
						trace = append(trace, op.String())
					}
					trace = append(trace, "put "+n)
				case 2:
					op := ops.Op{Kind: ops.Act, Name: n, Version: ops.GenVersion(rng, m, n)}
					ops.ApplyModel(m, nil, true, op)
					ops.ApplyReal(d, su, op)
					trace = append(trace, op.String())
				case 3:
					op := ops.Op{Kind: ops.DelVer, Name: n, Version: ops.GenVersion(rng, m, n)}
					ops.ApplyModel(m, nil, true, op)
					ops.ApplyReal(d, su, op)
					trace = append(trace, op.String())
				}
			}
			if err := st.Refresh(context.Background()); err != nil {
				r.Violation("real-refresh-fails", -1, fmt.Sprintf("real-server history %d: Refresh: %v", h, err), map[string]any{"trace": trace})
				break
			}
			trace = append(trace, "refresh")
			r.Count("real_server_refreshes", 1)
			var cdoc map[string]struct {
				Secret *api.SecretValue `json:"secret"`
			}
			craw, _ := os.ReadFile(cpath)
			cerr := json.Unmarshal(craw, &cdoc)
			r.Count("file_cache_reads_after_a_poll", 1)
			for _, n := range names {
				want, _ := m.Get(n)
				got := string(st.Secret(n).Get())
				if got != want.Bytes {
					r.Violation("real-stale-after-poll", -1, fmt.Sprintf("real-server history %d: after Refresh %q yields %q, the server's active value is v%d %q", h, n, got, want.Version, want.Bytes), map[string]any{"trace": trace})
				}
				if e := cdoc[n]; cerr != nil || e.Secret == nil || string(e.Secret.Value) != want.Bytes || uint32(e.Secret.Version) != want.Version {
					r.Violation("handle-and-cache-disagree", -1, fmt.Sprintf("real-server history %d: Refresh completed without error; the file cache (%d bytes, decodes: %v) does not hold version %d of %q", h, len(craw), cerr, want.Version, n), map[string]any{"trace": trace})
					break
				}
			}
		}
		r.Eval(1)
		r.Distinct("real-server")
		st.Close()
		hs.Close()
	}
}

// twoStoresOneServer: one process runs two Stores against the same server and the same names (two components,
// each with its configuration). One of them has seen the newest versions already, the other has not; their
// polls overlap. Every Store's completed poll brings THAT Store up to date.
func twoStoresOneServer(t *testing.T, r *evid.Run) {
	dir := evid.TempDir(t)
	for h, nh := 0, r.N(6, 60); h < nh; h++ {
		rng := r.Rand(uint64(7_500_000 + h))
		d, err := realdb.Open(filepath.Join(dir, fmt.Sprintf("two%d.db", h)), realdb.DummyKey("c11two"))
		if err != nil {
			t.Fatal(err)
		}
		srvMux := newMux(t, d)
		hs := httptest.NewServer(http.HandlerFunc(func(w http.ResponseWriter, q *http.Request) {
			time.Sleep(2 * time.Millisecond) // (a server a few network hops away)
			srvMux.ServeHTTP(w, q)
		}))
		su := realdb.Super()
		names := []string{"shared/a", "shared/b"}
		inst := 0
		put := func(n string) string {
			inst++
			v := fmt.Sprintf("%s-%d", n, inst)
			ver, _ := d.Put(su, n, []byte(v))
			d.Activate(su, n, ver)
			return v
		}
		want := map[string]string{}
		for _, n := range names {
			want[n] = put(n)
		}
		mk := func() *setec.Store {
			cl := setec.Client{Server: hs.URL, DoHTTP: hs.Client().Do}
			st, err := setec.NewStore(context.Background(), setec.StoreConfig{Client: cl, Secrets: names, PollInterval: -1, Logf: func(string, ...any) {}})
			if err != nil {
				t.Fatal(err)
			}
			return st
		}
		a, b := mk(), mk()
		for round := 0; round < 10; round++ {
			for _, n := range names {
				if rng.IntN(3) != 0 {
					want[n] = put(n)
				}
			}
			// the first store polls on its own: it is up to date now, the second one is not
			if err := a.Refresh(context.Background()); err != nil {
				r.Violation("real-refresh-fails", -1, fmt.Sprintf("two stores, history %d: %v", h, err), nil)
				break
			}
			// now both poll, at about the same time
			lead := time.Duration(rng.IntN(1500)) * time.Microsecond
			errs := make(chan error, 2)
			go func() { errs <- a.Refresh(context.Background()) }()
			time.Sleep(lead)
			go func() { errs <- b.Refresh(context.Background()) }()
			e1, e2 := <-errs, <-errs
			r.Count("overlapping_polls_of_two_stores", 1)
			if e1 != nil || e2 != nil {
				r.Violation("real-refresh-fails", -1, fmt.Sprintf("two stores, history %d round %d: %v / %v", h, round, e1, e2), nil)
				break
			}
			bad := false
			for _, n := range names {
				for si, st := range []*setec.Store{a, b} {
					if got := string(st.Secret(n).Get()); got != want[n] {
						r.Violation("real-stale-after-poll", -1, fmt.Sprintf("two stores on one server, history %d round %d: store %d completed a poll without error (it overlapped the other store's poll by design) and still yields %q for %q; the server's active value is %q", h, round, si+1, got, n, want[n]), nil)
						bad = true
					}
				}
			}
			if bad {
				break
			}
		}
		r.Eval(1)
		r.Distinct("two stores, one server")
		a.Close()
		b.Close()
		hs.Close()
	}
}

// crowdAtTheEndOfARound: the service moves x from 1 to 2; a round fetches 2 and its reply is still on its way
// when the operator rolls x back to 1; just as that round ends, a crowd of further Refresh calls arrives. Some
// join the ending round, some start the next one - which runs entirely after the rollback: when every call has
// returned without error and a second round of requests was made, the store yields version 1.
func crowdAtTheEndOfARound(t *testing.T, r *evid.Run) {
	const crowd = 32
	ctx := context.Background()
	second := 0
	for trial, n := 0, r.N(1500, 15000); trial < n; trial++ {
		svc := fakesvc.New()
		svc.Set("x", 1, []byte("v1"))
		st, err := setec.NewStore(ctx, setec.StoreConfig{Client: svc, Secrets: []string{"x"}, PollInterval: -1, Logf: func(string, ...any) {}})
		if err != nil {
			t.Fatal(err)
		}
		arrived := make(chan struct{})
		gate := make(chan struct{})
		var first atomic.Bool
		svc.Behave = func(q *fakesvc.Req) fakesvc.Behaviour {
			if q.Cond && first.CompareAndSwap(false, true) {
				close(arrived)
				return fakesvc.Behaviour{Hold: gate, Snapshot: true} // the answer (version 2) is what the service held on arrival
			}
			return fakesvc.Behaviour{}
		}
		base := svc.NumRequests()
		svc.Set("x", 2, []byte("v2"))
		errs := make(chan error, crowd+1)
		go func() { errs <- st.Refresh(ctx) }()
		<-arrived
		svc.Set("x", 1, []byte("v1")) // rolled back while the reply is on its way
		start := make(chan struct{})
		var wg sync.WaitGroup
		for i := 0; i < crowd; i++ {
			wg.Add(1)
			go func() {
				defer wg.Done()
				<-start
				errs <- st.Refresh(ctx)
			}()
		}
		close(start)
		for i := 0; i < trial%64; i++ {
			runtime.Gosched()
		}
		close(gate)
		wg.Wait()
		failed := false
		for i := 0; i < crowd+1; i++ {
			if err := <-errs; err != nil {
				r.Violation("poll-fails", -1, fmt.Sprintf("crowd trial %d: Refresh: %v", trial, err), nil)
				failed = true
			}
		}
		rounds := svc.NumRequests() - base
		got := string(st.Secret("x").Get())
		st.Close()
		r.Eval(1)
		if failed {
			return
		}
		if rounds >= 2 {
			second++
			r.Count("second_rounds_after_a_rollback", 1)
			if got != "v1" {
				r.Violation("stale-after-successful-poll", -1, fmt.Sprintf("crowd trial %d: %d rounds of requests, every Refresh returned nil, the last %d round(s) ran entirely after the service had gone back to version 1 - yet the store yields %q (a round that asks about a version the store no longer holds is told 'not changed')", trial, rounds, rounds-1, got), nil)
				return
			}
		}
	}
	r.Distinct("crowd at the end of a round")
}

// stallCtx is a context without deadline whose first Deadline() call waits (a caller that is descheduled
// between looking at the store and asking the service).
type stallCtx struct {
	context.Context
	once    sync.Once
	reached chan struct{}
	release chan struct{}
}

func (c *stallCtx) Deadline() (time.Time, bool) {
	c.once.Do(func() { close(c.reached); <-c.release })
	return c.Context.Deadline()
}

// lateLookupReply: two lookups of one new name do not share a request (the second caller looked at the store
// before the first had installed the name, and asks the service after the first has finished); the second
// reply - carrying the version of when it was asked for - is slow on its way back while the service moves on
// and a poll completes. After that poll the store yields the new version, and keeps yielding it.
func lateLookupReply(t *testing.T, r *evid.Run) {
	for c, n := 0, r.N(10, 100); c < n; c++ {
		svc := fakesvc.New()
		svc.Set("known", 1, []byte("k"))
		svc.Set("x", 1, []byte("one"))
		cache := &fakesvc.MonCache{}
		st, err := setec.NewStore(context.Background(), setec.StoreConfig{Client: svc, Secrets: []string{"known"}, AllowLookup: true, Cache: cache, PollInterval: -1, Logf: func(string, ...any) {}})
		if err != nil {
			t.Fatal(err)
		}
		nreq := 0
		gate := make(chan struct{})
		svc.Behave = func(q *fakesvc.Req) fakesvc.Behaviour {
			if q.Name == "x" && !q.Cond {
				nreq++
				if nreq == 2 {
					return fakesvc.Behaviour{Hold: gate, Snapshot: true}
				}
			}
			return fakesvc.Behaviour{}
		}
		sc := &stallCtx{Context: context.Background(), reached: make(chan struct{}), release: make(chan struct{})}
		bdone := make(chan error, 1)
		go func() { _, err := st.LookupSecret(sc, "x"); bdone <- err }()
		<-sc.reached // B has seen that x is unknown and is about to ask
		if _, err := st.LookupSecret(context.Background(), "x"); err != nil {
			t.Fatal(err)
		}
		close(sc.release) // B asks now; its reply (version 1) is held on its way back
		for i := 0; i < 2000 && svc.NumRequests() < 3; i++ {
			time.Sleep(100 * time.Microsecond)
		}
		svc.Set("x", 2, []byte("two"))
		perr := st.Refresh(context.Background())
		close(gate)
		<-bdone
		r.Eval(1)
		r.Count("late_lookup_replies_after_a_poll", 1)
		got := string(st.Secret("x").Get())
		var doc map[string]struct {
			Secret *api.SecretValue `json:"secret"`
		}
		json.Unmarshal(cache.Last(), &doc)
		st.Close()
		if perr != nil {
			r.Violation("poll-fails", -1, perr.Error(), nil)
			return
		}
		if got != "two" || doc["x"].Secret == nil || doc["x"].Secret.Version != 2 {
			r.Violation("stale-after-successful-poll", -1, fmt.Sprintf("late-reply case %d: a poll completed after the service had activated version 2 of x; then the reply to an earlier lookup of x (version 1, asked for before the activation) arrived: the store yields %q and the cache holds %+v", c, got, doc["x"].Secret), nil)
			return
		}
	}
	r.Distinct("late lookup reply after a poll")
}

func newMux(t *testing.T, d interface{}) *muxT { return buildMux(t, d) }

var _ = server.ACLCap

type manualTicker struct{ ch chan time.Time }

func (m manualTicker) Chan() <-chan time.Time { return m.ch }
func (manualTicker) Stop()                    {}
func (manualTicker) Done()                    {}

// tickerOverlapCase: a poll started by the background ticker is still waiting for the service when the
// application calls Refresh. The two must be one round of requests; in particular no older round may
// finish last and put an older version back.
func tickerOverlapCase(t *testing.T, r *evid.Run, idx int) {
	rng := r.Rand(uint64(6_500_000 + idx))
	r.Eval(1)
	synctest.Test(t, func(t *testing.T) {
		svc := fakesvc.New()
		names := []string{"a", "b", "c"}[:1+rng.IntN(3)]
		for _, n := range names {
			svc.Set(n, 1, []byte(n+"1"))
		}
		gate := make(chan struct{})
		first := true
		svc.Behave = func(q *fakesvc.Req) fakesvc.Behaviour {
			if q.Cond && first {
				first = false
				return fakesvc.Behaviour{Hold: gate}
			}
			return fakesvc.Behaviour{}
		}
		tick := manualTicker{ch: make(chan time.Time)}
		st, err := setec.NewStore(context.Background(), setec.StoreConfig{Client: svc, Secrets: names, PollTicker: tick, Logf: func(string, ...any) {}})
		if err != nil {
			t.Fatalf("NewStore: %v", err)
		}
		defer st.Close()
		for _, n := range names {
			svc.Set(n, 2, []byte(n+"2"))
		}
		base := svc.NumRequests()
		tick.ch <- time.Now() // the background poll begins and parks on its first request
		synctest.Wait()
		done := make(chan error, 1)
		go func() { done <- st.Refresh(context.Background()) }()
		synctest.Wait() // the explicit refresh is now either joined to the poll in flight or parked behind it
		// the service moves on while the first round's held request is still outstanding
		for _, n := range names {
			svc.Set(n, 3, []byte(n+"3"))
		}
		close(gate)
		err = <-done
		synctest.Wait()
		nreq := svc.NumRequests() - base
		r.Count("ticker_overlap_cases", 1)
		r.Distinct(fmt.Sprintf("ticker-overlap names=%d", len(names)))
		if nreq != len(names) {
			r.Violation("refreshes-not-coalesced", idx, fmt.Sprintf("ticker-overlap case %d: a background poll and an overlapping Refresh over %d secrets caused %d requests (one round = %d)", idx, len(names), nreq, len(names)), map[string]any{"log": svc.Log()})
			return
		}
		if err != nil {
			r.Violation("coalesced-refresh-error", idx, fmt.Sprintf("ticker-overlap case %d: %v", idx, err), nil)
			return
		}
		// whatever was installed must be something the service had active during the round, and a further
		// poll must settle on version 3
		if err := st.Refresh(context.Background()); err != nil {
			r.Violation("clean-poll-fails", idx, err.Error(), nil)
			return
		}
		for _, n := range names {
			if got := string(st.Secret(n).Get()); got != n+"3" {
				r.Violation("no-convergence", idx, fmt.Sprintf("ticker-overlap case %d: %q yields %q after a clean poll, the service has %q", idx, n, got, n+"3"), nil)
			}
		}
	})
}

// cancelledLeaderCase: an explicit Refresh is in flight when the background tick arrives (the tick's poll joins
// that round), and then the explicit caller's context is CANCELLED: the shared round fails with that caller's
// cancellation. A failed poll, nothing more: the background poller goes on, and its next tick brings the store
// to the service's active version.
func cancelledLeaderCase(t *testing.T, r *evid.Run, idx int) {
	r.Eval(1)
	synctest.Test(t, func(t *testing.T) {
		svc := fakesvc.New()
		svc.Set("a", 1, []byte("a1"))
		gate := make(chan struct{})
		defer close(gate)
		first := true
		svc.Behave = func(q *fakesvc.Req) fakesvc.Behaviour {
			if q.Cond && first {
				first = false
				return fakesvc.Behaviour{Hold: gate}
			}
			return fakesvc.Behaviour{}
		}
		tick := manualTicker{ch: make(chan time.Time)}
		st, err := setec.NewStore(context.Background(), setec.StoreConfig{Client: svc, Secrets: []string{"a"}, PollTicker: tick, Logf: func(string, ...any) {}})
		if err != nil {
			t.Fatalf("NewStore: %v", err)
		}
		defer st.Close()
		ctx1, cancel1 := context.WithCancel(context.Background())
		done := make(chan error, 1)
		go func() { done <- st.Refresh(ctx1) }()
		synctest.Wait() // the explicit round is parked on its request
		tickOrder := idx%2 == 0
		if tickOrder {
			tick.ch <- time.Now() // the background poll joins the round in flight
			synctest.Wait()
		}
		cancel1()
		<-done
		synctest.Wait()
		svc.Set("a", 2, []byte("a2"))
		for k := 0; k < 2; k++ {
			select {
			case tick.ch <- time.Now():
			case <-time.After(10 * time.Minute):
				r.Violation("background-poller-gone", idx, fmt.Sprintf("cancelled-leader case %d: after a round that failed with an explicit caller's cancellation (the background tick had joined it: %t) the poller no longer takes ticks - 10 virtual minutes, nobody receives", idx, tickOrder), nil)
				return
			}
			synctest.Wait()
		}
		r.Count("rounds_failed_by_a_cancelled_explicit_caller", 1)
		r.Distinct(fmt.Sprintf("cancelled leader, tick joined=%t", tickOrder))
		if got := string(st.Secret("a").Get()); got != "a2" {
			r.Violation("no-convergence", idx, fmt.Sprintf("cancelled-leader case %d: two background ticks after the failed round the store yields %q, the service has a2", idx, got), nil)
		}
	})
}

// parkedCacheWrite: a lookup's cache write is slow; meanwhile a poll installs a new version of another
// secret and returns nil. Whatever order the writes are issued in, the cache must end up holding what
// the store serves ("and the cache holds the same").
func parkedCacheWrite(t *testing.T, r *evid.Run, idx int) {
	r.Eval(1)
	svc := fakesvc.New()
	svc.Set("alpha", 1, []byte("alpha-1"))
	svc.Set("late", 1, []byte("late-1"))
	release := make(chan struct{})
	parked := make(chan struct{}, 1)
	armed := false
	cache := &fakesvc.MonCache{}
	cache.OnWrite = func(n int, data []byte) {
		if armed {
			armed = false
			parked <- struct{}{}
			<-release
		}
	}
	st, err := setec.NewStore(context.Background(), setec.StoreConfig{Client: svc, Secrets: []string{"alpha"}, AllowLookup: true, Cache: cache, PollInterval: -1, Logf: func(string, ...any) {}})
	if err != nil {
		t.Fatal(err)
	}
	defer st.Close()
	armed = true
	l := make(chan error, 1)
	go func() { _, err := st.LookupSecret(context.Background(), "late"); l <- err }()
	select {
	case <-parked:
	case <-time.After(20 * time.Second):
		r.Inconclusive("parked cache write: the lookup's cache write never started")
		close(release)
		return
	}
	svc.Set("alpha", 2, []byte("alpha-2"))
	p := make(chan error, 1)
	go func() { p <- st.Refresh(context.Background()) }()
	var perr error
	select {
	case perr = <-p: // the poll got past the lookup's write (it cannot, if writes are ordered like installs)
	case <-time.After(30 * time.Millisecond):
		perr = nil
		p = nil
	}
	close(release)
	if err := <-l; err != nil {
		t.Fatal(err)
	}
	if p == nil {
		// the poll was still waiting; run it to completion now
		// (it is the goroutine started above; wait for it through a second refresh that joins or follows it)
		if err := st.Refresh(context.Background()); err != nil {
			perr = err
		}
	}
	if perr != nil {
		r.Violation("real-refresh-fails", -1, fmt.Sprintf("parked cache write %d: Refresh: %v", idx, perr), nil)
		return
	}
	r.Count("parked_cache_write_cases", 1)
	r.Distinct("parked-cache-write")
	got := string(st.Secret("alpha").Get())
	pl, err := payload(cache)
	if err != nil {
		r.Violation("cache-not-a-document", -1, err.Error(), nil)
		return
	}
	if got != "alpha-2" || pl["alpha"].Bytes != got || pl["alpha"].Version != 2 || pl["late"].Bytes != "late-1" {
		r.Violation("handle-and-cache-disagree", -1, fmt.Sprintf("parked cache write %d: after the poll returned nil the store serves %q for alpha but the cache holds %+v (late: %+v)", idx, got, pl["alpha"], pl["late"]), map[string]any{"cache": string(cache.Last())})
	}
}
