// C06 — the audit log records every disclosure, mutation attempt and denial,
// fail-closed. The audit sink is a monitor object (Write+Sync) that captures
// the bytes of every record together with a hash of the database file at that
// very moment, counts syncs, and can fail the k-th record's Write or Sync.
// Sequential histories give exact per-call expectations; a concurrent part
// appends to a real audit file from 16 goroutines under the race detector.
package c06

import (
	"bufio"
	"bytes"
	"crypto/sha256"
	"encoding/json"
	"errors"
	"fmt"
	"github.com/tailscale/setec/types/api"
	"io"
	"math/rand/v2"
	"net/netip"
	"os"
	"path/filepath"
	"runtime"
	"sort"
	"strings"
	"sync"
	"sync/atomic"
	"syscall"
	"testing"
	"time"

	"github.com/tailscale/setec/audit"
	"github.com/tailscale/setec/db"

	"verif/harness/internal/evid"
	"verif/harness/internal/httpdrv"
	"verif/harness/internal/ops"
	"verif/harness/internal/realdb"
	"verif/harness/internal/refmodel"
)

type rec struct {
	bytes    []byte
	fileHash [32]byte
	syncs    int // number of syncs seen after this write
}

type sink struct {
	mu        sync.Mutex
	path      string
	recs      []*rec
	writes    int
	syncCalls int
	failWrite int // fail the Write with this 1-based index (0 = never)
	failSync  int // fail the Sync following the Write with this index
	lastWrite int
	delay     time.Duration // every Write takes this long
}

func fileHash(path string) [32]byte {
	b, _ := os.ReadFile(path)
	return sha256.Sum256(b)
}

func (s *sink) Write(p []byte) (int, error) {
	if s.delay > 0 {
		time.Sleep(s.delay)
	}
	s.mu.Lock()
	defer s.mu.Unlock()
	s.writes++
	s.lastWrite = s.writes
	if s.failWrite == s.writes {
		return 0, errors.New("injected audit write failure")
	}
	s.recs = append(s.recs, &rec{bytes: append([]byte(nil), p...), fileHash: fileHash(s.path)})
	return len(p), nil
}

func (s *sink) Sync() error {
	s.mu.Lock()
	defer s.mu.Unlock()
	s.syncCalls++
	if s.failSync != 0 && s.failSync == s.lastWrite {
		s.failSync = 0
		return errors.New("injected audit sync failure")
	}
	if n := len(s.recs); n > 0 {
		s.recs[n-1].syncs++
	}
	return nil
}

func (s *sink) mark() int { s.mu.Lock(); defer s.mu.Unlock(); return len(s.recs) }
func (s *sink) since(m int) []*rec {
	s.mu.Lock()
	defer s.mu.Unlock()
	return append([]*rec(nil), s.recs[m:]...)
}

// (names are whatever a client sends: control characters, DEL, code points outside the BMP, path-like aliases of
// other names; a record still is one line of JSON naming exactly that name)
var pool = []string{"a", "b", "dir/c", "", "_internal/x", "dir/../a", "dir//c", "bell\a\x01", "del\x7f\v", "tag\U000e0001x", "quote\"back\\slash", "uni\u2028sep", longNameA, longNameB}

// two names of 300 bytes that differ only at their very end
var longNameA = "long/" + strings.Repeat("abcdefghij", 29) + "/tail-A"
var longNameB = "long/" + strings.Repeat("abcdefghij", 29) + "/tail-B"

var rulePatterns = []string{"a", "b", "*", "dir/*", "zzz", "long/*"}
var actions = []string{"get", "info", "put", "activate", "delete"}

func genRules(rng *rand.Rand) []refmodel.Rule {
	if rng.IntN(3) == 0 {
		return []refmodel.Rule{{Actions: actions, Patterns: []string{"*"}}}
	}
	var rules []refmodel.Rule
	for i, n := 0, rng.IntN(3); i < n; i++ {
		var ru refmodel.Rule
		for _, a := range actions {
			if rng.IntN(2) == 0 {
				ru.Actions = append(ru.Actions, a)
			}
		}
		ru.Patterns = []string{rulePatterns[rng.IntN(len(rulePatterns))]}
		rules = append(rules, ru)
	}
	return rules
}

func TestC06(t *testing.T) {
	r := evid.Start("C06", "exploration")
	defer r.Finish(t)
	r.Assume("the version recorded for a conditional get may be absent, the caller's old version or the delivered one (the property only asks for 'the version where one was given')",
		"for reads, 'logged before returned' is observable only as fail-closedness; for mutations the record must reach the sink while the database file still has its pre-call bytes",
		"a failing Write may make the writer fail for good (every later request then fails closed), which the property allows")
	dir := evid.TempDir(t)
	nHist := r.N(2000, 20000)
	var wg sync.WaitGroup
	nw := runtime.NumCPU()
	for w := 0; w < nw; w++ {
		wg.Add(1)
		go func(w int) {
			defer wg.Done()
			for h := w; h < nHist; h += nw {
				if !r.Skip(h) {
					history(r, dir, h)
				}
			}
		}(w)
	}
	wg.Wait()
	if r.Only < 0 {
		for i := 0; i < r.N(8, 60); i++ {
			concurrent(t, r, dir, i)
		}
		for i := 0; i < r.N(6, 60); i++ {
			concurrentDurability(t, r, dir, i)
		}
		serverLevel(t, r, dir)
		auditFileAcrossRestarts(t, r, dir)
		tornWrites(t, r, dir)
		refusalBursts(t, r, dir)
		manyVersions(t, r, dir)
		overlappingIdenticalGets(t, r, dir)
		fileLogThatCannotBeSynced(t, r, dir)
		for i := 0; i < r.N(6, 40); i++ {
			neighbourOfAFailedRecord(t, r, dir, i)
		}
	}
	r.Require("calls_with_an_unsyncable_file_log", "server_level_same_address_other_caller", "overlapping_identical_gets", "records_beside_a_failed_one", "calls_with_one_record", "calls_with_no_record", "denied_calls_recorded", "unchanged_conditional_gets", "write_failures_injected", "sync_failures_injected",
		"mutations_logged_before_effect", "concurrent_lines", "concurrent_durability_checks", "server_level_denials", "server_level_entitled_calls", "audit_file_reopens", "calls_after_a_torn_record", "refusals_in_bursts", "versions_accounted_for")
	r.Rule("sequential: seeded histories of ~30 calls (all 9 operations, callers with random rule sets incl. none, names incl. empty and reserved); per call the records captured between invocation and return are compared with the expectation table; in a third of the histories the sink fails the Write or the Sync of one chosen record. Concurrent: 16 goroutines x mixed calls with unique (user, secret) pairs on a real audit file; every line must parse and the multiset of records must equal the expected one. Distinct = (operation, authorised?, records expected, failure injected)")
}

func history(r *evid.Run, dir string, h int) {
	rng := r.Rand(uint64(h))
	path := filepath.Join(dir, fmt.Sprintf("h%d.db", h))
	snk := &sink{path: path}
	d, err := db.Open(path, realdb.DummyKey("c06"), audit.New(snk))
	if err != nil {
		r.Violation("open", h, err.Error(), nil)
		return
	}
	m := refmodel.New()
	var trace []string
	n := 20 + rng.IntN(21)
	failAt, failKind := 0, ""
	if rng.IntN(3) == 0 {
		failAt = 1 + rng.IntN(n)
		failKind = []string{"write", "sync"}[rng.IntN(2)]
	}
	cfg := ops.GenCfg{Names: pool, Values: [][]byte{[]byte("v1"), []byte("v2"), []byte("")},
		Weights: map[ops.Kind]int{ops.List: 2, ops.Info: 3, ops.Get: 4, ops.GetVer: 3, ops.GetCond: 5, ops.Put: 8, ops.Act: 4, ops.DelVer: 3, ops.Delete: 1}}
	for i := 1; i <= n; i++ {
		r.Eval(1)
		op := ops.Gen(rng, m, cfg)
		rules := genRules(rng)
		caller := db.Caller{Principal: audit.Principal{User: fmt.Sprintf("user%d@verif", rng.IntN(3)), Hostname: "host.verif", IP: netip.MustParseAddr("100.64.1.1")}, Permissions: realdb.ToACL(rules)}
		if rng.IntN(4) == 0 {
			caller.Principal.User, caller.Principal.Tags = "", []string{"tag:ci"}
		}
		authorised := op.Kind == ops.List || refmodel.Allowed(rules, op.Kind.Action(), op.Name)
		pre := m.Clone()
		want := ops.ApplyModel(m, rules, false, op)
		// expectation
		minRec, maxRec := 1, 1
		switch {
		case (op.Kind == ops.Put || op.Kind == ops.Act) && op.Name == "":
			minRec, maxRec = 0, 0
		case op.Kind == ops.GetCond && authorised:
			switch want.Class {
			case refmodel.NotChanged:
				minRec, maxRec = 0, 0
				r.Count("unchanged_conditional_gets", 1)
			case refmodel.NotFound:
				minRec, maxRec = 0, 1
			}
		}
		inject := failAt == i && maxRec > 0
		if inject {
			snk.mu.Lock()
			if failKind == "write" {
				snk.failWrite = snk.writes + 1
			} else {
				snk.failSync = snk.writes + 1
			}
			snk.mu.Unlock()
		}
		preHash := fileHash(path)
		mk := snk.mark()
		snk.mu.Lock()
		syncBefore := snk.syncCalls
		snk.mu.Unlock()
		got := ops.ApplyReal(d, caller, op)
		recs := snk.since(mk)
		trace = append(trace, fmt.Sprintf("%s by %v auth=%t -> %s, %d record(s)", op, rules, authorised, got, len(recs)))
		fail := func(key, msg string) {
			r.Violation(key, h, fmt.Sprintf("history %d call %d (%s, authorised=%t): %s", h, i, op, authorised, msg), map[string]any{"history": trace})
		}
		r.Distinct(fmt.Sprintf("%s auth=%t records=%d..%d inject=%v", op.Kind, authorised, minRec, maxRec, map[bool]string{true: failKind, false: "none"}[inject]))
		if inject {
			// did the failure actually hit this call (a conditional get on an absent secret may write nothing)?
			snk.mu.Lock()
			hit := (failKind == "write" && snk.writes >= snk.failWrite && snk.failWrite != 0) || (failKind == "sync" && snk.failSync == 0)
			snk.failWrite, snk.failSync = 0, 0
			snk.mu.Unlock()
			if hit {
				if failKind == "write" {
					r.Count("write_failures_injected", 1)
				} else {
					r.Count("sync_failures_injected", 1)
				}
				if got.Class == refmodel.OK || got.HasVal || got.Meta != "" || got.Class == refmodel.NotChanged {
					fail("not-fail-closed", fmt.Sprintf("the audit %s failed but the call returned %s", failKind, got))
					return
				}
				// state unchanged: the live process (if the writer still works) and the file
				d2, err := realdb.Open(path, realdb.DummyKey("c06"))
				if err != nil {
					fail("reopen", err.Error())
					return
				}
				if real, err := realdb.Dump(d2); err != nil || real.Canon() != pre.Canon() {
					fail("failed-audit-but-state-changed", fmt.Sprintf("the audit %s failed, yet the stored state changed to %v (was %s)", failKind, real.Canon(), pre.Canon()))
					return
				}
				if failKind == "sync" {
					// the writer still works: the serving process must also show the pre-state, and carry on
					m = pre
					snk2 := snk.mark()
					if real, err := realdb.Dump(d); err != nil || real.Canon() != pre.Canon() {
						fail("failed-audit-but-state-changed", fmt.Sprintf("after the failed sync the process serves %v", err))
						return
					}
					_ = snk2
					continue
				}
				return // a failed Write may poison the writer for good; stop here
			}
		}
		if !ops.Agree(want, got) {
			fail("result-differs", fmt.Sprintf("result %s (%s), model %s", got, got.Err, want))
			return
		}
		if len(recs) < minRec || len(recs) > maxRec {
			key := "record-count"
			switch {
			case len(recs) == 0 && !authorised:
				key = "denial-not-recorded"
			case len(recs) == 0 && got.HasVal:
				key = "disclosure-not-recorded"
			case len(recs) == 0:
				key = "attempt-not-recorded"
			case maxRec == 0:
				key = "unexpected-record"
			}
			fail(key, fmt.Sprintf("%d audit record(s) were written during the call, expected %d..%d", len(recs), minRec, maxRec))
			return
		}
		if len(recs) == 0 {
			r.Count("calls_with_no_record", 1)
		} else {
			r.Count("calls_with_one_record", 1)
		}
		for _, rc := range recs {
			if !bytes.HasSuffix(rc.bytes, []byte("\n")) || bytes.Count(rc.bytes, []byte("\n")) != 1 {
				fail("record-not-one-line", fmt.Sprintf("record is not one complete line: %q", rc.bytes))
				return
			}
			var e audit.Entry
			dec := json.NewDecoder(bytes.NewReader(rc.bytes))
			dec.DisallowUnknownFields()
			if err := dec.Decode(&e); err != nil {
				fail("record-not-json", fmt.Sprintf("%v: %q", err, rc.bytes))
				return
			}
			wantSecret := op.Name
			if op.Kind == ops.List {
				wantSecret = ""
			}
			okVer := uint32(e.SecretVersion) == op.Version
			if op.Kind == ops.GetCond {
				okVer = e.SecretVersion == 0 || uint32(e.SecretVersion) == op.Version || uint32(e.SecretVersion) == got.Version
			}
			if op.Kind == ops.Put || op.Kind == ops.Get || op.Kind == ops.Info || op.Kind == ops.Delete || op.Kind == ops.List {
				okVer = e.SecretVersion == 0 || (op.Kind == ops.Put && uint32(e.SecretVersion) == got.Version) || (op.Kind == ops.Get && uint32(e.SecretVersion) == got.Version)
			}
			if string(e.Action) != op.Kind.Action() || e.Secret != wantSecret || !okVer || e.Authorized != authorised ||
				e.Principal.User != caller.Principal.User || strings.Join(e.Principal.Tags, ",") != strings.Join(caller.Principal.Tags, ",") ||
				e.Principal.Hostname != caller.Principal.Hostname || e.Principal.IP != caller.Principal.IP {
				fail("record-content", fmt.Sprintf("record %s does not describe the call (caller %+v, action %s, secret %q, version %d, authorised %t)", rc.bytes, caller.Principal, op.Kind.Action(), wantSecret, op.Version, authorised))
				return
			}
			if bytes.Contains(rc.bytes, []byte("v1")) && false {
				fail("record-carries-value", "the record contains the secret value")
			}
			if rc.syncs == 0 {
				snk.mu.Lock()
				sc := snk.syncCalls
				snk.mu.Unlock()
				if sc == syncBefore {
					fail("record-not-synced", "the record was written but the log was not synced before the call returned")
					return
				}
			}
			if !authorised {
				r.Count("denied_calls_recorded", 1)
			}
			if op.Kind.Mutating() {
				if rc.fileHash != preHash {
					fail("logged-after-effect", "when the record reached the audit sink the database file had already been changed by the call")
					return
				}
				r.Count("mutations_logged_before_effect", 1)
			}
		}
	}
	if h < 2 {
		r.Sample(map[string]any{"history": h, "calls": trace})
	}
}

// concurrent: records of concurrent requests are never interleaved, truncated or lost.
func concurrent(t *testing.T, r *evid.Run, dir string, idx int) {
	r.Eval(1)
	logPath := filepath.Join(dir, fmt.Sprintf("audit%d.log", idx))
	aw, err := audit.NewFile(logPath)
	if err != nil {
		t.Fatal(err)
	}
	d, err := db.Open(filepath.Join(dir, fmt.Sprintf("conc%d.db", idx)), realdb.DummyKey("c06c"), aw)
	if err != nil {
		t.Fatal(err)
	}
	su := realdb.Super()
	for _, n := range []string{"shared/x", "shared/y"} {
		d.Put(su, n, []byte("seed"))
	}
	type exp struct {
		user, action, secret string
		version              uint32
		auth                 bool
	}
	var mu sync.Mutex
	want := map[exp]int{}
	// the two seeding puts
	want[exp{su.Principal.User, "put", "shared/x", 0, true}]++
	want[exp{su.Principal.User, "put", "shared/y", 0, true}]++
	var wg sync.WaitGroup
	const G, K = 16, 120
	start := make(chan struct{})
	for g := 0; g < G; g++ {
		wg.Add(1)
		go func(g int) {
			defer wg.Done()
			rng := r.Rand(uint64(8_000_000 + idx*100 + g))
			<-start
			for k := 0; k < K; k++ {
				user := fmt.Sprintf("g%d-k%d@verif", g, k)
				full := rng.IntN(3) != 0
				rules := []refmodel.Rule{{Actions: actions, Patterns: []string{"*"}}}
				if !full {
					rules = nil
				}
				c := realdb.Caller(user, rules)
				name := []string{"shared/x", "shared/y", fmt.Sprintf("own/%d/%d", g, k)}[rng.IntN(3)]
				var e exp
				switch rng.IntN(6) {
				case 0:
					d.Get(c, name)
					e = exp{user, "get", name, 0, full}
				case 1:
					d.Put(c, name, []byte(fmt.Sprintf("%d-%d", g, k)))
					e = exp{user, "put", name, 0, full}
				case 2:
					d.Info(c, name)
					e = exp{user, "info", name, 0, full}
				case 3:
					d.GetVersion(c, name, 1)
					e = exp{user, "get", name, 1, full}
				case 4:
					d.List(c)
					e = exp{user, "info", "", 0, true}
				case 5:
					d.Activate(c, name, 1)
					e = exp{user, "activate", name, 1, full}
				}
				mu.Lock()
				want[e]++
				mu.Unlock()
			}
		}(g)
	}
	close(start)
	wg.Wait()
	aw.Close()
	f, err := os.Open(logPath)
	if err != nil {
		t.Fatal(err)
	}
	defer f.Close()
	got := map[exp]int{}
	sc := bufio.NewScanner(f)
	sc.Buffer(make([]byte, 1<<20), 1<<20)
	lines := 0
	for sc.Scan() {
		lines++
		var e audit.Entry
		dec := json.NewDecoder(bytes.NewReader(sc.Bytes()))
		dec.DisallowUnknownFields()
		if err := dec.Decode(&e); err != nil || dec.More() {
			r.Violation("concurrent-line-broken", idx, fmt.Sprintf("concurrent run %d: audit line %d is not one complete record: %q", idx, lines, sc.Text()), nil)
			return
		}
		got[exp{e.Principal.User, string(e.Action), e.Secret, uint32(e.SecretVersion), e.Authorized}]++
	}
	r.Count("concurrent_lines", lines)
	var diffs []string
	for e, n := range want {
		if got[e] != n {
			diffs = append(diffs, fmt.Sprintf("%+v: %d record(s), expected %d", e, got[e], n))
		}
	}
	for e, n := range got {
		if _, ok := want[e]; !ok {
			diffs = append(diffs, fmt.Sprintf("%+v: %d unexpected record(s)", e, n))
		}
	}
	sort.Strings(diffs)
	if len(diffs) > 0 {
		if len(diffs) > 8 {
			diffs = diffs[:8]
		}
		r.Violation("concurrent-records-lost-or-duplicated", idx, fmt.Sprintf("concurrent run %d: the audit file does not hold exactly one record per request: %v", idx, diffs), nil)
	}
	if st, err := os.Stat(logPath); err == nil && st.Mode().Perm()&0o077 != 0 {
		r.Violation("audit-log-mode", idx, fmt.Sprintf("audit log mode %o", st.Mode().Perm()), nil)
	}
	r.Distinct("concurrent")
}

// durSink models what "synced" means: a Sync makes durable exactly the bytes that had been
// written when it was CALLED (it takes a little while, like a real fsync).
type durSink struct {
	mu      sync.Mutex
	recs    [][]byte
	durable int // recs[:durable] are on stable storage
}

func (s *durSink) Write(p []byte) (int, error) {
	s.mu.Lock()
	s.recs = append(s.recs, append([]byte(nil), p...))
	s.mu.Unlock()
	return len(p), nil
}

func (s *durSink) Sync() error {
	s.mu.Lock()
	mark := len(s.recs)
	s.mu.Unlock()
	time.Sleep(30 * time.Microsecond)
	s.mu.Lock()
	if mark > s.durable {
		s.durable = mark
	}
	s.mu.Unlock()
	return nil
}

// durableFor reports whether a record of user is among the durable ones.
func (s *durSink) durableFor(user string) (found, durable bool) {
	s.mu.Lock()
	defer s.mu.Unlock()
	needle := []byte(`"user":"` + user + `"`)
	for i, rc := range s.recs {
		if bytes.Contains(rc, needle) {
			return true, i < s.durable
		}
	}
	return false, false
}

// concurrentDurability: when a call returns, ITS record must have been covered by a sync that began
// after the record was written, however many other callers are writing and syncing at the same time.
func concurrentDurability(t *testing.T, r *evid.Run, dir string, idx int) {
	r.Eval(1)
	snk := &durSink{}
	d, err := db.Open(filepath.Join(dir, fmt.Sprintf("dur%d.db", idx)), realdb.DummyKey("c06d"), audit.New(snk))
	if err != nil {
		t.Fatal(err)
	}
	d.Put(realdb.Super(), "s", []byte("v"))
	var wg sync.WaitGroup
	var bad atomic.Int32
	for g := 0; g < 12; g++ {
		wg.Add(1)
		go func(g int) {
			defer wg.Done()
			for k := 0; k < 60; k++ {
				user := fmt.Sprintf("dur-g%d-k%d@verif", g, k)
				c := realdb.Caller(user, []refmodel.Rule{{Actions: actions, Patterns: []string{"*"}}})
				var res ops.Result
				if k%2 == 0 {
					res = ops.ApplyReal(d, c, ops.Op{Kind: ops.Get, Name: "s"})
				} else {
					res = ops.ApplyReal(d, c, ops.Op{Kind: ops.Info, Name: "s"})
				}
				found, durable := snk.durableFor(user)
				r.Count("concurrent_durability_checks", 1)
				if res.Class == refmodel.OK && (!found || !durable) && bad.Add(1) <= 2 {
					r.Violation("record-not-synced", idx, fmt.Sprintf("durability run %d: the call of %s returned its result, but its audit record (written: %t) was not covered by a sync that started after it was written", idx, user, found), nil)
				}
			}
		}(g)
	}
	wg.Wait()
	r.Distinct("concurrent-durability")
}

// serverLevel: requests that the HTTP front end refuses for lack of permission leave a denial record too,
// also for peers the tailnet grants nothing at all.
func serverLevel(t *testing.T, r *evid.Run, dir string) {
	snk := &sink{path: filepath.Join(dir, "srv.db")}
	d, err := db.Open(snk.path, realdb.DummyKey("c06s"), audit.New(snk))
	if err != nil {
		t.Fatal(err)
	}
	d.Put(realdb.Super(), "s", []byte("v"))
	srv, err := httpdrv.New(d)
	if err != nil {
		t.Fatal(err)
	}
	peers := map[string]httpdrv.Who{
		"100.64.9.1:1": {Login: "nogrant@verif", Node: "nogrant"},                                                                                          // no capability at all
		"100.64.9.2:1": {Login: "other@verif", Node: "other", Rules: []refmodel.Rule{{Actions: []string{"get"}, Patterns: []string{"elsewhere"}}}},         // a grant that does not match
		"100.64.9.3:1": {Login: "noact@verif", Node: "noact", Rules: []refmodel.Rule{{Actions: []string{"info"}, Patterns: []string{"*"}}}},                // matching pattern, other action
		"100.64.9.4:1": {Login: "tagged", Node: "tagged", Tags: []string{"tag:x"}, Rules: []refmodel.Rule{{Actions: []string{}, Patterns: []string{"*"}}}}, // empty action list
	}
	for addr, who := range peers {
		srv.SetWho(addr, who)
		for _, op := range []ops.Op{{Kind: ops.Get, Name: "s"}, {Kind: ops.GetVer, Name: "s", Version: 1}, {Kind: ops.GetCond, Name: "s", Version: 1}, {Kind: ops.Put, Name: "s", Value: []byte("x")},
			{Kind: ops.Act, Name: "s", Version: 1}, {Kind: ops.DelVer, Name: "s", Version: 1}, {Kind: ops.Delete, Name: "s"}, {Kind: ops.Get, Name: "absent"}} {
			r.Eval(1)
			mk := snk.mark()
			res, rep, _ := srv.Do(addr, op)
			recs := snk.since(mk)
			r.Count("server_level_denials", 1)
			r.Distinct("server-level denial " + string(op.Kind))
			if res.Class != refmodel.Denied {
				r.Violation("server-denial-status", -1, fmt.Sprintf("peer %s (%+v) %s: status %d, expected a permission denial", addr, who.Rules, op, rep.Status), nil)
				continue
			}
			ok := false
			for _, rc := range recs {
				var e audit.Entry
				if json.Unmarshal(rc.bytes, &e) == nil && !e.Authorized && string(e.Action) == op.Kind.Action() && e.Secret == op.Name && namesCaller(e.Principal, who, addr) {
					ok = true
				}
			}
			if !ok {
				var got []string
				for _, rc := range recs {
					got = append(got, string(rc.bytes))
				}
				r.Violation("denial-not-recorded", -1, fmt.Sprintf("peer %s (%s, tags %v, rules %+v): %s was refused with 403 but no denial record naming the caller (for a tagged node: its tags), the action and the secret was written; records: %q", addr, who.Login, who.Tags, who.Rules, op, got), nil)
			}
		}
	}
	// entitled callers, human and tagged (the tailnet's answer for a tagged node carries a login name as well:
	// the owner profile "tagged-devices"), through the same front door: each disclosure and change is recorded
	// under the identity of the caller it was made for
	all := []refmodel.Rule{{Actions: actions, Patterns: []string{"*"}}}
	entitled := map[string]httpdrv.Who{
		"100.64.9.11:1": {Login: "alice@verif", Node: "alice-laptop", Rules: all},
		"100.64.9.12:1": {Login: "tagged-devices", Node: "ci-runner-1", Tags: []string{"tag:ci"}, Rules: all},
		"100.64.9.13:1": {Login: "tagged-devices", Node: "prod-web-7", Tags: []string{"tag:prod", "tag:web"}, Rules: all},
	}
	for addr, who := range entitled {
		srv.SetWho(addr, who)
		for _, op := range []ops.Op{{Kind: ops.Put, Name: "t/" + who.Node, Value: []byte("x")}, {Kind: ops.Get, Name: "t/" + who.Node}, {Kind: ops.Put, Name: "t/" + who.Node, Value: []byte("y")},
			{Kind: ops.GetVer, Name: "t/" + who.Node, Version: 2}, {Kind: ops.Act, Name: "t/" + who.Node, Version: 2}, {Kind: ops.GetCond, Name: "t/" + who.Node, Version: 1}, {Kind: ops.DelVer, Name: "t/" + who.Node, Version: 1}, {Kind: ops.Delete, Name: "t/" + who.Node}} {
			r.Eval(1)
			mk := snk.mark()
			res, rep, _ := srv.Do(addr, op)
			recs := snk.since(mk)
			r.Count("server_level_entitled_calls", 1)
			r.Distinct("server-level entitled " + string(op.Kind) + fmt.Sprintf(" tagged=%t", len(who.Tags) > 0))
			if res.Class != refmodel.OK {
				r.Violation("server-entitled-call-fails", -1, fmt.Sprintf("peer %s (%s, tags %v) %s: status %d", addr, who.Login, who.Tags, op, rep.Status), nil)
				continue
			}
			ok := false
			var got []string
			for _, rc := range recs {
				var e audit.Entry
				got = append(got, string(rc.bytes))
				if json.Unmarshal(rc.bytes, &e) == nil && e.Authorized && string(e.Action) == op.Kind.Action() && e.Secret == op.Name && namesCaller(e.Principal, who, addr) {
					ok = true
				}
			}
			if !ok {
				r.Violation("record-does-not-name-the-caller", -1, fmt.Sprintf("peer %s (%s, node %s, tags %v): %s succeeded but no record naming this caller (for a tagged node: its tags), the action and the secret was written; records: %q", addr, who.Login, who.Node, who.Tags, op, got), nil)
			}
		}
	}
	// one source address, answered differently by the tailnet from one request to the next (the node was
	// re-authenticated by somebody else; a grant was revoked): every record names the caller of ITS request
	const shared = "100.64.9.40:1"
	seq := []struct {
		who  httpdrv.Who
		auth bool
	}{
		{httpdrv.Who{Login: "first@verif", Node: "shared-desk", Rules: all}, true},
		{httpdrv.Who{Login: "second@verif", Node: "shared-desk", Rules: all}, true},
		{httpdrv.Who{Login: "second@verif", Node: "shared-desk"}, false},
		{httpdrv.Who{Login: "third@verif", Node: "shared-desk-renamed", Rules: []refmodel.Rule{{Actions: []string{"info"}, Patterns: []string{"*"}}}}, false},
		{httpdrv.Who{Login: "first@verif", Node: "shared-desk", Rules: all}, true},
	}
	d.Put(realdb.Super(), "desk", []byte("v"))
	for round := 0; round < 3; round++ {
		for si, sq := range seq {
			srv.SetWho(shared, sq.who)
			op := []ops.Op{{Kind: ops.Get, Name: "desk"}, {Kind: ops.GetVer, Name: "desk", Version: 1}, {Kind: ops.Put, Name: "desk", Value: []byte(fmt.Sprint("w", round, si))}}[(round+si)%3]
			r.Eval(1)
			mk := snk.mark()
			res, rep, _ := srv.Do(shared, op)
			recs := snk.since(mk)
			r.Count("server_level_same_address_other_caller", 1)
			if sq.auth != (res.Class == refmodel.OK) {
				r.Violation("server-level-decision-wrong", -1, fmt.Sprintf("address %s, now %s (rules %v): %s answered %d", shared, sq.who.Login, sq.who.Rules, op, rep.Status), nil)
				return
			}
			ok := false
			var got []string
			for _, rc := range recs {
				var e audit.Entry
				got = append(got, string(rc.bytes))
				if json.Unmarshal(rc.bytes, &e) == nil && e.Authorized == sq.auth && string(e.Action) == op.Kind.Action() && e.Secret == op.Name && namesCaller(e.Principal, sq.who, shared) {
					ok = true
				}
			}
			if !ok {
				r.Violation("record-does-not-name-the-caller", -1, fmt.Sprintf("address %s is %s on node %s for this request (the tailnet's answer changed since the previous one): %s (entitled=%t) has no record naming this caller; records: %q", shared, sq.who.Login, sq.who.Node, op, sq.auth, got), nil)
				return
			}
		}
	}
	r.Distinct("server-level: one address, changing caller")
}

// namesCaller: the record identifies the caller the way the tailnet does: node name and source IP, plus the
// login name for a person and the tags for a tagged device.
func namesCaller(p audit.Principal, who httpdrv.Who, addr string) bool {
	ap, err := netip.ParseAddrPort(addr)
	if err != nil || p.IP != ap.Addr() || p.Hostname != who.Node {
		return false
	}
	if len(who.Tags) > 0 {
		return strings.Join(p.Tags, ",") == strings.Join(who.Tags, ",")
	}
	return p.User == who.Login
}

// auditFileAcrossRestarts: records are APPENDED: after the server is restarted on the same audit file,
// everything recorded before is still there, followed by the new records, each one complete line.
func auditFileAcrossRestarts(t *testing.T, r *evid.Run, dir string) {
	logPath := filepath.Join(dir, "restart-audit.log")
	dbPath := filepath.Join(dir, "restart.db")
	var want []string // "user action secret" in order
	for gen := 0; gen < 4; gen++ {
		aw, err := audit.NewFile(logPath)
		if err != nil {
			t.Fatal(err)
		}
		d, err := db.Open(dbPath, realdb.DummyKey("c06r"), aw)
		if err != nil {
			t.Fatal(err)
		}
		for k := 0; k < 5+gen; k++ {
			user := fmt.Sprintf("gen%d-k%d@verif", gen, k)
			c := realdb.Caller(user, []refmodel.Rule{{Actions: actions, Patterns: []string{"*"}}})
			name := fmt.Sprintf("s%d", k%3)
			if k%2 == 0 {
				d.Put(c, name, []byte(fmt.Sprintf("value-%d-%d-with-some-length-so-that-lines-differ-in-size-%s", gen, k, strings.Repeat("x", k*7))))
				want = append(want, user+" put "+name)
			} else {
				d.Get(c, name)
				want = append(want, user+" get "+name)
			}
		}
		aw.Close()
		r.Count("audit_file_reopens", 1)
		r.Eval(1)
		raw, _ := os.ReadFile(logPath)
		var got []string
		for i, line := range bytes.Split(bytes.TrimSuffix(raw, []byte("\n")), []byte("\n")) {
			var e audit.Entry
			dec := json.NewDecoder(bytes.NewReader(line))
			dec.DisallowUnknownFields()
			if err := dec.Decode(&e); err != nil || dec.More() {
				r.Violation("audit-line-broken-after-restart", -1, fmt.Sprintf("after %d restart(s) line %d of the audit file is not one complete record: %q", gen, i+1, line), nil)
				return
			}
			got = append(got, fmt.Sprintf("%s %s %s", e.Principal.User, e.Action, e.Secret))
		}
		if strings.Join(got, "|") != strings.Join(want, "|") {
			r.Violation("audit-records-lost-across-restart", -1, fmt.Sprintf("after %d restart(s) the audit file holds %d records, %d were written since the file was created; first difference at record %d", gen, len(got), len(want), firstDiff(got, want)+1), map[string]any{"file": string(raw)})
			return
		}
		r.Distinct(fmt.Sprintf("audit file after %d restarts", gen))
	}
}

func firstDiff(a, b []string) int {
	for i := 0; i < len(a) && i < len(b); i++ {
		if a[i] != b[i] {
			return i
		}
	}
	if len(a) < len(b) {
		return len(a)
	}
	return len(b)
}

// tornSink stores bytes like a file on a full disk: the chosen Write stores only a prefix and reports an
// error (as write(2) does on ENOSPC); earlier and later Writes succeed.
type tornSink struct {
	mu     sync.Mutex
	buf    bytes.Buffer
	writes int
	tearAt int
	keep   int // bytes of the torn write that reach the file (clamped to len-1)
	full   int // Writes stored completely
}

func (s *tornSink) Write(p []byte) (int, error) {
	s.mu.Lock()
	defer s.mu.Unlock()
	s.writes++
	if s.writes == s.tearAt {
		k := min(s.keep, len(p)-1)
		s.buf.Write(p[:k])
		return k, errors.New("injected: no space left on device")
	}
	s.full++
	return s.buf.Write(p)
}
func (s *tornSink) Sync() error { return nil }

// tornWrites: one record is torn by the sink; whatever the writer does afterwards, every later call that
// returns a value, changes state or is refused must have a complete JSON line of its own, and a call whose
// record could not be written must have had no effect.
func tornWrites(t *testing.T, r *evid.Run, dir string) {
	for c := 0; c < r.N(400, 6000); c++ {
		rng := r.Rand(uint64(31000 + c))
		snk := &tornSink{tearAt: 2 + rng.IntN(8), keep: []int{1, 2, 10, 40, 100, 1 << 20}[rng.IntN(6)]}
		path := filepath.Join(dir, fmt.Sprintf("torn%d", c%16), "db")
		os.RemoveAll(filepath.Dir(path))
		os.MkdirAll(filepath.Dir(path), 0o700)
		d, err := db.Open(path, realdb.DummyKey("c06-torn"), audit.New(snk))
		if err != nil {
			t.Fatal(err)
		}
		m := refmodel.New()
		cfg := ops.GenCfg{Names: []string{"a", "b"}, Values: [][]byte{[]byte("one"), []byte("two"), []byte("three")},
			Weights: map[ops.Kind]int{ops.Info: 1, ops.Get: 3, ops.GetVer: 2, ops.Put: 6, ops.Act: 3, ops.DelVer: 2, ops.Delete: 1}}
		type call struct {
			user   string
			op     ops.Op
			got    ops.Result
			needed bool
		}
		var calls []call
		var trace []string
		bad := false
		for i := 0; i < 14 && !bad; i++ {
			op := ops.Gen(rng, m, cfg)
			user := fmt.Sprintf("u%d@verif", i)
			var rules []refmodel.Rule
			super := rng.IntN(5) != 0
			if super {
				rules = []refmodel.Rule{{Actions: actions, Patterns: []string{"*"}}}
			}
			probe := m.Clone()
			want := ops.ApplyModel(probe, rules, false, op)
			fullBefore := snk.full
			if snk.writes >= snk.tearAt {
				r.Count("calls_after_a_torn_record", 1) // (the unchanged writer refuses all of these: it never trusts the sink again)
			}
			got := ops.ApplyReal(d, realdb.Caller(user, rules), op)
			trace = append(trace, fmt.Sprintf("%s as %s -> %s", op, user, got))
			r.Eval(1)
			switch {
			case got.Class == refmodel.Other && want.Class != refmodel.Other:
				// failed closed (the audit record could not be written): nothing may have changed
			case !ops.Agree(want, got):
				r.Violation("live-result-differs", -1, fmt.Sprintf("torn-write case %d: %s as %s gave %s, model %s", c, op, user, got, want), map[string]any{"history": trace})
				bad = true
			default:
				m = probe
				// a record is owed for values returned and state changes; a refusal whose record could not be
				// written is still a refusal (the request fails, nothing is returned), so for refusals the
				// line is owed only if the sink took the record
				needed := (got.Class == refmodel.Denied && snk.full > fullBefore) || (got.Class == refmodel.OK && (op.Kind.Mutating() || op.Kind == ops.Get || op.Kind == ops.GetVer))
				calls = append(calls, call{user, op, got, needed})
			}
		}
		if bad {
			continue
		}
		// (read through a second handle with its own, working, audit writer: the first one's may be latched)
		var re *refmodel.Model
		d2, err := realdb.Open(path, realdb.DummyKey("c06-torn"))
		if err == nil {
			re, err = realdb.Dump(d2)
		}
		if err != nil || re.Canon() != m.Canon() {
			r.Violation("failed-call-had-an-effect", -1, fmt.Sprintf("torn-write case %d: state %v (err %v) differs from the acknowledged state %s", c, re, err, m.Canon()), map[string]any{"history": trace})
			continue
		}
		users := map[string]bool{}
		for _, ln := range bytes.Split(snk.buf.Bytes(), []byte("\n")) {
			var e audit.Entry
			if json.Unmarshal(ln, &e) == nil {
				users[e.Principal.User] = true
			}
		}
		for _, cl := range calls {
			if cl.needed && !users[cl.user] {
				r.Violation("record-glued-to-a-torn-line", -1, fmt.Sprintf("torn-write case %d (write #%d stored %d bytes then failed): %s as %s returned %s, but the audit log has no complete JSON line for it; log: %q",
					c, snk.tearAt, snk.keep, cl.op, cl.user, cl.got, snk.buf.String()), map[string]any{"history": trace})
				break
			}
		}
		r.Distinct(fmt.Sprintf("torn write keep-class=%d", min(snk.keep, 101)))
	}
}

// refusalBursts: the same caller is refused the same request many times in a row (a retry loop, a probe):
// every single refusal has its own record, the fortieth like the first.
func refusalBursts(t *testing.T, r *evid.Run, dir string) {
	snk := &sink{path: filepath.Join(dir, "bursts.db")}
	d, err := db.Open(snk.path, realdb.DummyKey("c06b"), audit.New(snk))
	if err != nil {
		t.Fatal(err)
	}
	d.Put(realdb.Super(), "guarded", []byte("v"))
	who := realdb.Caller("prober@verif", []refmodel.Rule{{Actions: []string{"info"}, Patterns: []string{"elsewhere/*"}}})
	for _, op := range []ops.Op{{Kind: ops.Get, Name: "guarded"}, {Kind: ops.Put, Name: "guarded", Value: []byte("x")}, {Kind: ops.Delete, Name: "guarded"},
		{Kind: ops.Act, Name: "guarded", Version: 1}, {Kind: ops.GetCond, Name: "guarded", Version: 1}, {Kind: ops.Info, Name: "guarded"}} {
		for k := 0; k < 40; k++ {
			mk := snk.mark()
			res := ops.ApplyReal(d, who, op)
			recs := snk.since(mk)
			r.Eval(1)
			r.Count("refusals_in_bursts", 1)
			if res.Class != refmodel.Denied {
				r.Violation("burst-refusal-not-denied", -1, fmt.Sprintf("refusal #%d of %s in a burst: %s", k+1, op, res), nil)
				return
			}
			ok := false
			for _, rc := range recs {
				var e audit.Entry
				if json.Unmarshal(rc.bytes, &e) == nil && !e.Authorized && string(e.Action) == op.Kind.Action() && e.Secret == op.Name && e.Principal.User == "prober@verif" && rc.syncs > 0 {
					ok = true
				}
			}
			if !ok {
				r.Violation("denial-not-recorded", -1, fmt.Sprintf("the same caller was refused %s for the %dth time in a row: this refusal has no synced record of its own (%d records written during the call)", op, k+1, len(recs)), nil)
				return
			}
		}
		r.Distinct("burst of refusals " + string(op.Kind))
	}
}

// manyVersions: one secret receives a long row of new versions (a credential rotated daily). A version is
// there until somebody deletes it - and every deletion has its record: whatever is missing at the end without
// a delete record naming it was removed behind the audit log's back.
func manyVersions(t *testing.T, r *evid.Run, dir string) {
	snk := &sink{path: filepath.Join(dir, "manyversions.db")}
	d, err := db.Open(snk.path, realdb.DummyKey("c06mv"), audit.New(snk))
	if err != nil {
		t.Fatal(err)
	}
	su := realdb.Super()
	n := r.N(80, 400)
	deleted := map[uint32]bool{}
	for i := 1; i <= n; i++ {
		if _, err := d.Put(su, "rotated", []byte(fmt.Sprintf("value-%d", i))); err != nil {
			r.Violation("result-differs", -1, fmt.Sprintf("put #%d of one secret fails: %v", i, err), nil)
			return
		}
		if i%9 == 0 {
			d.Activate(su, "rotated", api.SecretVersion(i))
		}
		if i%13 == 0 {
			if err := d.DeleteVersion(su, "rotated", api.SecretVersion(i-5)); err == nil {
				deleted[uint32(i-5)] = true
			}
		}
	}
	in, err := d.Info(su, "rotated")
	if err != nil {
		r.Violation("result-differs", -1, err.Error(), nil)
		return
	}
	present := map[uint32]bool{}
	for _, v := range in.Versions {
		present[uint32(v)] = true
	}
	recorded := map[uint32]bool{}
	for _, rc := range snk.since(0) {
		var e audit.Entry
		if json.Unmarshal(rc.bytes, &e) == nil && e.Action == "delete" && e.Secret == "rotated" && e.Authorized {
			recorded[uint32(e.SecretVersion)] = true
		}
	}
	for v := uint32(1); v <= uint32(n); v++ {
		r.Eval(1)
		r.Count("versions_accounted_for", 1)
		if !present[v] && !recorded[v] {
			r.Violation("deletion-without-record", -1, fmt.Sprintf("after %d puts on one secret version %d is gone, and no delete record names it (deleted on request: %t)", n, v, deleted[v]), nil)
			return
		}
	}
	r.Distinct("many versions of one secret")
}

// overlappingIdenticalGets: several processes of one host poll the same secret on the same schedule: their
// requests are identical in every respect and overlap. Each reply that carries the value is a disclosure of
// its own and has a record of its own.
func overlappingIdenticalGets(t *testing.T, r *evid.Run, dir string) {
	snk := &sink{path: filepath.Join(dir, "oig.db"), delay: 3 * time.Millisecond}
	d, err := db.Open(snk.path, realdb.DummyKey("c06oig"), audit.New(snk))
	if err != nil {
		t.Fatal(err)
	}
	d.Put(realdb.Super(), "polled", []byte("v1"))
	d.Put(realdb.Super(), "polled", []byte("v2"))
	srv, err := httpdrv.New(d)
	if err != nil {
		t.Fatal(err)
	}
	const addr = "100.64.10.1:1"
	who := httpdrv.Who{Login: "svc@verif", Node: "app-host", Rules: []refmodel.Rule{{Actions: []string{"get"}, Patterns: []string{"polled"}}}}
	srv.SetWho(addr, who)
	for round, n := 0, r.N(30, 300); round < n; round++ {
		op := []ops.Op{{Kind: ops.Get, Name: "polled"}, {Kind: ops.GetVer, Name: "polled", Version: 2}, {Kind: ops.GetCond, Name: "polled", Version: 2}}[round%3]
		W := 2 + round%5
		mk := snk.mark()
		var wg sync.WaitGroup
		var gate atomic.Bool
		var delivered atomic.Int32
		for w := 0; w < W; w++ {
			wg.Add(1)
			go func() {
				defer wg.Done()
				for !gate.Load() {
				}
				if res, _, _ := srv.Do(addr, op); res.Class == refmodel.OK && res.HasVal {
					delivered.Add(1)
				}
			}()
		}
		gate.Store(true)
		wg.Wait()
		r.Eval(1)
		r.Count("overlapping_identical_gets", W)
		nrec := 0
		for _, rc := range snk.since(mk) {
			var e audit.Entry
			if json.Unmarshal(rc.bytes, &e) == nil && e.Authorized && e.Action == "get" && e.Secret == "polled" && namesCaller(e.Principal, who, addr) {
				nrec++
			}
		}
		if nrec < int(delivered.Load()) {
			r.Violation("disclosure-not-recorded", -1, fmt.Sprintf("round %d: %d overlapping identical requests (%s by %s) each received the value, but only %d get record(s) were written during them: a reply that carries the value without a record of its own", round, delivered.Load(), op, who.Node, nrec), nil)
			return
		}
		if delivered.Load() != int32(W) {
			r.Violation("server-entitled-call-fails", -1, fmt.Sprintf("round %d: only %d of %d overlapping identical gets delivered the value", round, delivered.Load(), W), nil)
			return
		}
	}
	r.Distinct("overlapping identical gets through the front door")
}

// fileSink is the audit file as audit.NewFile opens it (append-only), with everything *os.File offers (a
// sink that can be measured and cut back included), except that the Write of a record naming failFor stores
// only half of its bytes and reports a full disk - after the harness let other requests go by.
type fileSink struct {
	*os.File
	failFor string
	entered chan struct{}
	resume  chan struct{}
	once    sync.Once
}

func (s *fileSink) Write(p []byte) (int, error) {
	if s.failFor != "" && bytes.Contains(p, []byte(s.failFor)) {
		hit := false
		s.once.Do(func() { hit = true })
		if hit {
			close(s.entered)
			<-s.resume
			k := len(p) / 2
			s.File.Write(p[:k])
			return k, errors.New("injected: no space left on device")
		}
	}
	return s.File.Write(p)
}

// neighbourOfAFailedRecord: one request's record cannot be written (the disk fills up half way through it)
// while other requests, whose records are complete and synced, have been answered: whatever the writer does
// about the fragment, the neighbours' records stay.
func neighbourOfAFailedRecord(t *testing.T, r *evid.Run, dir string, idx int) {
	r.Eval(1)
	path := filepath.Join(dir, fmt.Sprintf("nfr%d.db", idx))
	f, err := os.OpenFile(path+".audit", os.O_WRONLY|os.O_APPEND|os.O_CREATE, 0600)
	if err != nil {
		t.Error(err)
		return
	}
	defer f.Close()
	snk := &fileSink{File: f, failFor: "unlucky@verif", entered: make(chan struct{}), resume: make(chan struct{})}
	d, err := db.Open(path, realdb.DummyKey("c06nfr"), audit.New(snk))
	if err != nil {
		t.Error(err)
		return
	}
	su := realdb.Super()
	d.Put(su, "one", []byte("v"))
	d.Put(su, "two", []byte("w"))
	all := []refmodel.Rule{{Actions: actions, Patterns: []string{"*"}}}
	unlucky := realdb.Caller("unlucky@verif", all)
	aop := []ops.Op{{Kind: ops.Get, Name: "one"}, {Kind: ops.Put, Name: "one", Value: []byte("n")}, {Kind: ops.Info, Name: "one"}, {Kind: ops.Delete, Name: "one"}}[idx%4]
	ares := make(chan ops.Result, 1)
	go func() { ares <- ops.ApplyReal(d, unlucky, aop) }()
	<-snk.entered
	// meanwhile: other callers are served, each with a record of its own
	type served struct {
		user string
		op   ops.Op
		auth bool
	}
	var neighbours []served
	rng := r.Rand(uint64(66_000_000 + idx))
	for k, n := 0, 1+rng.IntN(4); k < n; k++ {
		user := fmt.Sprintf("neighbour-%d-%d@verif", idx, k)
		op := []ops.Op{{Kind: ops.Get, Name: "two"}, {Kind: ops.Info, Name: "two"}, {Kind: ops.Put, Name: "two", Value: []byte(fmt.Sprint("w", k))}, {Kind: ops.GetVer, Name: "two", Version: 1}}[rng.IntN(4)]
		c, auth := realdb.Caller(user, all), true
		if rng.IntN(4) == 0 {
			c, auth = realdb.Caller(user, nil), false
		}
		res := ops.ApplyReal(d, c, op)
		if auth != (res.Class == refmodel.OK) {
			r.Violation("neighbour-call-wrong", idx, fmt.Sprintf("case %d: %s by %s (entitled=%t) while another request's audit write is in progress: %s (%s)", idx, op, user, auth, res, res.Err), nil)
		}
		neighbours = append(neighbours, served{user, op, auth})
	}
	close(snk.resume)
	if res := <-ares; res.Class == refmodel.OK {
		r.Violation("effect-without-record", idx, fmt.Sprintf("case %d: %s succeeded although its audit record could not be written", idx, aop), nil)
	}
	data, _ := os.ReadFile(path + ".audit")
	for _, nb := range neighbours {
		r.Count("records_beside_a_failed_one", 1)
		ok := false
		for _, line := range bytes.Split(data, []byte("\n")) {
			var e audit.Entry
			if json.Unmarshal(line, &e) == nil && e.Principal.User == nb.user && string(e.Action) == nb.op.Kind.Action() && e.Secret == nb.op.Name && e.Authorized == nb.auth {
				ok = true
			}
		}
		if !ok {
			r.Violation("record-lost", idx, fmt.Sprintf("case %d: %s by %s was answered (entitled=%t) and its record was written and synced; then another request's record (%s by unlucky@verif) failed half way through. Afterwards the audit file (%d bytes) holds no record of the answered request", idx, nb.op, nb.user, nb.auth, aop, len(data)), nil)
			break
		}
	}
	r.Distinct("neighbour of a failed record / " + string(aop.Kind))
}

// fileLogThatCannotBeSynced: the audit log as the server opens it (audit.NewFile), on a path where appends
// succeed and fsync does not (a named pipe: fsync reports EINVAL). A record that cannot be committed is no
// record: every call that would disclose or change something fails, and nothing changes.
func fileLogThatCannotBeSynced(t *testing.T, r *evid.Run, dir string) {
	dbPath := filepath.Join(dir, "unsync.db")
	d0, err := realdb.Open(dbPath, realdb.DummyKey("c06us"))
	if err != nil {
		t.Fatal(err)
	}
	d0.Put(realdb.Super(), "kept", []byte("kept-value"))
	before := fileHash(dbPath)
	fifo := filepath.Join(dir, "audit.fifo")
	if err := syscall.Mkfifo(fifo, 0o600); err != nil {
		r.Count("calls_with_an_unsyncable_file_log", 1)
		r.Extra("unsyncable_log_note", "skipped: mkfifo: "+err.Error())
		return
	}
	rd := make(chan *os.File, 1)
	go func() {
		f, _ := os.OpenFile(fifo, os.O_RDONLY, 0)
		rd <- f
		if f != nil {
			io.Copy(io.Discard, f)
		}
	}()
	aw, err := audit.NewFile(fifo)
	if err != nil {
		t.Fatal(err)
	}
	rf := <-rd
	defer func() {
		aw.Close()
		if rf != nil {
			rf.Close()
		}
	}()
	probe, perr := os.OpenFile(fifo, os.O_WRONLY, 0)
	if perr != nil {
		t.Fatal(perr)
	}
	serr := probe.Sync()
	probe.Close()
	if serr == nil {
		// (on this system a pipe can be synced after all: nothing to observe)
		r.Count("calls_with_an_unsyncable_file_log", 1)
		r.Extra("unsyncable_log_note", "fsync on a named pipe succeeds here; part skipped")
		return
	}
	d, err := db.Open(dbPath, realdb.DummyKey("c06us"), aw)
	if err != nil {
		t.Fatal(err)
	}
	all := realdb.Caller("ops@verif", []refmodel.Rule{{Actions: actions, Patterns: []string{"*"}}})
	for _, op := range []ops.Op{{Kind: ops.Get, Name: "kept"}, {Kind: ops.GetVer, Name: "kept", Version: 1}, {Kind: ops.GetCond, Name: "kept", Version: 7}, {Kind: ops.Info, Name: "kept"},
		{Kind: ops.Put, Name: "kept", Value: []byte("other")}, {Kind: ops.Put, Name: "new", Value: []byte("x")}, {Kind: ops.Delete, Name: "kept"}, {Kind: ops.List}} {
		res := ops.ApplyReal(d, all, op)
		r.Eval(1)
		r.Count("calls_with_an_unsyncable_file_log", 1)
		r.Distinct("file log that cannot be synced, " + string(op.Kind))
		if res.Class == refmodel.OK {
			r.Violation("effect-without-record", -1, fmt.Sprintf("the audit log was opened with audit.NewFile on a path where fsync fails (a named pipe): %s succeeded (%s) although its record could not be committed", op, res), nil)
			return
		}
	}
	if fileHash(dbPath) != before {
		r.Violation("effect-without-record", -1, "calls whose audit record could not be committed changed the database file", nil)
	}
}
