module verif/harness

go 1.26.8

require (
	github.com/anishathalye/porcupine v1.3.0
	github.com/aws/aws-sdk-go-v2 v1.36.0
	github.com/aws/aws-sdk-go-v2/credentials v1.17.58
	github.com/aws/aws-sdk-go-v2/service/s3 v1.75.3
	github.com/tailscale/setec v0.0.0
	github.com/tink-crypto/tink-go/v2 v2.1.0
	tailscale.com v1.81.0-pre.0.20250303195457-5449aba94c51
)

require (
	filippo.io/edwards25519 v1.1.0 // indirect
	github.com/aws/aws-sdk-go-v2/aws/protocol/eventstream v1.6.8 // indirect
	github.com/aws/aws-sdk-go-v2/config v1.29.5 // indirect
	github.com/aws/aws-sdk-go-v2/feature/ec2/imds v1.16.27 // indirect
	github.com/aws/aws-sdk-go-v2/internal/configsources v1.3.31 // indirect
	github.com/aws/aws-sdk-go-v2/internal/endpoints/v2 v2.6.31 // indirect
	github.com/aws/aws-sdk-go-v2/internal/ini v1.8.2 // indirect
	github.com/aws/aws-sdk-go-v2/internal/v4a v1.3.31 // indirect
	github.com/aws/aws-sdk-go-v2/service/internal/accept-encoding v1.12.2 // indirect
	github.com/aws/aws-sdk-go-v2/service/internal/checksum v1.5.5 // indirect
	github.com/aws/aws-sdk-go-v2/service/internal/presigned-url v1.12.12 // indirect
	github.com/aws/aws-sdk-go-v2/service/internal/s3shared v1.18.12 // indirect
	github.com/aws/aws-sdk-go-v2/service/sso v1.24.14 // indirect
	github.com/aws/aws-sdk-go-v2/service/ssooidc v1.28.13 // indirect
	github.com/aws/aws-sdk-go-v2/service/sts v1.33.13 // indirect
	github.com/aws/smithy-go v1.22.2 // indirect
	github.com/fxamacker/cbor/v2 v2.7.0 // indirect
	github.com/go-json-experiment/json v0.0.0-20250223041408-d3c622f1b874 // indirect
	github.com/hdevalence/ed25519consensus v0.2.0 // indirect
	github.com/jsimonetti/rtnetlink v1.4.0 // indirect
	github.com/mdlayher/netlink v1.7.3-0.20250113171957-fbb4dce95f42 // indirect
	github.com/mdlayher/socket v0.5.0 // indirect
	github.com/mitchellh/go-ps v1.0.0 // indirect
	github.com/x448/float16 v0.8.4 // indirect
	go4.org/mem v0.0.0-20240501181205-ae6ca9944745 // indirect
	go4.org/netipx v0.0.0-20231129151722-fdeea329fbba // indirect
	golang.org/x/crypto v0.35.0 // indirect
	golang.org/x/exp v0.0.0-20250210185358-939b2ce775ac // indirect
	golang.org/x/net v0.35.0 // indirect
	golang.org/x/sync v0.12.0 // indirect
	golang.org/x/sys v0.31.0 // indirect
	golang.org/x/text v0.22.0 // indirect
	google.golang.org/protobuf v1.35.1 // indirect
)

replace github.com/tailscale/setec => /repo
