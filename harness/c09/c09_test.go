// C09 — conditional get reports not-modified exactly when nothing changed.
// Reference-model monitor: histories of put/activate(forwards and
// backwards)/delete-version/delete/recreate; after every step conditional
// gets with every interesting V through the DB API, the HTTP handler + real
// Client, and a FileClient on a file generated from the model's active set.
package c09

import (
	"bytes"
	"context"
	"encoding/base64"
	"encoding/json"
	"fmt"
	"os"
	"path/filepath"
	"runtime"
	"strings"
	"sync"
	"sync/atomic"
	"testing"
	"time"

	"github.com/tailscale/setec/audit"
	"github.com/tailscale/setec/db"

	"github.com/tailscale/setec/client/setec"
	"github.com/tailscale/setec/types/api"

	"verif/harness/internal/evid"
	"verif/harness/internal/httpdrv"
	"verif/harness/internal/ops"
	"verif/harness/internal/realdb"
	"verif/harness/internal/refmodel"
)

const addr = "100.64.0.9:999"
const addrDenied = "100.64.0.10:999"

func TestC09(t *testing.T) {
	r := evid.Start("C09", "exploration")
	defer r.Finish(t)
	r.Assume("the map model's getIfChanged is the meaning of the property; for the FileClient the 'service' is the static document generated from the model's active set (non-empty values only)")
	dir := evid.TempDir(t)
	nHist := r.N(400, 4000)
	cfg := ops.GenCfg{
		Names:   []string{"a", "a", "b"},
		Values:  [][]byte{[]byte("one"), []byte("two"), []byte("three")},
		Weights: map[ops.Kind]int{ops.Put: 8, ops.Act: 7, ops.DelVer: 4, ops.Delete: 1},
	}
	all := []refmodel.Rule{{Actions: []string{"get", "info", "put", "activate", "delete"}, Patterns: []string{"*"}}}
	noGet := []refmodel.Rule{{Actions: []string{"info", "put", "activate", "delete"}, Patterns: []string{"*"}}, {Actions: []string{"get"}, Patterns: []string{"other/*"}}}
	var wg sync.WaitGroup
	nw := runtime.NumCPU()
	for w := 0; w < nw; w++ {
		wg.Add(1)
		go func(w int) {
			defer wg.Done()
			for h := w; h < nHist; h += nw {
				if r.Skip(h) {
					continue
				}
				rng := r.Rand(uint64(h))
				d, err := realdb.Open(filepath.Join(dir, fmt.Sprintf("h%d.db", h)), realdb.DummyKey("c09"))
				if err != nil {
					t.Error(err)
					return
				}
				srv, err := httpdrv.New(d)
				if err != nil {
					t.Error(err)
					return
				}
				srv.SetWho(addr, httpdrv.Who{Login: "ok@verif", Node: "ok", Rules: all})
				srv.SetWho(addrDenied, httpdrv.Who{Login: "no@verif", Node: "no", Rules: noGet})
				cl := setec.Client{Server: "http://setec.verif", DoHTTP: srv.ClientDo(addr)}
				clDenied := setec.Client{Server: "http://setec.verif", DoHTTP: srv.ClientDo(addrDenied)}
				su := realdb.Caller("ok@verif", all)
				denied := realdb.Caller("no@verif", noGet)
				m := refmodel.New()
				var trace []string
				ctx := context.Background()
				for i, n := 0, 15+rng.IntN(16); i < n; i++ {
					op := ops.Gen(rng, m, cfg)
					pre := m.Clone()
					want := ops.ApplyModel(m, nil, true, op)
					got := ops.ApplyReal(d, su, op)
					trace = append(trace, fmt.Sprintf("%s -> %s", op, got))
					if !ops.Agree(want, got) {
						r.Violation("history-diverged", h, fmt.Sprintf("history %d: %s gave %s, model %s", h, op, got, want), map[string]any{"history": trace})
						break
					}
					if op.Kind == ops.Act && want.Class == refmodel.OK && pre.S[op.Name] != nil && op.Version < pre.S[op.Name].Active {
						r.Count("shape_reactivated_older_version", 1)
					}
					// the static document for the FileClient
					doc := map[string]any{}
					for nme, s := range m.S {
						doc[nme] = map[string]any{"secret": api.SecretValue{Value: []byte(s.Versions[s.Active]), Version: api.SecretVersion(s.Active)}}
					}
					fb, _ := json.Marshal(doc)
					fp := filepath.Join(dir, fmt.Sprintf("h%d.file.json", h))
					os.WriteFile(fp, fb, 0o600)
					fc, err := setec.NewFileClient(fp)
					if err != nil {
						r.Violation("fileclient-rejects-document", h, err.Error(), nil)
						break
					}
					bad := false
					for _, nme := range []string{"a", "b", "absent"} {
						var vs []uint32
						vs = append(vs, 0, 1, 0xFFFFFFFF)
						if s := m.S[nme]; s != nil {
							vs = append(vs, s.Active, s.Latest+1)
							for v := uint32(1); v <= s.Latest; v++ {
								vs = append(vs, v)
							}
						}
						for _, v := range vs {
							mw, mc := m.GetIfChanged(nme, v)
							vclass := "absent-name"
							if s := m.S[nme]; s != nil {
								_, exists := s.Versions[v]
								switch {
								case v == 0:
									vclass = "V=0"
								case v == s.Active:
									vclass = "V=active"
								case exists:
									vclass = "V=existing-inactive"
									r.Count("shape_v_existing_inactive", 1)
								case v <= s.Latest:
									vclass = "V=deleted"
									r.Count("shape_v_names_deleted_version", 1)
								default:
									vclass = "V=beyond-latest"
									r.Count("shape_v_beyond_latest", 1)
								}
							}
							check := func(front string, sv *api.SecretValue, err error) {
								r.Eval(1)
								gc := realdb.Classify(err)
								r.Distinct(fmt.Sprintf("%s/%s/%s", front, vclass, mc))
								if gc == refmodel.NotChanged {
									r.Count(front+"_notchanged", 1)
								} else if gc == refmodel.OK {
									r.Count(front+"_value", 1)
								}
								okv := gc == mc
								if okv && mc == refmodel.OK {
									okv = sv != nil && uint32(sv.Version) == mw.Version && string(sv.Value) == mw.Bytes
								}
								if okv && mc != refmodel.OK && sv != nil {
									okv = false
								}
								if !okv && !bad {
									bad = true
									key := "conditional-get-wrong"
									switch {
									case gc == refmodel.NotChanged && mc == refmodel.OK:
										key = "not-modified-although-changed"
									case gc == refmodel.OK && mc == refmodel.NotChanged:
										key = "value-although-unchanged"
									case gc == refmodel.OK && mc == refmodel.OK:
										key = "wrong-version-or-bytes"
									}
									r.Violation(front+"-"+key, h, fmt.Sprintf("history %d, %s: get-if-changed %q V=%d (%s) gave %s %v (err %v); active is v%d, model says %s v%d %q",
										h, front, nme, v, vclass, gc, sv, err, activeOf(m, nme), mc, mw.Version, mw.Bytes), map[string]any{"history": trace})
								}
							}
							sv, err := d.GetConditional(su, nme, api.SecretVersion(v))
							check("db", sv, err)
							if sv != nil { // the caller wipes what it was given, as callers of a secrets store do
								for k := range sv.Value {
									sv.Value[k] = 0
								}
							}
							sv, err = cl.GetIfChanged(ctx, nme, api.SecretVersion(v))
							check("http", sv, err)
							sv, err = fc.GetIfChanged(ctx, nme, api.SecretVersion(v))
							check("file", sv, err)
							// a caller without get permission: access denied whatever V
							if _, err := d.GetConditional(denied, nme, api.SecretVersion(v)); realdb.Classify(err) != refmodel.Denied && !bad {
								bad = true
								r.Violation("db-denied-caller-not-refused", h, fmt.Sprintf("history %d: caller without get permission, get-if-changed %q V=%d: %v", h, nme, v, err), map[string]any{"history": trace})
							}
							if _, err := clDenied.GetIfChanged(ctx, nme, api.SecretVersion(v)); realdb.Classify(err) != refmodel.Denied && !bad {
								bad = true
								r.Violation("http-denied-caller-not-refused", h, fmt.Sprintf("history %d: caller without get permission, client get-if-changed %q V=%d: %v", h, nme, v, err), map[string]any{"history": trace})
							}
							r.Count("denied_checks", 2)
						}
					}
					if bad {
						break
					}
				}
				if h < 2 {
					r.Sample(map[string]any{"history": h, "steps": trace})
				}
				r.Count("histories", 1)
			}
		}(w)
	}
	wg.Wait()
	if r.Only < 0 {
		for rep := 0; rep < r.N(12, 200); rep++ {
			concurrent(t, r, dir, rep)
		}
		staleNotModified(t, r, dir)
		handWrittenFiles(r, dir)
		wrappedVersions(t, r, dir)
		sparseBodies(t, r, dir)
		failedActivate(t, r, dir)
		pollsDuringFailingActivations(t, r, dir)
		emptyActiveValue(t, r, dir)
		samePatternsOtherActions(t, r, dir)
		differentVAtOnce(t, r, dir)
		auditFailureIsNotNotModified(t, r, dir)
	}
	r.Require("conditional_gets_of_an_empty_value", "conditional_gets_same_patterns_other_actions", "polls_during_failing_activations", "sparse_request_bodies", "conditional_gets_after_a_failed_activation", "out_of_range_versions", "overlapping_polls_with_different_v", "conditional_gets_with_failing_audit", "hand_written_file_entries", "post_quiescence_conditional_gets", "concurrent_conditional_gets", "histories", "db_notchanged", "db_value", "http_notchanged", "http_value", "file_notchanged", "file_value", "denied_checks",
		"shape_reactivated_older_version", "shape_v_existing_inactive", "shape_v_names_deleted_version", "shape_v_beyond_latest")
	r.Rule("seeded histories of 15-30 put/activate/delete-version/delete steps over 2 names; after every step conditional gets with V in {0, 1, active, every version number up to latest (existing and deleted), latest+1, 2^32-1} on both names and an absent one, through db.GetConditional, HTTP handler + setec.Client, and FileClient on a file generated from the model; plus a caller without get permission. Distinct = (front end, class of V, model outcome)")
}

// slowSink is an audit sink that yields, so that whatever a method does around its audit record
// is stretched in time (the record is written between the permission check and the data access).
type slowSink struct{ n atomic.Int64 }

func (s *slowSink) Write(p []byte) (int, error) {
	if s.n.Add(1)%3 == 0 {
		time.Sleep(20 * time.Microsecond)
	} else {
		runtime.Gosched()
	}
	return len(p), nil
}

// concurrent: while the active version is being toggled, a conditional get with V must never
// deliver a value whose version is V (that would be "changed" and "is V" at once), and what it
// delivers must be a real (version, bytes) pair.
func concurrent(t *testing.T, r *evid.Run, dir string, rep int) {
	r.Eval(1)
	d, err := db.Open(filepath.Join(dir, fmt.Sprintf("conc%d.db", rep)), realdb.DummyKey("c09c"), audit.New(&slowSink{}))
	if err != nil {
		t.Fatal(err)
	}
	su := realdb.Super()
	d.Put(su, "t", []byte("bytes-of-1"))
	d.Put(su, "t", []byte("bytes-of-2"))
	stop := make(chan struct{})
	var wg sync.WaitGroup
	wg.Add(1)
	go func() {
		defer wg.Done()
		for v := uint32(1); ; v = 3 - v {
			select {
			case <-stop:
				return
			default:
			}
			d.Activate(su, "t", api.SecretVersion(v))
		}
	}()
	var bad atomic.Int32
	for g := 0; g < 4; g++ {
		wg.Add(1)
		go func(g int) {
			defer wg.Done()
			for i := 0; ; i++ {
				select {
				case <-stop:
					return
				default:
				}
				v := api.SecretVersion(1 + (i+g)%2)
				sv, err := d.GetConditional(su, "t", v)
				r.Count("concurrent_conditional_gets", 1)
				switch {
				case err == nil && sv.Version == v:
					if bad.Add(1) <= 2 {
						r.Violation("db-value-although-unchanged", -1, fmt.Sprintf("concurrent repetition %d: get-if-changed V=%d delivered version %d itself while the active version was being toggled", rep, v, sv.Version), nil)
					}
				case err == nil && string(sv.Value) != fmt.Sprintf("bytes-of-%d", sv.Version):
					if bad.Add(1) <= 2 {
						r.Violation("db-wrong-version-or-bytes", -1, fmt.Sprintf("concurrent repetition %d: version %d delivered with bytes %q", rep, sv.Version, sv.Value), nil)
					}
				case err != nil && realdb.Classify(err) != refmodel.NotChanged:
					if bad.Add(1) <= 2 {
						r.Violation("db-conditional-get-wrong", -1, fmt.Sprintf("concurrent repetition %d: unexpected error %v", rep, err), nil)
					}
				}
			}
		}(g)
	}
	time.Sleep(40 * time.Millisecond)
	close(stop)
	wg.Wait()
	r.Distinct("concurrent-toggle")
}

// staleNotModified: pollers hammer the HTTP front end with conditional gets while the active version is
// switched; once everything is quiet again, "not modified" for the superseded version is a plain lie.
func staleNotModified(t *testing.T, r *evid.Run, dir string) {
	d, err := realdb.Open(filepath.Join(dir, "stale304.db"), realdb.DummyKey("c09s"))
	if err != nil {
		t.Fatal(err)
	}
	srv, err := httpdrv.New(d)
	if err != nil {
		t.Fatal(err)
	}
	all := []refmodel.Rule{{Actions: []string{"get", "info", "put", "activate", "delete"}, Patterns: []string{"*"}}}
	srv.SetWho(addr, httpdrv.Who{Login: "ok@verif", Node: "ok", Rules: all})
	cl := setec.Client{Server: "http://setec.verif", DoHTTP: srv.ClientDo(addr)}
	su := realdb.Super()
	big := bytes.Repeat([]byte("0123456789abcdef"), 1<<16) // 1 MiB: saves take a while, which widens every window around them
	d.Put(su, "t", append([]byte("one-"), big...))
	d.Put(su, "t", append([]byte("two-"), big...))
	ctx := context.Background()
	cur := uint32(1)
	for round := 0; round < r.N(40, 300); round++ {
		r.Eval(1)
		d.Put(su, "unrelated", []byte(fmt.Sprintf("u%d", round)))
		stop := make(chan struct{})
		var wg sync.WaitGroup
		for g := 0; g < 8; g++ {
			wg.Add(1)
			go func() {
				defer wg.Done()
				for {
					select {
					case <-stop:
						return
					default:
					}
					cl.GetIfChanged(ctx, "t", api.SecretVersion(cur))
				}
			}()
		}
		time.Sleep(200 * time.Microsecond)
		next := 3 - cur
		if err := d.Activate(su, "t", api.SecretVersion(next)); err != nil {
			t.Fatal(err)
		}
		close(stop)
		wg.Wait()
		// quiescent: the active version is `next`; a conditional get with the old one must deliver it
		for k := 0; k < 3; k++ {
			sv, err := cl.GetIfChanged(ctx, "t", api.SecretVersion(cur))
			r.Count("post_quiescence_conditional_gets", 1)
			if err != nil || uint32(sv.Version) != next {
				r.Violation("http-not-modified-although-changed", -1, fmt.Sprintf("round %d: activate t %d had returned and nothing else was running, yet get-if-changed t V=%d answered (%v, %v); the active version is %d", round, next, cur, sv != nil, err, next), nil)
				return
			}
			if sv2, err := cl.GetIfChanged(ctx, "t", api.SecretVersion(next)); realdb.Classify(err) != refmodel.NotChanged {
				r.Violation("http-value-although-unchanged", -1, fmt.Sprintf("round %d: get-if-changed t V=%d (the active version) answered (%v, %v)", round, next, sv2 != nil, err), nil)
				return
			}
		}
		cur = next
	}
	r.Distinct("post-quiescence")
}

func activeOf(m *refmodel.Model, n string) uint32 {
	if s := m.S[n]; s != nil {
		return s.Active
	}
	return 0
}

// handWrittenFiles: secrets files as a person writes them (TextValue or base64 Value, version present,
// zero or missing, entries without a value). Whichever entries the loader accepts, the conditional get is
// tied to the plain get: V = 0 is the plain get, and for V != 0 the answer is "not changed" exactly when V is
// the version the plain get reports.
func handWrittenFiles(r *evid.Run, dir string) {
	rng := r.Rand(808)
	ctx := context.Background()
	for f := 0; f < r.N(300, 6000); f++ {
		n := 1 + rng.IntN(5)
		var parts []string
		type ent struct {
			name    string
			hasVal  bool
			version uint32
			val     string
		}
		var ents []ent
		for i := 0; i < n; i++ {
			e := ent{name: fmt.Sprintf("hand/%d", i), val: fmt.Sprintf("value-%d-%d", f, i)}
			var fields []string
			valKind := rng.IntN(4)
			switch valKind {
			case 0:
				fields = append(fields, fmt.Sprintf(`"TextValue":%q`, e.val))
				e.hasVal = true
			case 1:
				fields = append(fields, fmt.Sprintf(`"Value":%q`, base64.StdEncoding.EncodeToString([]byte(e.val))))
				e.hasVal = true
			case 2:
				fields = append(fields, `"TextValue":""`)
			}
			verKind := rng.IntN(5)
			switch verKind {
			case 0: // no version at all
			case 1:
				fields = append(fields, `"Version":0`)
			default:
				e.version = []uint32{1, 2, 5, 77, 4294967295}[rng.IntN(5)]
				fields = append(fields, fmt.Sprintf(`"Version":%d`, e.version))
			}
			rng.Shuffle(len(fields), func(a, b int) { fields[a], fields[b] = fields[b], fields[a] })
			parts = append(parts, fmt.Sprintf(`%q:{"secret":{%s}}`, e.name, strings.Join(fields, ",")))
			ents = append(ents, e)
			r.Distinct(fmt.Sprintf("hand-written entry value-kind=%d version-kind=%d", valKind, min(verKind, 2)))
		}
		doc := "{" + strings.Join(parts, ",") + "}"
		fp := filepath.Join(dir, "hand.json")
		os.WriteFile(fp, []byte(doc), 0o600)
		fc, err := setec.NewFileClient(fp)
		if err != nil {
			r.Violation("fileclient-rejects-document", -1, fmt.Sprintf("hand-written file %s: %v", doc, err), nil)
			return
		}
		for _, e := range append(ents, ent{name: "hand/absent"}) {
			r.Eval(1)
			r.Count("hand_written_file_entries", 1)
			g, gerr := fc.Get(ctx, e.name)
			gc := realdb.Classify(gerr)
			if e.hasVal && e.version > 0 {
				if gc != refmodel.OK || g == nil || string(g.Value) != e.val || uint32(g.Version) != e.version {
					r.Violation("file-well-formed-entry-not-served", -1, fmt.Sprintf("file %s: get %q gave %v (err %v), want v%d %q", doc, e.name, g, gerr, e.version, e.val), nil)
					return
				}
			}
			if gc != refmodel.OK && gc != refmodel.NotFound {
				r.Violation("file-conditional-get-wrong", -1, fmt.Sprintf("file %s: get %q: %v", doc, e.name, gerr), nil)
				return
			}
			vs := []uint32{0, 1, 2, 5, 77, 4294967295}
			if g != nil {
				vs = append(vs, uint32(g.Version))
			}
			for _, v := range vs {
				c, cerr := fc.GetIfChanged(ctx, e.name, api.SecretVersion(v))
				cc := realdb.Classify(cerr)
				want := gc
				if gc == refmodel.OK && v != 0 && v == uint32(g.Version) {
					want = refmodel.NotChanged
				}
				ok := cc == want
				if ok && want == refmodel.OK {
					ok = c != nil && c.Version == g.Version && bytes.Equal(c.Value, g.Value)
				}
				if !ok {
					key := "file-conditional-get-wrong"
					if v == 0 {
						key = "file-v0-is-not-the-plain-get"
					}
					r.Violation(key, -1, fmt.Sprintf("file %s: get %q gives %s %v, but get-if-changed with V=%d gives %s %v (err %v); want %s", doc, e.name, gc, g, v, cc, c, cerr, want), nil)
					return
				}
			}
		}
	}
}

type stallSink struct{ wait time.Duration }

func (s *stallSink) Write(p []byte) (int, error) {
	time.Sleep(s.wait) // the caller is inside the handler: the other requests of the burst arrive meanwhile
	return len(p), nil
}

// differentVAtOnce: ONE caller (one identity, one grant) sends conditional gets for one secret carrying
// different V at the same moment (a fleet of clients behind one node, some already up to date), while the
// audit sink is slow so that the requests overlap inside the server. Nothing changes meanwhile, so every
// answer is determined: 304 exactly for V = active.
func differentVAtOnce(t *testing.T, r *evid.Run, dir string) {
	d, err := db.Open(filepath.Join(dir, "diffv.db"), realdb.DummyKey("c09v"), audit.New(&stallSink{wait: 200 * time.Microsecond}))
	if err != nil {
		t.Fatal(err)
	}
	su := realdb.Super()
	for v := 1; v <= 3; v++ {
		d.Put(su, "polled", []byte(fmt.Sprintf("bytes-of-%d", v)))
	}
	d.Activate(su, "polled", 2)
	srv, err := httpdrv.New(d)
	if err != nil {
		t.Fatal(err)
	}
	srv.SetWho(addr, httpdrv.Who{Login: "fleet@verif", Node: "fleet", Rules: []refmodel.Rule{{Actions: []string{"get"}, Patterns: []string{"*"}}}})
	cl := setec.Client{Server: "http://setec.verif", DoHTTP: srv.ClientDo(addr)}
	ctx := context.Background()
	var bad atomic.Int32
	for round := 0; round < r.N(150, 1500); round++ {
		var wg sync.WaitGroup
		var gate atomic.Bool
		for g := 0; g < 8; g++ {
			v := api.SecretVersion([]uint32{2, 1, 2, 3, 2, 99, 1, 2}[(g+round)%8])
			wg.Add(1)
			go func() {
				defer wg.Done()
				for !gate.Load() {
				}
				sv, err := cl.GetIfChanged(ctx, "polled", v)
				r.Count("overlapping_polls_with_different_v", 1)
				c := realdb.Classify(err)
				ok := c == refmodel.NotChanged
				if v != 2 {
					ok = c == refmodel.OK && sv != nil && sv.Version == 2 && string(sv.Value) == "bytes-of-2"
				}
				if !ok && bad.Add(1) <= 3 {
					key := "http-value-although-unchanged"
					if v != 2 {
						key = "http-not-modified-although-changed"
					}
					r.Violation(key, -1, fmt.Sprintf("round %d: eight conditional gets of one caller with different V at once; the one with V=%d got %s %v (err %v) while version 2 was active throughout", round, v, c, sv, err), nil)
				}
			}()
		}
		gate.Store(true)
		wg.Wait()
	}
	r.Eval(1)
	r.Distinct("overlapping polls with different V")
}

// auditFailureIsNotNotModified: when the record for delivering a changed value cannot be written, the caller
// is told about a failure - never "not modified" (which would mean: V is still active).
func auditFailureIsNotNotModified(t *testing.T, r *evid.Run, dir string) {
	snk := &realdb.FlakySink{}
	d, err := realdb.OpenFlaky(filepath.Join(dir, "auditfail.db"), realdb.DummyKey("c09a"), snk)
	if err != nil {
		t.Fatal(err)
	}
	su := realdb.Super()
	for v := 1; v <= 3; v++ {
		d.Put(su, "polled", []byte(fmt.Sprintf("bytes-of-%d", v)))
	}
	d.Activate(su, "polled", 2)
	srv, err := httpdrv.New(d)
	if err != nil {
		t.Fatal(err)
	}
	srv.SetWho(addr, httpdrv.Who{Login: "ok@verif", Node: "ok", Rules: []refmodel.Rule{{Actions: []string{"get"}, Patterns: []string{"*"}}}})
	cl := setec.Client{Server: "http://setec.verif", DoHTTP: srv.ClientDo(addr)}
	ctx := context.Background()
	for _, v := range []uint32{1, 3, 4, 99, 4294967295, 2, 0} {
		for _, failing := range []bool{true, false, true} {
			snk.FailSync.Store(failing)
			_, e1 := d.GetConditional(su, "polled", api.SecretVersion(v))
			_, e2 := cl.GetIfChanged(ctx, "polled", api.SecretVersion(v))
			snk.FailSync.Store(false)
			for i, err := range []error{e1, e2} {
				r.Eval(1)
				r.Count("conditional_gets_with_failing_audit", 1)
				c := realdb.Classify(err)
				if c == refmodel.NotChanged && v != 2 {
					r.Violation([]string{"db", "http"}[i]+"-not-modified-although-changed", -1, fmt.Sprintf("get-if-changed V=%d while version 2 is active and the audit log is failing=%t: answered \"not modified\"", v, failing), nil)
					return
				}
				if failing && v != 2 && c == refmodel.OK {
					r.Violation([]string{"db", "http"}[i]+"-conditional-get-wrong", -1, fmt.Sprintf("get-if-changed V=%d delivered a value although its audit record could not be written", v), nil)
					return
				}
				if v == 2 && c != refmodel.NotChanged {
					r.Violation([]string{"db", "http"}[i]+"-value-although-unchanged", -1, fmt.Sprintf("get-if-changed V=2 (the active version), audit failing=%t: %v", failing, err), nil)
					return
				}
			}
		}
	}
	r.Distinct("conditional get with failing audit log")
}

// wrappedVersions: hand-made requests whose V does not fit the 32-bit version type (k*2^32 + active, decimal
// strings, floats): such a V names no version that ever existed, so whatever else the server says, it must
// not say "not modified".
func wrappedVersions(t *testing.T, r *evid.Run, dir string) {
	d, err := realdb.Open(filepath.Join(dir, "wrapped.db"), realdb.DummyKey("c09w"))
	if err != nil {
		t.Fatal(err)
	}
	su := realdb.Super()
	for v := 1; v <= 3; v++ {
		d.Put(su, "polled", []byte(fmt.Sprintf("bytes-of-%d", v)))
	}
	srv, err := httpdrv.New(d)
	if err != nil {
		t.Fatal(err)
	}
	srv.SetWho(addr, httpdrv.Who{Login: "ok@verif", Node: "ok", Rules: []refmodel.Rule{{Actions: []string{"get"}, Patterns: []string{"*"}}}})
	for _, active := range []uint32{1, 3, 2} {
		d.Activate(su, "polled", api.SecretVersion(active))
		for _, lit := range []string{
			fmt.Sprint(uint64(1)<<32 + uint64(active)), fmt.Sprint(uint64(2)<<32 + uint64(active)), fmt.Sprint(uint64(1000)<<32 + uint64(active)),
			fmt.Sprintf("%q", fmt.Sprint(uint64(1)<<32+uint64(active))), fmt.Sprintf("%d.0", uint64(1)<<32+uint64(active)), fmt.Sprintf("%de0", uint64(1)<<32+uint64(active)),
			fmt.Sprintf("-%d", uint64(1)<<32-uint64(active)), "18446744073709551617",
		} {
			body := []byte(fmt.Sprintf(`{"Name":"polled","Version":%s,"UpdateIfChanged":true}`, lit))
			rep := srv.Raw("POST", "/api/get", addr, httpdrv.GoodHeaders, body)
			r.Eval(1)
			r.Count("out_of_range_versions", 1)
			if rep.Status == 304 {
				r.Violation("http-value-although-unchanged", -1, fmt.Sprintf("a conditional get with Version %s (no such version ever existed; the active one is %d) was answered 304 not modified", lit, active), nil)
				return
			}
			if rep.Status == 200 {
				var sv api.SecretValue
				if json.Unmarshal(rep.Body, &sv) != nil || uint32(sv.Version) != active || string(sv.Value) != fmt.Sprintf("bytes-of-%d", active) {
					r.Violation("http-wrong-version-or-bytes", -1, fmt.Sprintf("a conditional get with Version %s was answered 200 with %s; the active version is %d", lit, rep.Body, active), nil)
					return
				}
			}
		}
	}
	r.Distinct("out-of-range versions")
}

// sparseBodies: hand-made requests that leave members out (no Version, no UpdateIfChanged), sent between the
// fully spelled-out polls of ordinary clients. What a request does not say is zero / false - never what
// some earlier request said.
func sparseBodies(t *testing.T, r *evid.Run, dir string) {
	d, err := realdb.Open(filepath.Join(dir, "sparse.db"), realdb.DummyKey("c09sp"))
	if err != nil {
		t.Fatal(err)
	}
	su := realdb.Super()
	for v := 1; v <= 3; v++ {
		d.Put(su, "polled", []byte(fmt.Sprintf("bytes-of-%d", v)))
	}
	d.Activate(su, "polled", 2)
	srv, err := httpdrv.New(d)
	if err != nil {
		t.Fatal(err)
	}
	srv.SetWho(addr, httpdrv.Who{Login: "ok@verif", Node: "ok", Rules: []refmodel.Rule{{Actions: []string{"get"}, Patterns: []string{"*"}}}})
	post := func(body string) httpdrv.Reply {
		return srv.Raw("POST", "/api/get", addr, httpdrv.GoodHeaders, []byte(body))
	}
	value := func(rep httpdrv.Reply, ver uint32) bool {
		var sv api.SecretValue
		return rep.Status == 200 && json.Unmarshal(rep.Body, &sv) == nil && uint32(sv.Version) == ver && string(sv.Value) == fmt.Sprintf("bytes-of-%d", ver)
	}
	rng := r.Rand(90909)
	for i := 0; i < r.N(400, 5000); i++ {
		// an ordinary, fully spelled-out poll by a client that is up to date (304) or not (200)
		known := []int{2, 1, 3, 2}[rng.IntN(4)]
		if rep := post(fmt.Sprintf(`{"Name":"polled","Version":%d,"UpdateIfChanged":true}`, known)); (known == 2) != (rep.Status == 304) {
			r.Violation("http-conditional-get-wrong", -1, fmt.Sprintf("poll with V=%d (active 2) answered %d", known, rep.Status), nil)
			return
		}
		kind := rng.IntN(4)
		var rep httpdrv.Reply
		var want uint32 = 2
		var what string
		switch kind {
		case 0:
			what = `{"Name":"polled"}`
		case 1:
			what = `{"Name":"polled","UpdateIfChanged":true}`
		case 2:
			what = `{"UpdateIfChanged":true,"Name":"polled","Version":0}`
		case 3:
			what, want = `{"Name":"polled","Version":3}`, 3 // a plain get of version 3: no condition was stated
		}
		rep = post(what)
		r.Eval(1)
		r.Count("sparse_request_bodies", 1)
		r.Distinct(fmt.Sprintf("sparse body kind %d", kind))
		if !value(rep, want) {
			key := "http-value-although-unchanged"
			if rep.Status == 304 {
				key = "http-not-modified-although-changed"
			}
			r.Violation(key, -1, fmt.Sprintf("after a poll with V=%d, the request %s (which states no condition that holds) was answered %d %s; want 200 with version %d", known, what, rep.Status, rep.Body, want), nil)
			return
		}
	}
}

// failedActivate: an activation whose save fails has not happened: conditional gets keep answering for the
// version that is still active, in the running process as after a restart.
func failedActivate(t *testing.T, r *evid.Run, dir string) {
	os.MkdirAll(filepath.Join(dir, "failact"), 0o700)
	path := filepath.Join(dir, "failact", "db")
	d, err := realdb.Open(path, realdb.DummyKey("c09fa"))
	if err != nil {
		t.Fatal(err)
	}
	su := realdb.Super()
	for v := 1; v <= 3; v++ {
		d.Put(su, "polled", []byte(fmt.Sprintf("bytes-of-%d", v)))
	}
	active := uint32(1)
	rng := r.Rand(80808)
	for i := 0; i < r.N(60, 600); i++ {
		target := uint32(1 + rng.IntN(3))
		fails := rng.IntN(2) == 0
		var aerr error
		if fails {
			realdb.BreakDir(path, func() { aerr = d.Activate(su, "polled", api.SecretVersion(target)) })
		} else {
			aerr = d.Activate(su, "polled", api.SecretVersion(target))
		}
		if aerr == nil {
			active = target
		}
		for _, v := range []uint32{1, 2, 3} {
			sv, err := d.GetConditional(su, "polled", api.SecretVersion(v))
			r.Eval(1)
			r.Count("conditional_gets_after_a_failed_activation", 1)
			c := realdb.Classify(err)
			ok := (v == active && c == refmodel.NotChanged) || (v != active && c == refmodel.OK && sv != nil && uint32(sv.Version) == active && string(sv.Value) == fmt.Sprintf("bytes-of-%d", active))
			if !ok {
				key := "db-conditional-get-wrong"
				if c == refmodel.NotChanged {
					key = "db-not-modified-although-changed"
				} else if c == refmodel.OK && v == active {
					key = "db-value-although-unchanged"
				}
				r.Violation(key, -1, fmt.Sprintf("activate %d (file system failing=%t) returned %v, so version %d is active; get-if-changed V=%d answered %s %v", target, fails, aerr, active, v, c, sv), nil)
				return
			}
		}
	}
	r.Distinct("conditional gets after failed activations")
}

// pollsDuringFailingActivations: while the file system is away every Activate fails, so version 1 stays the
// active one throughout; clients holding version 1 poll all the while: each answer is "not changed". (A value
// delivered now could only be a version that never became active.)
func pollsDuringFailingActivations(t *testing.T, r *evid.Run, dir string) {
	os.MkdirAll(filepath.Join(dir, "pollfail"), 0o700)
	path := filepath.Join(dir, "pollfail", "db")
	d, err := realdb.Open(path, realdb.DummyKey("c09pf"))
	if err != nil {
		t.Fatal(err)
	}
	su := realdb.Super()
	for v := 1; v <= 3; v++ {
		d.Put(su, "polled", []byte(fmt.Sprintf("bytes-of-%d", v)))
	}
	d.Activate(su, "polled", 1)
	var stop atomic.Bool
	var wg sync.WaitGroup
	var bad atomic.Int32
	for p := 0; p < 4; p++ {
		wg.Add(1)
		go func(p int) {
			defer wg.Done()
			for !stop.Load() {
				var sv *api.SecretValue
				var err error
				if p%2 == 0 {
					sv, err = d.GetConditional(su, "polled", 1)
				} else {
					sv, err = d.Get(su, "polled")
				}
				r.Count("polls_during_failing_activations", 1)
				c := realdb.Classify(err)
				ok := (p%2 == 0 && c == refmodel.NotChanged) || (p%2 == 1 && c == refmodel.OK && sv.Version == 1)
				if !ok && bad.Add(1) == 1 {
					key := "db-value-although-unchanged"
					if p%2 == 1 {
						key = "db-get-delivers-inactive-version"
					}
					r.Violation(key, -1, fmt.Sprintf("every Activate of this period fails (the database's directory is away) so version 1 is active throughout; a poller (conditional=%t, V=1) was answered %s %v", p%2 == 0, c, sv), nil)
				}
			}
		}(p)
	}
	nfail := 0
	realdb.BreakDir(path, func() {
		for i, n := 0, r.N(40, 400); i < n; i++ {
			if err := d.Activate(su, "polled", api.SecretVersion(2+i%2)); err == nil {
				r.Violation("activate-succeeds-without-a-file-system", -1, "Activate reported success while the database's directory was moved away", nil)
				break
			}
			nfail++
			runtime.Gosched()
		}
	})
	stop.Store(true)
	wg.Wait()
	r.Eval(1)
	r.Count("failed_activations_under_polls", nfail)
	r.Distinct("polls during failing activations")
}

// emptyActiveValue: the active version is the EMPTY value (a feature switched off; setec put --empty-ok). A
// conditional get with any V other than the active version delivers it - zero bytes, its version number - at
// the DB API and through the real client; with V = active it is "not changed".
func emptyActiveValue(t *testing.T, r *evid.Run, dir string) {
	dbPath := filepath.Join(dir, "emptyactive.db")
	d, err := realdb.Open(dbPath, realdb.DummyKey("c09ea"))
	if err != nil {
		t.Fatal(err)
	}
	all := []refmodel.Rule{{Actions: []string{"get", "info", "put", "activate", "delete"}, Patterns: []string{"*"}}}
	su := realdb.Caller("ok@verif", all)
	srv, err := httpdrv.New(d)
	if err != nil {
		t.Fatal(err)
	}
	const addr = "100.64.0.9:9"
	srv.SetWho(addr, httpdrv.Who{Login: "ok@verif", Node: "ok", Rules: all})
	cl := setec.Client{Server: "http://setec.verif", DoHTTP: srv.ClientDo(addr)}
	vals := [][]byte{[]byte("hello"), {}, []byte("again"), nil}
	ctx := context.Background()
	// (under names as programs happen to write them: read from a file with its final newline, indented)
	for _, name := range []string{"switch", " switch-lead", "switch-trail\n", "\tboth sides "} {
		for _, v := range vals {
			d.Put(su, name, v)
		}
		for _, active := range []uint32{2, 1, 4, 3, 2} {
			if err := d.Activate(su, name, api.SecretVersion(active)); err != nil {
				t.Fatal(err)
			}
			// (also after a restart: the database opened again from its file)
			d2, rerr := realdb.Open(dbPath, realdb.DummyKey("c09ea"))
			if rerr != nil {
				r.Violation("db-conditional-get-wrong", -1, "the database does not open again: "+rerr.Error(), nil)
				return
			}
			for _, v := range []uint32{0, 1, 2, 3, 4, 5, 0xFFFFFFFF} {
				for _, front := range []string{"db", "http", "db after a restart"} {
					var sv *api.SecretValue
					var err error
					switch front {
					case "db":
						sv, err = d.GetConditional(su, name, api.SecretVersion(v))
					case "db after a restart":
						sv, err = d2.GetConditional(su, name, api.SecretVersion(v))
					default:
						sv, err = cl.GetIfChanged(ctx, name, api.SecretVersion(v))
					}
					r.Eval(1)
					r.Count("conditional_gets_of_an_empty_value", 1)
					c := realdb.Classify(err)
					var ok bool
					if v == active {
						ok = c == refmodel.NotChanged
					} else {
						ok = c == refmodel.OK && sv != nil && uint32(sv.Version) == active && string(sv.Value) == string(vals[active-1])
					}
					if !ok {
						key := strings.Fields(front)[0] + "-conditional-get-wrong"
						if c == refmodel.NotChanged {
							key = strings.Fields(front)[0] + "-not-modified-although-changed"
						}
						r.Violation(key, -1, fmt.Sprintf("secret %q: versions 1..4 hold %q; version %d is active; %s get-if-changed V=%d answered %s %v (err %v)", name, vals, active, front, v, c, sv, err), nil)
						return
					}
				}
			}
		}
	}
	r.Distinct("conditional gets of an empty active value")
}

// samePatternsOtherActions: two callers poll the same secret; their rules name the same patterns and differ in
// the actions (a reader with get, an operator with put+activate), in either order and again after a policy
// change that swaps their rules. The reader gets the value or "not changed", the operator "access denied".
func samePatternsOtherActions(t *testing.T, r *evid.Run, dir string) {
	for c := 0; c < r.N(8, 80); c++ {
		rng := r.Rand(uint64(99_000 + c))
		d, err := realdb.Open(filepath.Join(dir, fmt.Sprintf("spoa%d.db", c)), realdb.DummyKey("c09sp"))
		if err != nil {
			t.Fatal(err)
		}
		su := realdb.Super()
		d.Put(su, "prod/db", []byte("one"))
		d.Put(su, "prod/db", []byte("two"))
		srv, err := httpdrv.New(d)
		if err != nil {
			t.Fatal(err)
		}
		readerRules := []refmodel.Rule{{Actions: []string{"get"}, Patterns: []string{"prod/*"}}}
		operRules := []refmodel.Rule{{Actions: []string{"put", "activate"}, Patterns: []string{"prod/*"}}}
		type who struct {
			login string
			rules []refmodel.Rule
			addr  string
		}
		ws := []who{{"reader@verif", readerRules, "100.64.0.21:1"}, {"operator@verif", operRules, "100.64.0.22:1"}}
		active := uint32(1)
		for step := 0; step < 12; step++ {
			if step == 6 {
				ws[0].rules, ws[1].rules = ws[1].rules, ws[0].rules // the policy changes: the two swap their grants
			}
			if rng.IntN(3) == 0 {
				active = 3 - active
				d.Activate(su, "prod/db", api.SecretVersion(active))
			}
			for _, wi := range rng.Perm(2) {
				w := ws[wi]
				mayGet := w.rules[0].Actions[0] == "get"
				v := []uint32{1, 2, 7}[rng.IntN(3)]
				for _, front := range []string{"db", "http"} {
					var sv *api.SecretValue
					var err error
					if front == "db" {
						sv, err = d.GetConditional(realdb.Caller(w.login, w.rules), "prod/db", api.SecretVersion(v))
					} else {
						srv.SetWho(w.addr, httpdrv.Who{Login: w.login, Node: "n", Rules: w.rules})
						cl := setec.Client{Server: "http://setec.verif", DoHTTP: srv.ClientDo(w.addr)}
						sv, err = cl.GetIfChanged(context.Background(), "prod/db", api.SecretVersion(v))
					}
					r.Eval(1)
					r.Count("conditional_gets_same_patterns_other_actions", 1)
					cl := realdb.Classify(err)
					var ok bool
					switch {
					case !mayGet:
						ok = cl == refmodel.Denied
					case v == active:
						ok = cl == refmodel.NotChanged
					default:
						ok = cl == refmodel.OK && sv != nil && uint32(sv.Version) == active && string(sv.Value) == []string{"one", "two"}[active-1]
					}
					if !ok {
						key := front + "-conditional-get-wrong"
						if !mayGet {
							key = front + "-denied-caller-not-refused"
						}
						r.Violation(key, c, fmt.Sprintf("case %d step %d: %s (rules %v) %s get-if-changed prod/db V=%d while version %d is active: %s %v (err %v); another caller with the same patterns and other actions polls the same secret", c, step, w.login, w.rules, front, v, active, cl, sv, err), nil)
						return
					}
				}
			}
		}
	}
	r.Distinct("same patterns, other actions")
}
