// C14 — concurrent requests are linearizable against the sequential
// specification. Engine E2: every client call is recorded at the client
// boundary (invocation/response stamps from one atomic counter) and each
// recorded history is decided by porcupine against the map model; a final
// sequential full-state read is appended to every history. Engine E3: the
// whole workload runs under the Go race detector.
package c14

import (
	"bytes"
	"context"
	"encoding/json"
	"errors"
	"fmt"
	"io"
	"math/rand/v2"
	"net/http"
	"net/http/httptest"
	"os"
	"path/filepath"
	"runtime"
	"sort"
	"strings"
	"sync"
	"sync/atomic"
	"testing"
	"time"

	"github.com/anishathalye/porcupine"
	"github.com/tailscale/setec/audit"
	"github.com/tailscale/setec/client/setec"
	"github.com/tailscale/setec/db"
	"github.com/tailscale/setec/types/api"

	"verif/harness/internal/evid"
	"verif/harness/internal/httpdrv"
	"verif/harness/internal/ops"
	"verif/harness/internal/realdb"
	"verif/harness/internal/refmodel"
)

// yieldSink is the audit sink: it is invoked between the permission check and
// the locked data access of most methods (and inside the lock for list and
// conditional get), which makes it the natural place to stretch interleavings.
type yieldSink struct {
	flaky       bool // now and then the log cannot be synced (faulty histories only)
	syncs       atomic.Uint64
	failedSyncs atomic.Int64
	n           atomic.Uint64
	bad         atomic.Int64
	sample      atomic.Pointer[[]byte]
}

func (y *yieldSink) Write(p []byte) (int, error) {
	// every Write must be exactly one complete audit record (a sink that never looks at the bytes would
	// also hide a writer that lets concurrent calls scribble over each other's buffer)
	cp := append([]byte(nil), p...)
	if !json.Valid(bytes.TrimSpace(cp)) || bytes.Count(cp, []byte("\n")) != 1 || !bytes.HasSuffix(cp, []byte("\n")) {
		y.bad.Add(1)
		y.sample.Store(&cp)
	}
	switch y.n.Add(1) % 5 {
	case 0:
		time.Sleep(time.Duration(1+y.n.Load()%7) * time.Microsecond)
	case 1, 2:
		runtime.Gosched()
	}
	return len(p), nil
}

// Sync fails now and then when the sink is flaky: the record is in the page cache, not on the disk, and the
// request it belongs to must fail without effect.
func (y *yieldSink) Sync() error {
	if y.flaky && y.syncs.Add(1)%4 == 2 {
		y.failedSyncs.Add(1)
		return errors.New("injected: audit log fsync failed")
	}
	return nil
}

type input struct {
	Op     ops.Op
	Dump   bool // final sequential full-state read
	Faulty bool // the file system failed for parts of this history: a mutating call may report a failure, and then has no effect
	Lost   bool // the server carried the request out but its reply never reached the client: the call took effect (once), its result is unknown
}

type output struct {
	Res   ops.Result
	State string
}

func model(initial *refmodel.Model) porcupine.Model {
	return porcupine.Model{
		Init: func() interface{} { return initial.Clone() },
		Step: func(state, in, out interface{}) (bool, interface{}) {
			m := state.(*refmodel.Model)
			i, o := in.(input), out.(output)
			if i.Dump {
				return m.Canon() == o.State, m
			}
			if !i.Op.Kind.Mutating() {
				if i.Lost {
					return true, m
				}
				if i.Faulty && o.Res.Class == refmodel.Other && !o.Res.HasVal && o.Res.Meta == "" {
					return true, m // a read that failed (its audit record could not be committed) delivered nothing
				}
				want := ops.ApplyModel(m, nil, true, i.Op)
				return ops.Agree(want, o.Res), m
			}
			c := m.Clone()
			want := ops.ApplyModel(c, nil, true, i.Op)
			if i.Lost {
				return true, c
			}
			if i.Faulty && o.Res.Class == refmodel.Other && want.Class != refmodel.Other {
				return true, m // the call failed (its save could not be written): it is a no-op at its linearization point
			}
			return ops.Agree(want, o.Res), c
		},
		Equal: func(a, b interface{}) bool { return a.(*refmodel.Model).CanonFull() == b.(*refmodel.Model).CanonFull() },
		DescribeOperation: func(in, out interface{}) string {
			i, o := in.(input), out.(output)
			if i.Dump {
				return "final-state " + o.State
			}
			return fmt.Sprintf("%s -> %s", i.Op, o.Res)
		},
	}
}

type doer func(op ops.Op) ops.Result

type hist struct {
	clock  atomic.Int64
	mu     sync.Mutex
	ops    []porcupine.Operation
	faulty bool
	failed int
	lost   int
}

const lostReply = "verif: the reply was lost on its way back"

func (h *hist) record(client int, op ops.Op, do doer) {
	call := h.clock.Add(1)
	res := do(op)
	ret := h.clock.Add(1)
	lost := strings.Contains(res.Err, lostReply)
	res.Err = "" // messages are not part of the comparison
	h.mu.Lock()
	if lost {
		h.lost++
	}
	h.ops = append(h.ops, porcupine.Operation{ClientId: client, Input: input{Op: op, Faulty: h.faulty, Lost: lost}, Call: call, Output: output{Res: res}, Return: ret})
	if h.faulty && res.Class == refmodel.Other && op.Kind.Mutating() {
		h.failed++
	}
	h.mu.Unlock()
}

// overlapHash summarises the real-time partial order of a history.
func overlapHash(opsl []porcupine.Operation) string {
	type iv struct{ c, r int64 }
	var ivs []iv
	for _, o := range opsl {
		ivs = append(ivs, iv{o.Call, o.Return})
	}
	sort.Slice(ivs, func(i, j int) bool { return ivs[i].c < ivs[j].c })
	var sb strings.Builder
	maxc := 0
	for i := range ivs {
		n := 0
		for j := range ivs {
			if i != j && ivs[j].c < ivs[i].r && ivs[i].c < ivs[j].r {
				n++
			}
		}
		if n > maxc {
			maxc = n
		}
		fmt.Fprintf(&sb, "%d,", n)
	}
	return fmt.Sprintf("%d|%s", maxc, sb.String())
}

type shape struct {
	name    string
	clients int
	perCli  int
	names   []string
	fillers int
	kinds   map[ops.Kind]int
	sameVal bool
	faulty  bool
}

func TestC14(t *testing.T) {
	r := evid.Start("C14", "exploration")
	defer r.Finish(t)
	r.Assume("each recorded history is decided exactly by porcupine against the map model (whole database as state); only the schedules the stress produced are covered",
		"invocation and response are stamped from one atomic counter immediately around each client call")
	dir := evid.TempDir(t)
	shapes := []shape{
		{name: "global-with-list", clients: 4, perCli: 5, names: []string{"a", "zz"}, fillers: 30,
			kinds: map[ops.Kind]int{ops.List: 6, ops.Put: 8, ops.Act: 2, ops.Get: 2, ops.Delete: 1}},
		{name: "per-key", clients: 7, perCli: 7, names: []string{"a", "b", "c"},
			kinds: map[ops.Kind]int{ops.Info: 2, ops.Get: 3, ops.GetVer: 2, ops.GetCond: 2, ops.Put: 8, ops.Act: 4, ops.DelVer: 3, ops.Delete: 1}},
		{name: "same-value-burst", clients: 8, perCli: 2, names: []string{"a"}, sameVal: true,
			kinds: map[ops.Kind]int{ops.Put: 10, ops.Info: 1}},
		{name: "failing-file-system", clients: 6, perCli: 6, names: []string{"a", "b"}, faulty: true,
			kinds: map[ops.Kind]int{ops.List: 2, ops.Info: 4, ops.Get: 2, ops.GetVer: 3, ops.Put: 9, ops.Act: 3, ops.DelVer: 2, ops.Delete: 1}},
	}
	nDB, nHTTP := r.N(1500, 20000), r.N(400, 4000)
	var wg sync.WaitGroup
	jobs := make(chan int)
	// histories are produced one at a time per worker; each history itself uses several goroutines
	for w := 0; w < 4; w++ {
		wg.Add(1)
		go func() {
			defer wg.Done()
			for i := range jobs {
				sh := shapes[i%len(shapes)]
				level := "db"
				if i >= nDB {
					level = "http"
				}
				oneHistory(t, r, dir, i, sh, level)
			}
		}()
	}
	for i := 0; i < nDB+nHTTP; i++ {
		if !r.Skip(i) {
			jobs <- i
		}
	}
	close(jobs)
	wg.Wait()
	if r.Only < 0 {
		stalledFrontDoorCall(t, r, dir)
	}
	r.Require("metrics_scrapes_during_histories", "audit_syncs_failed_under_concurrency", "stalled_front_door_calls", "histories_mixing_front_door_and_direct_calls", "puts_of_the_empty_value", "histories_db", "histories_http", "histories_linearizable", "overlapping_histories", "list_overlapping_two_puts", "same_value_puts_overlapping", "histories_over_loopback_sockets", "histories_with_failing_file_system", "calls_failed_by_io_error_under_concurrency", "calls_whose_reply_was_lost", "histories_with_a_restart")
	r.Rule("three history shapes: 'global-with-list' (4 clients x 5 ops: list/put/activate/get/delete on the first and last of 32 names, checked unpartitioned), 'per-key' (7 clients x 7 ops of all kinds on 3 names, partitioned by name), 'same-value-burst' (8 spin-synchronised clients putting the same value); audit sink injects yields/microsecond sleeps; DB API and HTTP handlers. Every history + a final sequential state read is decided by porcupine. Distinct = (shape, level, hash of the observed overlap pattern)")
}

func oneHistory(t *testing.T, r *evid.Run, dir string, idx int, sh shape, level string) {
	r.Eval(1)
	rng := r.Rand(uint64(idx))
	snk := &yieldSink{}
	flakyLog := sh.faulty && (idx/4)%2 == 0 // (switched on once the initial state has been written)
	dbPath := filepath.Join(dir, fmt.Sprintf("h%d.db", idx))
	if sh.faulty {
		os.MkdirAll(filepath.Join(dir, fmt.Sprintf("hf%d", idx)), 0o700)
		dbPath = filepath.Join(dir, fmt.Sprintf("hf%d", idx), "db")
	}
	d, err := db.Open(dbPath, realdb.DummyKey("c14"), audit.New(snk))
	if err != nil {
		t.Error(err)
		return
	}
	defer func() {
		if n := snk.bad.Load(); n > 0 {
			r.Violation("audit-record-torn", idx, fmt.Sprintf("history %d: %d write(s) to the audit sink were not one complete JSON line, e.g. %q", idx, n, *snk.sample.Load()), nil)
		}
	}()
	su := realdb.Super()
	initial := refmodel.New()
	for i := 0; i < sh.fillers; i++ {
		op := ops.Op{Kind: ops.Put, Name: fmt.Sprintf("m%02d", i), Value: []byte("filler")}
		ops.ApplyModel(initial, nil, true, op)
		ops.ApplyReal(d, su, op)
	}
	for _, n := range sh.names {
		if rng.IntN(2) == 0 {
			for k := 0; k < 1+rng.IntN(2); k++ {
				op := ops.Op{Kind: ops.Put, Name: n, Value: []byte(fmt.Sprintf("init-%s-%d", n, k))}
				ops.ApplyModel(initial, nil, true, op)
				ops.ApplyReal(d, su, op)
			}
		}
	}
	var dcur atomic.Pointer[db.DB]
	dcur.Store(d)
	var do doer = func(op ops.Op) ops.Result { return ops.ApplyReal(dcur.Load(), su, op) }
	mixed := false
	direct := do
	if level == "http" {
		// a third of the front-door histories are MIXED: the embedding program gave the server its own audit
		// sink besides the open database, and keeps using the database directly (its odd-numbered clients do)
		// while the even-numbered ones come through the front door
		var aw *audit.Writer
		if idx%3 == 1 && !sh.faulty {
			aw = audit.New(&yieldSink{})
			mixed = true
			r.Count("histories_mixing_front_door_and_direct_calls", 1)
		}
		srv, err := httpdrv.NewWithAudit(d, aw)
		if err != nil {
			t.Error(err)
			return
		}
		if idx%4 == 2 {
			// somebody scrapes the server's metrics all the while (cmd/setec publishes them through expvar):
			// a reader like any other as far as the race detector is concerned
			stopScrape := make(chan struct{})
			scraped := make(chan int, 1)
			go func() {
				n := 0
				for {
					select {
					case <-stopScrape:
						scraped <- n
						return
					default:
						_ = srv.S.Metrics().String()
						n++
						runtime.Gosched()
					}
				}
			}()
			defer func() { close(stopScrape); r.Count("metrics_scrapes_during_histories", <-scraped) }()
		}
		const addr = "100.64.0.14:1"
		srv.SetWho(addr, httpdrv.Who{Login: "c14@verif", Node: "c14", Rules: []refmodel.Rule{{Actions: []string{"get", "info", "put", "activate", "delete"}, Patterns: []string{"*"}}}})
		do = func(op ops.Op) ops.Result {
			if op.Kind == ops.GetVer && op.Version == 0 {
				op.Kind = ops.Get
			}
			res, _, ok := srv.Do(addr, op)
			if !ok {
				res.Class = refmodel.Other
			}
			return res
		}
		if idx%5 == 0 {
			// every fifth HTTP history goes over real loopback sockets through the real setec.Client
			srvAny, err := httpdrv.NewAnyAddr(d, httpdrv.Who{Login: "c14@verif", Node: "c14", Rules: []refmodel.Rule{{Actions: []string{"get", "info", "put", "activate", "delete"}, Patterns: []string{"*"}}}})
			if err != nil {
				t.Error(err)
				return
			}
			hs := httptest.NewServer(srvAny.Mux)
			defer hs.Close()
			// now and then the reply to a request the server has carried out is lost on its way back (a broken
			// connection): the client reports an error; the call has happened exactly once all the same
			var dropMu sync.Mutex
			drng := r.Rand(uint64(idx) + 1<<42)
			inner := hs.Client().Do
			cl := setec.Client{Server: hs.URL, DoHTTP: func(req *http.Request) (*http.Response, error) {
				resp, err := inner(req)
				dropMu.Lock()
				drop := drng.IntN(7) == 0 && !sh.faulty // (with a failing file system as well the outcome of such a call would be unknowable)
				dropMu.Unlock()
				if err == nil && drop {
					io.Copy(io.Discard, resp.Body)
					resp.Body.Close()
					return nil, errors.New(lostReply)
				}
				return resp, err
			}}
			do = func(op ops.Op) ops.Result { return viaClient(cl, op) }
			r.Count("histories_over_loopback_sockets", 1)
		}
	}
	// pre-generate each client's operations (version arguments drawn against the initial state + guesses)
	cfg := ops.GenCfg{Names: sh.names, Weights: sh.kinds, Values: [][]byte{[]byte("x")}}
	plans := make([][]ops.Op, sh.clients)
	uniq := 0
	for c := range plans {
		for k := 0; k < sh.perCli; k++ {
			op := ops.Gen(rng, initial, cfg)
			if op.Kind == ops.Put {
				uniq++
				op.Value = []byte(fmt.Sprintf("c%d-%d", c, uniq))
				if sh.sameVal {
					op.Value = []byte("the-same-value")
				} else if rng.IntN(10) == 0 || (sh.faulty && rng.IntN(2) == 0) {
					op.Value = []byte("dup") // (in the histories with faults half of the puts repeat a value: a put that stores nothing new can fail too)
				} else if rng.IntN(8) == 0 {
					op.Value = []byte{} // the empty value is a value like any other
					r.Count("puts_of_the_empty_value", 1)
				}
			}
			if op.Kind == ops.GetVer || op.Kind == ops.GetCond || op.Kind == ops.Act || op.Kind == ops.DelVer {
				op.Version = uint32(rng.IntN(5))
			}
			if level == "http" && op.Kind == ops.GetVer && op.Version == 0 {
				op.Kind = ops.Get
			}
			plans[c] = append(plans[c], op)
		}
	}
	h := &hist{faulty: sh.faulty}
	var ready, wg sync.WaitGroup
	var gate atomic.Bool
	ready.Add(sh.clients)
	faultDone := make(chan struct{})
	if sh.faulty {
		// the file system fails for a few short windows while the clients are at work
		frng := r.Rand(uint64(idx) + 1<<41)
		go func() {
			defer close(faultDone)
			for !gate.Load() {
			}
			for w := 0; w < 3; w++ {
				for t0, d := time.Now(), time.Duration(frng.IntN(400))*time.Microsecond; time.Since(t0) < d; {
				}
				realdb.BreakDir(dbPath, func() {
					for t0, d := time.Now(), time.Duration(100+frng.IntN(600))*time.Microsecond; time.Since(t0) < d; {
					}
				})
			}
		}()
	} else {
		close(faultDone)
	}
	// In some DB-level histories the server is restarted in the middle: all clients pause, the database file is
	// opened afresh, the clients go on. The specification is about the service, not about one process.
	restartAt := -1
	if level == "db" && !sh.faulty && idx%3 == 0 {
		restartAt = 1 + rng.IntN(sh.perCli-1)
		r.Count("histories_with_a_restart", 1)
	}
	var pause sync.WaitGroup
	resume := make(chan struct{})
	if restartAt >= 0 {
		pause.Add(sh.clients)
	}
	for c := 0; c < sh.clients; c++ {
		wg.Add(1)
		go func(c int) {
			defer wg.Done()
			ready.Done()
			for !gate.Load() { // spin barrier: everybody starts within nanoseconds
			}
			for k, op := range plans[c] {
				if k == restartAt {
					pause.Done()
					<-resume
				}
				if mixed && c%2 == 1 {
					h.record(c, op, direct)
				} else {
					h.record(c, op, do)
				}
			}
		}(c)
	}
	ready.Wait()
	snk.flaky = flakyLog
	gate.Store(true)
	if restartAt >= 0 {
		pause.Wait()
		d2, err := db.Open(dbPath, realdb.DummyKey("c14"), audit.New(snk))
		if err != nil {
			r.Violation("restart-fails", idx, fmt.Sprintf("history %d: reopening the database in the middle of the history: %v", idx, err), nil)
			close(resume)
			wg.Wait()
			return
		}
		dcur.Store(d2)
		d = d2
		close(resume)
	}
	wg.Wait()
	<-faultDone
	r.Count("calls_whose_reply_was_lost", h.lost)
	if sh.faulty {
		r.Count("histories_with_failing_file_system", 1)
		r.Count("calls_failed_by_io_error_under_concurrency", h.failed)
		r.Count("audit_syncs_failed_under_concurrency", int(snk.failedSyncs.Load()))
	}
	// final sequential read of the whole state (the audit log works for it)
	snk.flaky = false
	final, err := realdb.Dump(d)
	call := h.clock.Add(1)
	st := "<inconsistent>"
	if err == nil {
		st = final.Canon()
	}
	h.ops = append(h.ops, porcupine.Operation{ClientId: sh.clients, Input: input{Dump: true}, Call: call, Output: output{State: st}, Return: h.clock.Add(1)})

	// coverage facts about this history
	oh := overlapHash(h.ops)
	r.Distinct(fmt.Sprintf("%s/%s/%s", sh.name, level, oh))
	if !strings.HasPrefix(oh, "0|") {
		r.Count("overlapping_histories", 1)
	}
	for _, o := range h.ops {
		i := o.Input.(input)
		if i.Dump {
			continue
		}
		if i.Op.Kind == ops.List {
			n := 0
			for _, p := range h.ops {
				pi := p.Input.(input)
				if !pi.Dump && pi.Op.Kind == ops.Put && p.Call > o.Call && p.Return < o.Return {
					n++
				}
			}
			if n >= 2 {
				r.Count("list_overlapping_two_puts", 1)
			}
		}
		if sh.sameVal && i.Op.Kind == ops.Put {
			for _, p := range h.ops {
				pi := p.Input.(input)
				if !pi.Dump && pi.Op.Kind == ops.Put && p.ClientId != o.ClientId && p.Call < o.Return && o.Call < p.Return {
					r.Count("same_value_puts_overlapping", 1)
					break
				}
			}
		}
	}
	if level == "db" {
		r.Count("histories_db", 1)
	} else {
		r.Count("histories_http", 1)
	}
	res, info := porcupine.CheckOperationsVerbose(model(initial), h.ops, 60*time.Second)
	switch res {
	case porcupine.Ok:
		r.Count("histories_linearizable", 1)
	case porcupine.Unknown:
		r.Inconclusive(fmt.Sprintf("history %d: linearizability search timed out", idx))
	case porcupine.Illegal:
		var lines []string
		sort.Slice(h.ops, func(i, j int) bool { return h.ops[i].Call < h.ops[j].Call })
		for _, o := range h.ops {
			lines = append(lines, fmt.Sprintf("client %d [%d,%d] %s", o.ClientId, o.Call, o.Return, model(initial).DescribeOperation(o.Input, o.Output)))
		}
		_ = info
		r.Violation("not-linearizable-"+sh.name, idx, fmt.Sprintf("history %d (%s, %s level): no sequential order of the calls, compatible with real time, explains the responses and the final state", idx, sh.name, level),
			map[string]any{"initial_state": initial.Canon(), "history": lines})
	}
	if idx < 2 {
		var lines []string
		for _, o := range h.ops {
			lines = append(lines, fmt.Sprintf("client %d [%d,%d] %s", o.ClientId, o.Call, o.Return, model(initial).DescribeOperation(o.Input, o.Output)))
		}
		r.Sample(map[string]any{"history": idx, "shape": sh.name, "level": level, "operations": lines})
	}
}

var _ = rand.IntN

// viaClient performs op through the real client library.
func viaClient(cl setec.Client, op ops.Op) ops.Result {
	ctx := context.Background()
	res := func(err error) ops.Result {
		r := ops.Result{Class: realdb.Classify(err)}
		if err != nil {
			r.Err = err.Error()
		}
		return r
	}
	val := func(sv *api.SecretValue, err error) ops.Result {
		r := res(err)
		if sv != nil && err == nil {
			r.Version, r.Bytes, r.HasVal = uint32(sv.Version), string(sv.Value), true
		}
		return r
	}
	switch op.Kind {
	case ops.List:
		l, err := cl.List(ctx)
		r := res(err)
		if err == nil {
			r.Meta = realdb.ListString(l)
		}
		return r
	case ops.Info:
		in, err := cl.Info(ctx, op.Name)
		r := res(err)
		if err == nil {
			r.Meta = realdb.InfoString(in)
		}
		return r
	case ops.Get:
		return val(cl.Get(ctx, op.Name))
	case ops.GetVer:
		return val(cl.GetVersion(ctx, op.Name, api.SecretVersion(op.Version)))
	case ops.GetCond:
		return val(cl.GetIfChanged(ctx, op.Name, api.SecretVersion(op.Version)))
	case ops.Put:
		v, err := cl.Put(ctx, op.Name, op.Value)
		r := res(err)
		r.Version = uint32(v)
		return r
	case ops.Act:
		return res(cl.Activate(ctx, op.Name, api.SecretVersion(op.Version)))
	case ops.DelVer:
		return res(cl.DeleteVersion(ctx, op.Name, api.SecretVersion(op.Version)))
	case ops.Delete:
		return res(cl.Delete(ctx, op.Name))
	}
	panic("bad op")
}

// stallOnce is an audit sink whose first Write after arming takes a long time (a stalled disk) and then succeeds.
type stallOnce struct {
	armed atomic.Bool
	d     time.Duration
}

func (s *stallOnce) Write(p []byte) (int, error) {
	if s.armed.CompareAndSwap(true, false) {
		time.Sleep(s.d)
	}
	return len(p), nil
}

// stalledFrontDoorCall: one mutating request through the front door spends several seconds inside the server
// (the audit log's disk stalls, then recovers). Whenever the client is told the call FAILED, the call has no
// effect - not now and not later: a reply is the end of the call, and nothing may take effect after it.
func stalledFrontDoorCall(t *testing.T, r *evid.Run, dir string) {
	for ci, op := range []ops.Op{{Kind: ops.Put, Name: "stalled", Value: []byte("hunter2")}, {Kind: ops.Delete, Name: "kept"}} {
		snk := &stallOnce{d: 5500 * time.Millisecond}
		d, err := db.Open(filepath.Join(dir, fmt.Sprintf("stall%d.db", ci)), realdb.DummyKey("c14st"), audit.New(snk))
		if err != nil {
			t.Fatal(err)
		}
		su := realdb.Super()
		d.Put(su, "kept", []byte("kept-value"))
		srv, err := httpdrv.New(d)
		if err != nil {
			t.Fatal(err)
		}
		const addr = "100.64.0.14:2"
		srv.SetWho(addr, httpdrv.Who{Login: "c14@verif", Node: "c14", Rules: []refmodel.Rule{{Actions: []string{"get", "info", "put", "activate", "delete"}, Patterns: []string{"*"}}}})
		before, _ := realdb.Dump(d)
		snk.armed.Store(true)
		res, rep, _ := srv.Do(addr, op)
		r.Eval(1)
		r.Count("stalled_front_door_calls", 1)
		r.Distinct("stalled front-door " + string(op.Kind))
		if res.Class == refmodel.OK {
			continue // it waited the stall out and succeeded: fine
		}
		// told "failed": watch the state for a while
		for k := 0; k < 15; k++ {
			now, _ := realdb.Dump(d)
			if now == nil || now.Canon() != before.Canon() {
				r.Violation("effect-after-the-reply", -1, fmt.Sprintf("%s through the front door while the audit log's disk stalled for 5.5 s: the client was answered %d (failure) - and %d ms later the state changed all the same: the call took effect after its own reply, which no order of calls compatible with real time explains", op, rep.Status, 100*k), nil)
				break
			}
			time.Sleep(100 * time.Millisecond)
		}
	}
}
