// C13 — the local cache persists the active set faithfully and tolerates
// loss or corruption. Monitor cache (records every payload, scriptable
// failures) + scripted service: restart-after-every-step from the recorded
// payload with a dead service and through a FileClient; mutational fuzzing of
// cache contents around the valid format; concurrent lookups with a parked
// cache write; FileCache permissions. The crash / I/O-error enumeration of
// FileCache.Write lives in crash_test.go (engine E5, sysfault).
package c13

import (
	"bytes"
	"context"
	"encoding/json"
	"errors"
	"fmt"
	"io/fs"
	"math/rand/v2"
	"os"
	"path/filepath"
	"sort"
	"strings"
	"syscall"
	"testing"
	"time"

	"github.com/tailscale/setec/client/setec"
	"github.com/tailscale/setec/types/api"

	"verif/harness/internal/evid"
	"verif/harness/internal/fakesvc"
)

type idleTicker struct{ ch chan time.Time }

func (idleTicker) Stop()                    {}
func (i idleTicker) Chan() <-chan time.Time { return i.ch }
func (idleTicker) Done()                    {}

type centry struct {
	Secret     *api.SecretValue `json:"secret"`
	LastAccess string           `json:"lastAccess"`
}

var errDead = errors.New("service unreachable")

func TestC13(t *testing.T) {
	r := evid.Start("C13", "exploration")
	defer r.Finish(t)
	r.Assume("a cache document is 'well-formed' iff it is a JSON object whose every key is non-empty and every entry an object with exactly the documented exact-case fields and types; documents that are not JSON or not an object are certainly invalid; in between either source is accepted per secret",
		"crash model for FileCache.Write: process kill at system-call boundaries plus real short writes (see crash part)")
	tmp := evid.TempDir(t)
	n := r.N(1500, 20000)
	for i := 0; i < n; i++ {
		if r.Skip(i) {
			continue
		}
		historyCase(t, r, i, tmp)
	}
	nf := r.N(40000, 600000)
	for i := 0; i < nf; i++ {
		if r.Skip(n + i) {
			continue
		}
		fuzzCase(r, n+i)
	}
	if r.Only < 0 {
		truncations(r)
		for i := 0; i < r.N(40, 600); i++ {
			parkedWriteCase(t, r, i)
		}
		fileCacheModes(r, tmp)
		realFileCacheRestarts(t, r, tmp)
		retainingCaches(r)
		partlyFailingPolls(r)
		expiredThenLookedUpAgain(r)
		failedStartUps(r)
		crashPart(t, r, tmp)
	}
	r.Require("secrets_looked_up_again_after_expiry", "histories_with_hostile_names", "polls_with_one_secret_failing", "restarts_on_a_retaining_cache", "payloads_checked", "restarts_from_payload", "fileclient_checks", "flush_after_lookup", "flush_after_poll", "flush_on_shutdown",
		"fuzz_certainly_valid", "fuzz_certainly_invalid", "fuzz_grey", "cache_write_failures", "parked_write_cases", "crash_points", "io_errors_injected", "steps_with_stale_pinned_secrets", "restarts_from_real_cache_files", "retaining_cache_checks", "failed_start_ups", "failed_initial_cache_writes", "start_ups_with_unreadable_cache", "writes_after_a_killed_write", "quiet_polls_after_a_failed_cache_write")
	r.Rule("histories: initial fetch, lookups, polls with/without service changes (some with failing cache writes), shutdown; after every step the last payload must be a complete document of exactly the known names with their current version+bytes, a new store started from it with a dead service must serve the same, and NewFileClient must agree on non-empty secrets. Fuzz: documents mutated around the valid format (bit flips, truncations, token splices, nulls, wrong types, duplicate/empty keys, case variants, nesting, invalid UTF-8). Crash part: every system call of FileCache.Write as kill point and as error point. Distinct = (step kind, flush expected?), fuzz (mutation, class, sources used), crash (syscall, fault)")
}

func decodePayload(b []byte) (map[string]*centry, error) {
	dec := json.NewDecoder(bytes.NewReader(b))
	var doc map[string]*centry
	if err := dec.Decode(&doc); err != nil {
		return nil, err
	}
	if dec.More() {
		return nil, errors.New("more than one JSON document")
	}
	for n, e := range doc {
		if e == nil || e.Secret == nil {
			return nil, fmt.Errorf("entry %q incomplete", n)
		}
	}
	return doc, nil
}

func historyCase(t *testing.T, r *evid.Run, idx int, tmp string) {
	r.Eval(1)
	rng := r.Rand(uint64(idx))
	var trace []string
	fail := func(key, msg string, extra map[string]any) {
		d := map[string]any{"events": trace}
		for k, v := range extra {
			d[k] = v
		}
		r.Violation(key, idx, fmt.Sprintf("case %d: %s", idx, msg), d)
	}
	svc := fakesvc.New()
	installed := map[string][]byte{} // what the store has installed, as far as the history implies
	all := []string{"svc/a", "svc/b", "x/one", "x/two", "x/empty"}
	if idx%4 == 1 {
		// names are whatever a program asks for: control characters, DEL, quotes and backslashes, characters
		// outside the BMP and non-printable ones (a tag character) - all of them legal JSON object keys once escaped
		all = []string{"svc/a", "svc/b\a\x01", "x/del\x7f\v", "x/tag\U000e0001x", "x/empty", "x/quote\"back\\slash\u2028"}
		r.Count("histories_with_hostile_names", 1)
	}
	ver := map[string]uint32{}
	set := func(nme string) {
		ver[nme]++
		v := []byte(fmt.Sprintf("%s#%d#%x", nme, ver[nme], rng.Uint64()))
		switch rng.IntN(8) {
		case 0:
			v = append(append([]byte("\n\t "), v...), " \r\n"...) // text with whitespace at both ends (a PEM block, say)
		case 1:
			v = append([]byte{0x09}, append(v, 0x0a)...)
		case 2:
			v = []byte(" \n") // nothing but whitespace is a value too
		}
		if nme == "x/empty" || rng.IntN(12) == 0 {
			v = []byte{}
		}
		svc.Set(nme, ver[nme], v)
	}
	for _, nme := range all {
		set(nme)
	}
	declared := all[:1+rng.IntN(2)]
	// In half of the histories an expiry age is configured and the (injected) clock jumps far ahead between
	// steps: looked-up secrets have handles, so they must never drop out of the store, nor out of its cache.
	expiry := time.Duration(0)
	if rng.IntN(2) == 0 {
		expiry = time.Hour
	}
	now := int64(1_700_000_000)
	failWrites := false
	cache := &fakesvc.MonCache{WriteErr: func(int) error {
		if failWrites {
			// (what a file cache reports when the disk is full, the directory or file system is not writable
			// at that moment, or for no classifiable reason)
			switch idx % 5 {
			case 0:
				return &fs.PathError{Op: "open", Path: "/var/cache/app/secrets.tmp123", Err: syscall.EACCES}
			case 1:
				return &fs.PathError{Op: "open", Path: "/var/cache/app/secrets.tmp123", Err: syscall.EROFS}
			case 2:
				return &fs.PathError{Op: "write", Path: "/var/cache/app/secrets.tmp123", Err: syscall.ENOSPC}
			case 3:
				return &os.LinkError{Op: "rename", Old: "/var/cache/app/secrets.tmp123", New: "/var/cache/app/secrets", Err: syscall.EPERM}
			}
			return errors.New("injected cache write failure")
		}
		return nil
	}}
	// now and then the cache cannot be READ at start-up (a transient I/O error): the store starts from the
	// service, and goes on writing its cache like any other
	if rng.IntN(10) == 1 {
		cache.ReadErr = errors.New("injected: cache read failed")
		r.Count("start_ups_with_unreadable_cache", 1)
	}
	// now and then the very first write (after the initial fetch) fails: a transient fault at start-up
	initialFails := rng.IntN(10) == 0 && expiry == 0
	failWrites = initialFails
	st, err := setec.NewStore(context.Background(), setec.StoreConfig{Client: svc, Secrets: append([]string(nil), declared...), AllowLookup: true, Cache: cache,
		PollTicker: idleTicker{make(chan time.Time)}, ExpiryAge: expiry, TimeNow: func() time.Time { return time.Unix(now, 0) }, Logf: func(string, ...any) {}})
	failWrites = false
	if err != nil {
		fail("newstore-fails", err.Error(), nil)
		return
	}
	held := map[string]setec.Secret{} // handles obtained without being read
	current := func(nme string) []byte {
		if expiry > 0 {
			v, _ := svc.Active(nme) // in this mode every poll succeeds, so what the store holds is what the service had at the last install
			if iv, ok := installed[nme]; ok {
				return iv
			}
			return v.Bytes
		}
		return st.Secret(nme).Get()
	}
	closed := false
	defer func() {
		if !closed {
			st.Close()
		}
	}()
	known := map[string]bool{}
	for _, d := range declared {
		known[d] = true
	}
	for _, d := range declared {
		v, _ := svc.Active(d)
		installed[d] = v.Bytes
	}
	// verify compares the last payload with what the store serves, restarts from it, and reads it through a FileClient.
	verify := func(step string, mustHaveFlushed bool, writesBefore int) bool {
		trace = append(trace, step)
		if mustHaveFlushed && cache.NumWrites() == writesBefore {
			fail("no-cache-write-after-install", fmt.Sprintf("%s installed new values (or shut the poller down) but the cache was not rewritten", step), nil)
			return false
		}
		last := cache.Last()
		if last == nil {
			fail("no-cache-write-after-install", step+": nothing has ever been written to the cache", nil)
			return false
		}
		doc, err := decodePayload(last)
		if err != nil {
			fail("payload-not-a-complete-document", fmt.Sprintf("%s: %v", step, err), map[string]any{"payload": string(last)})
			return false
		}
		r.Count("payloads_checked", 1)
		var names []string
		for k := range known {
			names = append(names, k)
		}
		sort.Strings(names)
		if len(doc) != len(known) {
			fail("payload-wrong-names", fmt.Sprintf("%s: payload holds %d secrets, the store knows %v", step, len(doc), names), map[string]any{"payload": string(last)})
			return false
		}
		want := map[string]*api.SecretValue{}
		for _, nme := range names {
			e, ok := doc[nme]
			if !ok {
				fail("payload-wrong-names", fmt.Sprintf("%s: %q is known to the store but missing from the payload", step, nme), map[string]any{"payload": string(last)})
				return false
			}
			cur := current(nme)
			if !bytes.Equal(cur, e.Secret.Value) {
				fail("payload-stale-value", fmt.Sprintf("%s: store serves %q for %q, payload holds %q", step, cur, nme, e.Secret.Value), nil)
				return false
			}
			if !svc.EverActive(nme, uint32(e.Secret.Version), string(e.Secret.Value)) {
				fail("payload-wrong-version", fmt.Sprintf("%s: payload pairs version %d of %q with bytes the service never had under that version", step, e.Secret.Version, nme), nil)
				return false
			}
			want[nme] = e.Secret
		}
		// restart from the payload with the service unreachable
		dead := fakesvc.New()
		dead.Behave = func(*fakesvc.Req) fakesvc.Behaviour { return fakesvc.Behaviour{Fail: errDead} }
		ctx, cancel := context.WithTimeout(context.Background(), 5*time.Second)
		st2, err := setec.NewStore(ctx, setec.StoreConfig{Client: dead, Secrets: append([]string(nil), declared...), AllowLookup: true,
			Cache: &fakesvc.MonCache{Initial: last}, PollInterval: -1, Logf: func(string, ...any) {}})
		cancel()
		if err != nil {
			fail("restart-from-cache-fails", fmt.Sprintf("%s: a store started from the cache with the service unreachable did not start: %v", step, err), map[string]any{"payload": string(last)})
			return false
		}
		r.Count("restarts_from_payload", 1)
		for _, nme := range names {
			h := st2.Secret(nme)
			if h == nil || !bytes.Equal(h.Get(), want[nme].Value) {
				fail("restart-serves-other-values", fmt.Sprintf("%s: restarted store does not serve the cached value of %q", step, nme), nil)
				st2.Close()
				return false
			}
		}
		st2.Close()
		if dead.NumRequests() != 0 {
			for _, q := range dead.Log() {
				if q.Outcome == "value" {
					fail("restart-contacted-service", step+": the restarted store obtained a value from the service", nil)
					return false
				}
			}
		}
		// the same bytes through the file-backed client
		p := filepath.Join(tmp, fmt.Sprintf("fc-%d.json", idx))
		os.WriteFile(p, last, 0o600)
		fc, err := setec.NewFileClient(p)
		os.Remove(p)
		if err != nil {
			fail("fileclient-rejects-cache", fmt.Sprintf("%s: NewFileClient does not accept the cache file: %v", step, err), map[string]any{"payload": string(last)})
			return false
		}
		for _, nme := range names {
			if len(want[nme].Value) == 0 {
				continue
			}
			sv, err := fc.Get(context.Background(), nme)
			r.Count("fileclient_checks", 1)
			if err != nil || !bytes.Equal(sv.Value, want[nme].Value) || sv.Version != want[nme].Version {
				fail("fileclient-disagrees", fmt.Sprintf("%s: FileClient on the cache file gives %v/%v for %q, cache holds v%d %q", step, sv, err, nme, want[nme].Version, want[nme].Value), nil)
				return false
			}
		}
		return true
	}
	if initialFails {
		// nothing reached the cache at start-up; a poll that finds nothing new must make up for it
		r.Count("failed_initial_cache_writes", 1)
		r.Distinct("initial cache write fails")
		if err := st.Refresh(context.Background()); err != nil {
			fail("poll-fails", err.Error(), nil)
			return
		}
		if !verify("quiet poll after the initial cache write failed", true, 0) {
			return
		}
	} else if !verify("initial fetch", true, 0) {
		return
	}
	for e, nEv := 0, 3+rng.IntN(10); e < nEv; e++ {
		wb := cache.NumWrites()
		switch rng.IntN(6) {
		case 0, 1: // lookup
			var cand []string
			for _, nme := range all {
				if !known[nme] {
					cand = append(cand, nme)
				}
			}
			if len(cand) == 0 {
				continue
			}
			nme := cand[rng.IntN(len(cand))]
			h, err := st.LookupSecret(context.Background(), nme)
			if err != nil {
				fail("lookup-fails", err.Error(), nil)
				return
			}
			held[nme] = h
			if v, ok := svc.Active(nme); ok {
				installed[nme] = v.Bytes
			}
			known[nme] = true
			r.Count("flush_after_lookup", 1)
			r.Distinct("lookup flush=true")
			if !verify("lookup "+nme, true, wb) {
				return
			}
		case 2, 3: // poll with change(s)
			changed := false
			for nme := range known {
				if rng.IntN(2) == 0 {
					set(nme)
					changed = true
				}
			}
			failWrites = rng.IntN(6) == 0 && expiry == 0
			failedBefore := cache.NumFailed()
			err := st.Refresh(context.Background())
			if err == nil {
				for nme := range known {
					if v, ok := svc.Active(nme); ok {
						installed[nme] = v.Bytes
					}
				}
			}
			if failWrites {
				// the write failed: the cache is allowed to be behind; a later successful flush must catch up
				r.Count("cache_write_failures", 1)
				failWrites = false
				trace = append(trace, "poll with failing cache write")
				r.Distinct("poll cache-write-fails")
				if rng.IntN(2) == 0 || cache.NumFailed() == failedBefore {
					set(firstKey(known)) // something new to install ...
				} else {
					r.Count("quiet_polls_after_a_failed_cache_write", 1) // ... or nothing at all: a write was refused, so the store owes the cache one all the same
				}
				wb = cache.NumWrites()
				if err := st.Refresh(context.Background()); err != nil {
					fail("poll-fails", err.Error(), nil)
					return
				}
				for nme := range known {
					if v, ok := svc.Active(nme); ok {
						installed[nme] = v.Bytes
					}
				}
				changed = true
			} else if err != nil {
				fail("poll-fails", err.Error(), nil)
				return
			}
			if changed {
				r.Count("flush_after_poll", 1)
			}
			r.Distinct(fmt.Sprintf("poll flush=%t", changed))
			if !verify("poll", changed, wb) {
				return
			}
		case 4: // poll without change
			if err := st.Refresh(context.Background()); err != nil {
				fail("poll-fails", err.Error(), nil)
				return
			}
			r.Distinct("poll flush=false")
			if !verify("poll (nothing changed)", false, wb) {
				return
			}
		case 5: // read (changes last access only)
			if expiry == 0 {
				for nme := range known {
					st.Secret(nme).Get()
				}
			}
		}
		if expiry > 0 {
			now += int64(2*3600 + rng.IntN(100000)) // everything that is not read goes stale
			r.Count("steps_with_stale_pinned_secrets", 1)
		}
	}
	wb := cache.NumWrites()
	names := make([]string, 0, len(known))
	for k := range known {
		names = append(names, k)
	}
	finalVals := map[string][]byte{}
	for _, nme := range names {
		finalVals[nme] = current(nme)
	}
	// (in every eighth history the cache is slow for this last write: when Close has returned the write is over)
	if idx%8 == 3 {
		cache.SetOnWrite(func(int, []byte) { time.Sleep(15 * time.Millisecond) })
	}
	st.Close()
	nwAtClose := cache.NumWrites()
	cache.SetOnWrite(nil)
	closed = true
	r.Count("flush_on_shutdown", 1)
	trace = append(trace, "close")
	if nwAtClose == wb {
		fail("no-cache-write-on-shutdown", "the poller shut down without rewriting the cache", nil)
		return
	}
	doc, err := decodePayload(cache.Last())
	if err != nil || len(doc) != len(known) {
		fail("payload-not-a-complete-document", fmt.Sprintf("shutdown payload: %v (%d entries, %d known)", err, len(doc), len(known)), map[string]any{"payload": string(cache.Last())})
		return
	}
	for _, nme := range names {
		if e := doc[nme]; e == nil || !bytes.Equal(e.Secret.Value, finalVals[nme]) {
			fail("payload-stale-value", fmt.Sprintf("shutdown payload does not hold the final value of %q", nme), nil)
			return
		}
	}
	if idx < 2 {
		r.Sample(map[string]any{"case": idx, "declared": declared, "events": trace, "final_payload": string(cache.Last())})
	}
}

func firstKey(m map[string]bool) string {
	var ks []string
	for k := range m {
		ks = append(ks, k)
	}
	sort.Strings(ks)
	return ks[0]
}

// ---- malformed cache contents ----

// wellFormed is a strict reading of the documented shape.
func wellFormed(b []byte) (map[string]*centry, bool) {
	if !json.Valid(b) { // exactly one JSON value, nothing after it
		return nil, false
	}
	dec := json.NewDecoder(bytes.NewReader(b))
	dec.DisallowUnknownFields()
	var raw map[string]json.RawMessage
	if err := dec.Decode(&raw); err != nil || dec.More() || raw == nil {
		return nil, false
	}
	// duplicate keys and case variants: compare a re-encoding of the key set with a token walk
	if countTopLevelKeys(b) != len(raw) {
		return nil, false
	}
	out := map[string]*centry{}
	for k, rv := range raw {
		if k == "" {
			return nil, false
		}
		var fields map[string]json.RawMessage
		if err := json.Unmarshal(rv, &fields); err != nil || fields == nil {
			return nil, false
		}
		for f := range fields {
			if f != "secret" && f != "lastAccess" {
				return nil, false
			}
		}
		sraw, ok := fields["secret"]
		if !ok {
			return nil, false
		}
		var sf map[string]json.RawMessage
		if err := json.Unmarshal(sraw, &sf); err != nil || sf == nil {
			return nil, false
		}
		for f := range sf {
			if f != "Value" && f != "Version" {
				return nil, false
			}
		}
		if _, ok := sf["Value"]; !ok {
			return nil, false
		}
		if _, ok := sf["Version"]; !ok {
			return nil, false
		}
		var e centry
		d2 := json.NewDecoder(bytes.NewReader(rv))
		d2.DisallowUnknownFields()
		if err := d2.Decode(&e); err != nil || e.Secret == nil {
			return nil, false
		}
		if strings.Contains(string(rv), `"Value":null`) || strings.Contains(string(rv), `"Value": null`) {
			return nil, false
		}
		if la, ok := fields["lastAccess"]; ok {
			s := strings.TrimSpace(string(la))
			if len(s) < 3 || s[0] != '"' || strings.Trim(s[1:len(s)-1], "0123456789") != "" {
				return nil, false
			}
		} else {
			return nil, false
		}
		if countTopLevelKeys(rv) != len(fields) || countTopLevelKeys(sraw) != len(sf) {
			return nil, false
		}
		out[k] = &e
	}
	return out, true
}

// typeViolation reports whether a JSON object document has an entry that is not an object, or whose
// exact-case "secret" is present but not an object, or whose exact-case "Version" is not a number that
// fits a 32-bit unsigned version, or whose exact-case "Value" is neither a base64 string nor null.
// (Case variants, unknown fields, duplicate keys and the format of lastAccess stay grey.)
func typeViolation(b []byte) bool {
	var raw map[string]json.RawMessage
	if json.Unmarshal(b, &raw) != nil || raw == nil {
		return false
	}
	for _, rv := range raw {
		var fields map[string]json.RawMessage
		if json.Unmarshal(rv, &fields) != nil || fields == nil {
			return true // entry is not an object (or is null)
		}
		sraw, ok := fields["secret"]
		if !ok {
			continue
		}
		var sf map[string]json.RawMessage
		if json.Unmarshal(sraw, &sf) != nil || sf == nil {
			return true
		}
		if v, ok := sf["Version"]; ok {
			var n uint32
			if json.Unmarshal(v, &n) != nil {
				return true
			}
		}
		if v, ok := sf["Value"]; ok {
			var bs []byte
			if json.Unmarshal(v, &bs) != nil {
				return true
			}
		}
	}
	return false
}

func countTopLevelKeys(b []byte) int {
	dec := json.NewDecoder(bytes.NewReader(b))
	if tok, err := dec.Token(); err != nil || tok != json.Delim('{') {
		return -1
	}
	n := 0
	for dec.More() {
		if _, err := dec.Token(); err != nil { // key
			return -1
		}
		var skip json.RawMessage
		if err := dec.Decode(&skip); err != nil {
			return -1
		}
		n++
	}
	return n
}

// lenientValues extracts, per name, the value a tolerant reader could take from the document.
func lenientValues(b []byte) map[string][][]byte {
	out := map[string][][]byte{}
	var raw map[string]json.RawMessage
	if json.Unmarshal(b, &raw) != nil {
		return out
	}
	// every occurrence of every key (duplicates included)
	dec := json.NewDecoder(bytes.NewReader(b))
	if tok, err := dec.Token(); err != nil || tok != json.Delim('{') {
		return out
	}
	for dec.More() {
		kt, err := dec.Token()
		if err != nil {
			return out
		}
		var rv json.RawMessage
		if dec.Decode(&rv) != nil {
			return out
		}
		var e centry
		json.Unmarshal(rv, &e) // partial results are kept on purpose
		if e.Secret != nil {
			k, _ := kt.(string)
			out[k] = append(out[k], e.Secret.Value)
		}
	}
	return out
}

var dict = []string{`null`, `{}`, `[]`, `""`, `"secret"`, `"Secret"`, `"SECRET"`, `"Value"`, `"value"`, `"Version"`, `"lastAccess"`, `"lastaccess"`, `0`, `-1`, `1e99`, `true`,
	`{"secret":null}`, `{"secret":{}}`, `{"secret":{"Value":null,"Version":1}}`, `{"secret":{"Value":"eA==","Version":"1"}}`, `{"secret":{"Value":12,"Version":1}}`,
	`{"secret":{"Value":"eA==","Version":1},"lastAccess":5}`, `{"secret":{"Value":"eA==","Version":1},"lastAccess":"x"}`, `{"secret":{"Value":"!!","Version":1}}`,
	`{"secret":{"Value":"eA==","Version":4294967296}}`, `{"secret":{"Value":"eA==","Version":-1}}`, `,`, `:`, `}`, `{`, `]`, `"`, "\xff\xfe", " ", "\n"}

func fuzzCase(r *evid.Run, idx int) {
	r.Eval(1)
	rng := r.Rand(uint64(idx))
	declared := []string{"f/a", "f/b"}
	base := map[string]*centry{
		"f/a":     {Secret: &api.SecretValue{Value: []byte("cached-a"), Version: 2}, LastAccess: "1700000000"},
		"f/b":     {Secret: &api.SecretValue{Value: []byte("cached-b"), Version: 5}, LastAccess: "0"},
		"f/extra": {Secret: &api.SecretValue{Value: []byte("cached-extra"), Version: 1}, LastAccess: "17"},
	}
	if rng.IntN(3) == 0 {
		delete(base, "f/b")
	}
	good, _ := json.Marshal(base)
	doc := append([]byte(nil), good...)
	mut := "none"
	for k, nm := 0, rng.IntN(3); k < nm || mut == "none"; k++ {
		switch x := rng.IntN(12); x {
		case 0:
			mut = "bitflip"
			if len(doc) > 0 {
				doc[rng.IntN(len(doc))] ^= 1 << rng.IntN(8)
			}
		case 1:
			mut = "truncate"
			doc = doc[:rng.IntN(len(doc)+1)]
		case 2:
			mut = "splice-token"
			at := rng.IntN(len(doc) + 1)
			tok := dict[rng.IntN(len(dict))]
			doc = append(append(append([]byte(nil), doc[:at]...), tok...), doc[at:]...)
		case 3:
			mut = "replace-entry"
			e := dict[16+rng.IntN(10)]
			doc = []byte(strings.Replace(string(good), `{"secret":{"Value":"Y2FjaGVkLWE=","Version":2},"lastAccess":"1700000000"}`, e, 1))
		case 4:
			mut = "whole-token"
			doc = []byte(dict[rng.IntN(len(dict))])
		case 5:
			mut = "duplicate-key"
			doc = []byte(strings.Replace(string(good), `{"f/a":`, `{"f/a":{"secret":{"Value":"ZHVw","Version":9},"lastAccess":"1"},"f/a":`, 1))
		case 6:
			mut = "empty-key"
			doc = []byte(strings.Replace(string(good), `{"f/a":`, `{"":{"secret":{"Value":"eA==","Version":1},"lastAccess":"1"},"f/a":`, 1))
		case 7:
			mut = "case-variant"
			doc = []byte(strings.NewReplacer(`"secret"`, []string{`"Secret"`, `"SECRET"`}[rng.IntN(2)], `"Value"`, `"value"`).Replace(string(good)))
		case 8:
			mut = "nesting"
			doc = []byte(strings.Repeat("[", 1+rng.IntN(2000)) + string(good))
		case 9:
			mut = "whitespace"
			doc = []byte(strings.ReplaceAll(string(good), ",", " ,\n\t"))
		case 10:
			mut = "empty"
			doc = []byte(strings.Repeat(" ", rng.IntN(3)))
		case 11:
			mut = "unmutated"
		}
	}
	svc := fakesvc.New()
	svc.Set("f/a", 7, []byte("service-a"))
	svc.Set("f/b", 7, []byte("service-b"))
	svc.Set("f/extra", 7, []byte("service-extra"))
	wf, isWF := wellFormed(doc)
	class := "grey"
	var top any
	switch {
	case isWF:
		class = "certainly-valid"
	case !json.Valid(doc):
		class = "certainly-invalid"
	case typeViolation(doc):
		class = "certainly-invalid" // a documented field holds a value of the wrong JSON type: not the documented shape
	default:
		if json.Unmarshal(doc, &top); top != nil {
			if _, isObj := top.(map[string]any); !isObj {
				class = "certainly-invalid"
			}
		} else {
			class = "certainly-invalid" // JSON null
		}
	}
	r.Count("fuzz_"+strings.ReplaceAll(class, "-", "_"), 1)
	var st *setec.Store
	var err error
	pan := func() (p any) {
		defer func() { p = recover() }()
		ctx, cancel := context.WithTimeout(context.Background(), 10*time.Second)
		defer cancel()
		st, err = setec.NewStore(ctx, setec.StoreConfig{Client: svc, Secrets: append([]string(nil), declared...), AllowLookup: true,
			Cache: &fakesvc.MonCache{Initial: doc}, PollInterval: -1, Logf: func(string, ...any) {}})
		return nil
	}()
	fail := func(key, msg string) {
		r.Violation(key, idx, fmt.Sprintf("fuzz case %d (%s, %s): %s", idx, mut, class, msg), map[string]any{"cache_content": string(doc), "cache_content_hex": fmt.Sprintf("%x", doc)})
	}
	if pan != nil {
		fail("cache-content-panics", fmt.Sprintf("NewStore panicked: %v", pan))
		return
	}
	if err != nil {
		fail("cache-content-fails-start", fmt.Sprintf("NewStore failed although the service is healthy: %v", err))
		return
	}
	defer st.Close()
	lv := lenientValues(doc)
	used := map[string]bool{}
	for _, d := range declared {
		var got []byte
		if p := func() (p any) { defer func() { p = recover() }(); got = st.Secret(d).Get(); return nil }(); p != nil {
			fail("cache-content-panics", fmt.Sprintf("Secret(%q).Get() panicked: %v", d, p))
			return
		}
		svcVal := []byte("service-" + strings.TrimPrefix(d, "f/"))
		fromSvc := bytes.Equal(got, svcVal)
		switch class {
		case "certainly-valid":
			if e, ok := wf[d]; ok {
				if !bytes.Equal(got, e.Secret.Value) {
					fail("valid-cache-not-used", fmt.Sprintf("%q = %q, the well-formed cache supplies %q", d, got, e.Secret.Value))
					return
				}
				used["cache"] = true
			} else if !fromSvc {
				fail("third-value", fmt.Sprintf("%q = %q is neither the service's value nor in the cache", d, got))
				return
			} else {
				used["service"] = true
			}
		case "certainly-invalid":
			if !fromSvc {
				fail("invalid-cache-not-ignored", fmt.Sprintf("%q = %q although the cache content is not a JSON object; the service has %q", d, got, svcVal))
				return
			}
			used["service"] = true
		default:
			okv := fromSvc
			for _, c := range lv[d] {
				if bytes.Equal(got, c) {
					okv = true
					used["cache"] = true
				}
			}
			if fromSvc {
				used["service"] = true
			}
			if !okv {
				fail("third-value", fmt.Sprintf("%q = %q is neither the service's value nor a value the cache document holds for it", d, got))
				return
			}
		}
	}
	if class == "certainly-valid" {
		// with a well-formed cache only the declared names it lacks may be fetched
		for _, q := range svc.Log() {
			if _, ok := wf[q.Name]; ok {
				fail("valid-cache-but-fetched", fmt.Sprintf("%q is in the well-formed cache but was requested from the service", q.Name))
				return
			}
		}
	}
	var us []string
	for k := range used {
		us = append(us, k)
	}
	sort.Strings(us)
	r.Distinct(fmt.Sprintf("fuzz %s %s sources=%s", mut, class, strings.Join(us, "+")))
	if idx%5000 == 1 {
		r.Sample(map[string]any{"fuzz_case": idx, "mutation": mut, "class": class, "content": string(doc)})
	}
}

// truncations: every truncation length of two small documents (exhaustive).
func truncations(r *evid.Run) {
	docs := []string{
		`{"f/a":{"secret":{"Value":"Y2FjaGVkLWE=","Version":2},"lastAccess":"1700000000"}}`,
		`{"f/a":{"secret":{"Value":"Y2FjaGVkLWE=","Version":2},"lastAccess":"1700000000"},"f/b":{"secret":{"Value":"","Version":1},"lastAccess":"0"}}`,
	}
	for di, d := range docs {
		for cut := 0; cut <= len(d); cut++ {
			r.Eval(1)
			svc := fakesvc.New()
			svc.Set("f/a", 7, []byte("service-a"))
			var st *setec.Store
			var err error
			pan := func() (p any) {
				defer func() { p = recover() }()
				st, err = setec.NewStore(context.Background(), setec.StoreConfig{Client: svc, Secrets: []string{"f/a"}, Cache: &fakesvc.MonCache{Initial: []byte(d[:cut])}, PollInterval: -1, Logf: func(string, ...any) {}})
				return nil
			}()
			if pan != nil || err != nil {
				r.Violation("cache-content-panics", -1, fmt.Sprintf("document %d truncated to %d bytes: panic=%v err=%v", di, cut, pan, err), map[string]any{"content": d[:cut]})
				continue
			}
			got := string(st.Secret("f/a").Get())
			st.Close()
			want := "service-a"
			if cut == len(d) {
				want = "cached-a"
			}
			if got != want {
				r.Violation("truncated-cache-not-ignored", -1, fmt.Sprintf("document %d truncated to %d of %d bytes: f/a = %q, want %q", di, cut, len(d), got, want), map[string]any{"content": d[:cut]})
			}
			r.Count("exhaustive_truncations", 1)
		}
	}
	r.Distinct("exhaustive-truncations")
}

// parkedWriteCase: two lookups overlap while the first one's cache write is parked; afterwards the
// cache must hold both secrets (payloads are written in install order).
func parkedWriteCase(t *testing.T, r *evid.Run, idx int) {
	r.Eval(1)
	rng := r.Rand(uint64(4_000_000 + idx))
	svc := fakesvc.New()
	for _, n := range []string{"k/decl", "k/one", "k/two"} {
		svc.Set(n, 1, []byte("v-"+n))
	}
	release := make(chan struct{})
	parked := make(chan struct{}, 1)
	armed := false
	cache := &fakesvc.MonCache{}
	cache.OnWrite = func(n int, data []byte) {
		if armed {
			armed = false
			parked <- struct{}{}
			<-release
		}
	}
	st, err := setec.NewStore(context.Background(), setec.StoreConfig{Client: svc, Secrets: []string{"k/decl"}, AllowLookup: true, Cache: cache, PollInterval: -1, Logf: func(string, ...any) {}})
	if err != nil {
		t.Fatal(err)
	}
	defer st.Close()
	second := "lookup"
	if rng.IntN(2) == 0 {
		second = "poll"
	}
	armed = true
	d1 := make(chan error, 1)
	go func() { _, err := st.LookupSecret(context.Background(), "k/one"); d1 <- err }()
	select {
	case <-parked:
	case <-time.After(20 * time.Second):
		r.Inconclusive("parked-write: the first lookup's cache write never started")
		close(release)
		return
	}
	d2 := make(chan error, 1)
	go func() {
		if second == "lookup" {
			_, err := st.LookupSecret(context.Background(), "k/two")
			d2 <- err
		} else {
			svc.Set("k/decl", 2, []byte("v2-k/decl"))
			d2 <- st.Refresh(context.Background())
		}
	}()
	// give the second operation a chance to overtake (it cannot, if writes are ordered like installs)
	select {
	case err := <-d2:
		d2 <- err
	case <-time.After(30 * time.Millisecond):
	}
	close(release)
	if err := <-d1; err != nil {
		t.Fatal(err)
	}
	if err := <-d2; err != nil {
		t.Fatal(err)
	}
	r.Count("parked_write_cases", 1)
	r.Distinct("parked-write then " + second)
	doc, err := decodePayload(cache.Last())
	if err != nil {
		r.Violation("payload-not-a-complete-document", idx, err.Error(), nil)
		return
	}
	want := map[string]string{"k/decl": "v-k/decl", "k/one": "v-k/one"}
	if second == "lookup" {
		want["k/two"] = "v-k/two"
	} else {
		want["k/decl"] = "v2-k/decl"
	}
	for n, v := range want {
		if e := doc[n]; e == nil || string(e.Secret.Value) != v {
			r.Violation("older-payload-overwrote-newer", idx, fmt.Sprintf("parked-write case %d (%s): after two overlapping installs the cache lacks the latest state of %q (payload %s)", idx, second, n, cache.Last()), nil)
			return
		}
	}
}

// fileCacheModes: the file cache is owner-only, its directory too.
func fileCacheModes(r *evid.Run, tmp string) {
	old := syscall.Umask(0)
	defer syscall.Umask(old)
	dir := filepath.Join(tmp, "modes", "sub", "dir")
	fc, err := setec.NewFileCache(filepath.Join(dir, "cache.json"))
	r.Eval(1)
	if err != nil {
		r.Violation("filecache-create", -1, err.Error(), nil)
		return
	}
	for i := 0; i < 3; i++ {
		if err := fc.Write([]byte(fmt.Sprintf(`{"n":%d}`, i))); err != nil {
			r.Violation("filecache-write", -1, err.Error(), nil)
			return
		}
		st, _ := os.Stat(filepath.Join(dir, "cache.json"))
		if st.Mode().Perm() != 0o600 {
			r.Violation("filecache-mode", -1, fmt.Sprintf("cache file mode is %o with umask 0, want 0600", st.Mode().Perm()), nil)
		}
		got, _ := fc.Read()
		if string(got) != fmt.Sprintf(`{"n":%d}`, i) {
			r.Violation("filecache-readback", -1, "Read does not return what Write stored", nil)
		}
	}
	for _, d := range []string{dir, filepath.Dir(dir), filepath.Dir(filepath.Dir(dir))} {
		st, _ := os.Stat(d)
		if st.Mode().Perm()&0o077 != 0 {
			r.Violation("filecache-dir-mode", -1, fmt.Sprintf("cache directory %s has mode %o with umask 0, want owner-only", d, st.Mode().Perm()), nil)
		}
	}
	// a cache file that already exists with wider permissions (restored from a backup, created by hand)
	for _, mode := range []os.FileMode{0o644, 0o640, 0o666, 0o604} {
		for _, same := range []bool{false, true} {
			p := filepath.Join(dir, fmt.Sprintf("pre-%o-%t.json", mode, same))
			os.WriteFile(p, []byte(`{"old":1}`), mode)
			os.Chmod(p, mode)
			pc, err := setec.NewFileCache(p)
			if err != nil {
				r.Violation("filecache-create", -1, err.Error(), nil)
				continue
			}
			doc := []byte(`{"new":2}`)
			if same {
				doc = []byte(`{"old":1}`)
			}
			r.Eval(1)
			if err := pc.Write(doc); err != nil {
				r.Violation("filecache-write", -1, err.Error(), nil)
				continue
			}
			if st, _ := os.Stat(p); st.Mode().Perm() != 0o600 {
				r.Violation("filecache-mode", -1, fmt.Sprintf("a cache file that existed with mode %o has mode %o after Write (same content: %t), want 0600", mode, st.Mode().Perm(), same), nil)
			}
			os.Remove(p)
			r.Distinct(fmt.Sprintf("filecache pre-existing mode=%o same-content=%t", mode, same))
		}
	}
	ents, _ := os.ReadDir(dir)
	if len(ents) != 1 {
		r.Violation("filecache-leftovers", -1, fmt.Sprintf("%d files in the cache directory after successful writes", len(ents)), nil)
	}
	r.Distinct("filecache-modes")
}

var _ = rand.IntN

// realFileCacheRestarts: the real FileCache end to end, with documents from a few bytes to several megabytes
// (large secrets, many secrets): a store fills it, is closed, and a new store starts from the same file while
// the service is unreachable; it must serve exactly the same values, and so must a FileClient on that file.
func realFileCacheRestarts(t *testing.T, r *evid.Run, tmp string) {
	rng := r.Rand(131313)
	shapes := []struct {
		n, size int
	}{{1, 10}, {3, 1000}, {2, 300 << 10}, {5, 300 << 10}, {1, 2 << 20}, {400, 3000}, {3, 1 << 20}}
	for si, sh := range shapes {
		dir := filepath.Join(tmp, fmt.Sprintf("realcache%d", si))
		path := filepath.Join(dir, "cache.json")
		svc := fakesvc.New()
		var names []string
		want := map[string][]byte{}
		for i := 0; i < sh.n; i++ {
			nme := fmt.Sprintf("big/%d", i)
			v := make([]byte, sh.size)
			for k := range v {
				v[k] = byte(rng.IntN(256))
			}
			names = append(names, nme)
			want[nme] = v
			svc.Set(nme, uint32(1+i%3), v)
		}
		fc, err := setec.NewFileCache(path)
		if err != nil {
			t.Fatal(err)
		}
		st, err := setec.NewStore(context.Background(), setec.StoreConfig{Client: svc, Secrets: names, Cache: fc, PollInterval: -1, Logf: func(string, ...any) {}})
		if err != nil {
			r.Violation("newstore-fails", -1, fmt.Sprintf("real file cache, %d secrets of %d bytes: %v", sh.n, sh.size, err), nil)
			continue
		}
		st.Close()
		fi, _ := os.Stat(path)
		r.Eval(1)
		r.Count("restarts_from_real_cache_files", 1)
		r.Distinct(fmt.Sprintf("real cache file %d secrets x %d bytes", sh.n, sh.size))
		// the service is gone
		dead := fakesvc.New()
		dead.Behave = func(*fakesvc.Req) fakesvc.Behaviour { return fakesvc.Behaviour{Fail: fakesvc.ErrInjected, Plain: true} }
		fc2, err := setec.NewFileCache(path)
		if err != nil {
			t.Fatal(err)
		}
		ctx, cancel := context.WithTimeout(context.Background(), 3*time.Second)
		st2, err := setec.NewStore(ctx, setec.StoreConfig{Client: dead, Secrets: names, Cache: fc2, PollInterval: -1, Logf: func(string, ...any) {}})
		cancel()
		if err != nil {
			var size int64
			if fi != nil {
				size = fi.Size()
			}
			r.Violation("restart-from-cache-fails", -1, fmt.Sprintf("a store that filled a real cache file (%d secrets of %d bytes, file of %d bytes) was closed; a new store on the same file with the service unreachable does not start: %v", sh.n, sh.size, size, err), nil)
			continue
		}
		for _, nme := range names {
			if got := st2.Secret(nme).Get(); !bytes.Equal(got, want[nme]) {
				r.Violation("restart-serves-other-bytes", -1, fmt.Sprintf("restarted from the real cache file, %q yields %d bytes, want %d", nme, len(got), len(want[nme])), nil)
				break
			}
		}
		st2.Close()
		fcl, err := setec.NewFileClient(path)
		if err != nil {
			r.Violation("fileclient-rejects-cache", -1, err.Error(), nil)
			continue
		}
		for _, nme := range names {
			sv, err := fcl.Get(context.Background(), nme)
			if err != nil || !bytes.Equal(sv.Value, want[nme]) {
				r.Violation("fileclient-differs", -1, fmt.Sprintf("FileClient on the real cache file: %q: err %v", nme, err), nil)
				break
			}
		}
	}
}

// keepCache keeps the very slice it is given (as setec.MemCache does) and can refuse a write.
type keepCache struct {
	data   []byte
	refuse bool
}

func (c *keepCache) Write(b []byte) error {
	if c.refuse {
		return errors.New("injected: cache write refused")
	}
	c.data = b
	return nil
}
func (c *keepCache) Read() ([]byte, error) { return c.data, nil }

// retainingCaches: a cache implementation may keep the slice it was handed (the in-memory cache of the package
// does). What the cache holds changes when a write succeeds, not otherwise: a refused write leaves the old
// document, byte for byte, and so does everything the store does afterwards until a write succeeds.
func retainingCaches(r *evid.Run) {
	rng := r.Rand(141414)
	for c := 0; c < 60; c++ {
		svc := fakesvc.New()
		long := fmt.Sprintf("a-rather-long-first-value-%x-%x", rng.Uint64(), rng.Uint64())
		svc.Set("s", 1, []byte(long))
		svc.Set("t", 1, []byte("t-value"))
		cache := &keepCache{}
		st, err := setec.NewStore(context.Background(), setec.StoreConfig{Client: svc, Secrets: []string{"s", "t"}, Cache: cache, AllowLookup: true, PollInterval: -1, Logf: func(string, ...any) {}})
		if err != nil {
			r.Violation("newstore-fails", -1, err.Error(), nil)
			return
		}
		for step := 0; step < 6; step++ {
			held := string(cache.data) // what the cache holds now, copied
			cache.refuse = rng.IntN(2) == 0
			switch rng.IntN(3) {
			case 0:
				svc.Set("s", uint32(step+2), []byte(fmt.Sprintf("v%d", step))) // shorter than before: fits the old buffer
			case 1:
				svc.Set("t", uint32(step+2), []byte(fmt.Sprintf("t-%d-%x", step, rng.Uint64())))
			case 2:
				svc.Set(fmt.Sprintf("looked/%d", step), 1, []byte("x"))
				st.LookupSecret(context.Background(), fmt.Sprintf("looked/%d", step))
			}
			st.Refresh(context.Background())
			r.Eval(1)
			r.Count("retaining_cache_checks", 1)
			if cache.refuse && string(cache.data) != held {
				r.Violation("refused-write-changed-cache", -1, fmt.Sprintf("a cache that keeps the slice it is given refused a write; the document it holds has changed all the same: was %q, is %q", held, cache.data), nil)
				st.Close()
				return
			}
			if _, ok := wellFormed(cache.data); !ok && len(cache.data) > 0 {
				r.Violation("payload-not-a-complete-document", -1, fmt.Sprintf("the cache holds %q", cache.data), nil)
				st.Close()
				return
			}
			cache.refuse = false
		}
		st.Refresh(context.Background())
		served := map[string]string{}
		for _, n := range []string{"s", "t"} {
			served[n] = string(st.Secret(n).Get())
		}
		st.Close()
		// the same cache OBJECT is handed to the next incarnations (an in-memory cache shared by the components
		// of a program that re-creates its store): starting from it does not use it up
		for inc := 1; inc <= 2; inc++ {
			held := string(cache.data)
			dead := fakesvc.New()
			dead.Behave = func(*fakesvc.Req) fakesvc.Behaviour {
				return fakesvc.Behaviour{Fail: errors.New("service unreachable")}
			}
			ctx, cancel := context.WithTimeout(context.Background(), 2*time.Second)
			st2, err := setec.NewStore(ctx, setec.StoreConfig{Client: dead, Secrets: []string{"s", "t"}, Cache: cache, PollInterval: -1, Logf: func(string, ...any) {}})
			cancel()
			r.Eval(1)
			r.Count("restarts_on_a_retaining_cache", 1)
			if err != nil {
				r.Violation("restart-from-cache-fails", -1, fmt.Sprintf("incarnation %d on a cache object that keeps and hands out its own slice, service unreachable: %v; the cache held %.60q before this start and holds %.60q now", inc, err, held, cache.data), nil)
				return
			}
			for n, want := range served {
				if got := string(st2.Secret(n).Get()); got != want {
					r.Violation("restart-serves-other-values", -1, fmt.Sprintf("incarnation %d from the retained cache serves %q for %q, the previous process served %q", inc, got, n, want), nil)
				}
			}
			st2.Close()
			if m, ok := wellFormed(cache.data); !ok || m["s"] == nil || m["t"] == nil {
				r.Violation("payload-not-a-complete-document", -1, fmt.Sprintf("after incarnation %d merely STARTED from it, the retaining cache holds %.80q (before: %.80q)", inc, cache.data, held), nil)
				return
			}
		}
	}
	r.Distinct("slice-retaining cache")
}

// partlyFailingPolls: a poll in which the check of ONE secret fails (it was deleted on the server, access to it
// was revoked) while another secret has a new version. Whatever the store does with the new version - install it
// or leave it for the next complete poll - the cache holds what the store serves: checked after every poll, and
// by a restart from the cache with the service unreachable.
func partlyFailingPolls(r *evid.Run) {
	rng := r.Rand(151515)
	for c, n := 0, r.N(40, 400); c < n; c++ {
		svc := fakesvc.New()
		names := []string{"p/a", "p/b", "p/c"}
		ver := map[string]uint32{}
		for _, nm := range names {
			ver[nm] = 1
			svc.Set(nm, 1, []byte(nm+"-version-1"))
		}
		failing := map[string]error{}
		svc.Behave = func(q *fakesvc.Req) fakesvc.Behaviour {
			if e := failing[q.Name]; e != nil {
				return fakesvc.Behaviour{Fail: e, Plain: true}
			}
			return fakesvc.Behaviour{}
		}
		cache := &fakesvc.MonCache{}
		st, err := setec.NewStore(context.Background(), setec.StoreConfig{Client: svc, Secrets: names, Cache: cache, PollInterval: -1, Logf: func(string, ...any) {}})
		if err != nil {
			r.Violation("newstore-fails", -1, err.Error(), nil)
			return
		}
		for step := 0; step < 6; step++ {
			for _, nm := range names {
				delete(failing, nm)
				switch rng.IntN(4) {
				case 0:
					failing[nm] = []error{api.ErrNotFound, api.ErrAccessDenied, errors.New("injected: connection reset")}[rng.IntN(3)]
				case 1, 2:
					ver[nm]++
					svc.Set(nm, ver[nm], []byte(fmt.Sprintf("%s-version-%d", nm, ver[nm])))
				}
			}
			perr := st.Refresh(context.Background())
			r.Eval(1)
			r.Count("polls_with_one_secret_failing", 1)
			r.Distinct(fmt.Sprintf("partly failing poll, %d failing, reported=%t", len(failing), perr != nil))
			doc, derr := decodePayload(cache.Last())
			if derr != nil {
				r.Violation("payload-not-a-complete-document", -1, derr.Error(), nil)
				st.Close()
				return
			}
			for _, nm := range names {
				served := string(st.Secret(nm).Get())
				e := doc[nm]
				if e == nil || e.Secret == nil || string(e.Secret.Value) != served {
					held := "nothing"
					if e != nil && e.Secret != nil {
						held = fmt.Sprintf("version %d %q", e.Secret.Version, e.Secret.Value)
					}
					r.Violation("store-serves-what-the-cache-lacks", -1, fmt.Sprintf("case %d step %d: a poll (checks failing for %v; it reported %v) has returned; the store serves %q for %q, the cache holds %s: a process restarted from the cache while the service is away would go back to a replaced version", c, step, keysOf(failing), perr, served, nm, held), nil)
					st.Close()
					return
				}
			}
		}
		st.Close()
	}
}

func keysOf(m map[string]error) []string {
	var out []string
	for k := range m {
		out = append(out, k)
	}
	sort.Strings(out)
	return out
}

// failedStartUps: a start that never completes (one declared secret stays unavailable until the caller gives
// up) leaves the cache usable: whatever it wrote, if anything, is a complete document, and the next start that
// needs only what the cache already held succeeds with the service unreachable.
func failedStartUps(r *evid.Run) {
	for c := 0; c < 12; c++ {
		svc := fakesvc.New()
		svc.Set("alpha", 1, []byte("alpha-1"))
		svc.Set("beta", 1, []byte("beta-1"))
		svc.Behave = func(q *fakesvc.Req) fakesvc.Behaviour {
			if q.Name == "gamma" {
				return fakesvc.Behaviour{Fail: fakesvc.ErrInjected, Plain: true}
			}
			return fakesvc.Behaviour{}
		}
		good := []byte(`{"alpha":{"secret":{"Value":"YWxwaGEtMQ==","Version":1},"lastAccess":"0"}}`)
		cache := &fakesvc.MonCache{Initial: good}
		ctx, cancel := context.WithTimeout(context.Background(), time.Duration(20+10*c)*time.Millisecond)
		st, err := setec.NewStore(ctx, setec.StoreConfig{Client: svc, Secrets: []string{"alpha", "beta", "gamma"}, Cache: cache, PollInterval: -1, Logf: func(string, ...any) {}})
		cancel()
		r.Eval(1)
		r.Count("failed_start_ups", 1)
		if err == nil {
			st.Close()
			r.Violation("newstore-accepted-missing-secret", -1, "a start with an unavailable declared secret succeeded", nil)
			return
		}
		for i, w := range cache.Writes {
			if _, ok := wellFormed(w); !ok {
				r.Violation("payload-not-a-complete-document", -1, fmt.Sprintf("a start that never completed wrote cache payload #%d: %s", i, w), nil)
				return
			}
		}
		dead := fakesvc.New()
		dead.Behave = func(*fakesvc.Req) fakesvc.Behaviour { return fakesvc.Behaviour{Fail: fakesvc.ErrInjected, Plain: true} }
		doc, _ := cache.Read()
		ctx2, cancel2 := context.WithTimeout(context.Background(), 2*time.Second)
		st2, err := setec.NewStore(ctx2, setec.StoreConfig{Client: dead, Secrets: []string{"alpha"}, Cache: &fakesvc.MonCache{Initial: doc}, PollInterval: -1, Logf: func(string, ...any) {}})
		cancel2()
		if err != nil || string(st2.Secret("alpha").Get()) != "alpha-1" {
			r.Violation("restart-from-cache-fails", -1, fmt.Sprintf("the cache held alpha; a start needing alpha, beta and gamma never completed; now a start needing only alpha, service unreachable, fails: %v (cache: %s)", err, doc), nil)
			return
		}
		st2.Close()
	}
	r.Distinct("failed start-ups")
}

// expiredThenLookedUpAgain: a process inherits an undeclared secret from the cache of its predecessor, never
// asks for it, and the expiry rule removes it at a poll; the secret is rotated at the service; later the
// process looks it up after all. From then on every cache document holds the version the store serves.
func expiredThenLookedUpAgain(r *evid.Run) {
	for c := 0; c < 6; c++ {
		svc := fakesvc.New()
		svc.Set("svc/a", 1, []byte("a-1"))
		svc.Set("x/plum", 1, []byte("plum-version-1"))
		now := int64(1_700_000_000)
		clock := func() time.Time { return time.Unix(now, 0) }
		c1 := &fakesvc.MonCache{}
		p1, err := setec.NewStore(context.Background(), setec.StoreConfig{Client: svc, Secrets: []string{"svc/a"}, AllowLookup: true, Cache: c1, PollInterval: -1, TimeNow: clock, Logf: func(string, ...any) {}})
		if err != nil {
			r.Violation("newstore-fails", -1, err.Error(), nil)
			return
		}
		p1.LookupSecret(context.Background(), "x/plum")
		p1.Close()
		c2 := &fakesvc.MonCache{Initial: c1.Last()}
		p2, err := setec.NewStore(context.Background(), setec.StoreConfig{Client: svc, Secrets: []string{"svc/a"}, AllowLookup: true, Cache: c2, ExpiryAge: time.Hour, PollInterval: -1, TimeNow: clock, Logf: func(string, ...any) {}})
		if err != nil {
			r.Violation("newstore-fails", -1, err.Error(), nil)
			return
		}
		aver := uint32(1)
		bumpA := func() {
			aver++
			svc.Set("svc/a", aver, []byte(fmt.Sprintf("a-%d", aver)))
			p2.Refresh(context.Background())
		}
		for k := 0; k < c%3; k++ {
			bumpA() // some other flush while plum sits in the store unasked-for
		}
		now += 2 * 3600
		p2.Refresh(context.Background()) // plum (unread for two hours, no handle) is dropped here
		if c >= 3 {
			bumpA()
		}
		svc.Set("x/plum", 2, []byte("plum-version-2"))
		h, lerr := p2.LookupSecret(context.Background(), "x/plum")
		if lerr != nil {
			r.Violation("lookup-fails", -1, lerr.Error(), nil)
			p2.Close()
			return
		}
		check := func(when string) bool {
			r.Eval(1)
			r.Count("secrets_looked_up_again_after_expiry", 1)
			doc, derr := decodePayload(c2.Last())
			served := string(h.Get())
			if e := doc["x/plum"]; derr != nil || e == nil || e.Secret == nil || string(e.Secret.Value) != served {
				held := "nothing"
				if e != nil && e.Secret != nil {
					held = fmt.Sprintf("version %d %q", e.Secret.Version, e.Secret.Value)
				}
				r.Violation("store-serves-what-the-cache-lacks", -1, fmt.Sprintf("case %d, %s: x/plum was inherited from the previous process's cache, expired unasked-for, was rotated at the service and then looked up: the store serves %q, the cache document holds %s", c, when, served, held), nil)
				return false
			}
			return true
		}
		ok := check("right after the lookup")
		if ok {
			bumpA()
			ok = check("after a later poll that installed something else")
		}
		p2.Close()
		if ok {
			check("after the clean shutdown")
		}
	}
}
