package c13

import (
	"bytes"
	"encoding/json"
	"fmt"
	"os"
	"os/exec"
	"path/filepath"
	"runtime"
	"sync"
	"syscall"
	"testing"

	"verif/harness/internal/crashenum"
	"verif/harness/internal/evid"
	"verif/harness/internal/sysfault"
)

// crashPart enumerates every system call of a real FileCache.Write (replacing an existing document)
// as kill point, error point and short write (engine E5).
func crashPart(t *testing.T, r *evid.Run, tmp string) {
	if err := sysfault.Supported(); err != nil {
		t.Fatalf("sysfault unsupported: %v", err)
	}
	child, err := crashenum.BuildChild(tmp, "./cmd/cachechild")
	if err != nil {
		t.Fatal(err)
	}
	type pair struct {
		name     string
		old, new []byte
	}
	small := func(v string, n int) []byte {
		b, _ := json.Marshal(map[string]any{"k/a": map[string]any{"secret": map[string]any{"Value": bytes.Repeat([]byte(v), n), "Version": 3}, "lastAccess": "1700000000"}})
		return b
	}
	pairs := []pair{{"small", small("old", 4), small("new", 9)}, {"first-write", nil, small("new", 3)}}
	if r.Thorough() {
		pairs = append(pairs, pair{"shrink", small("old", 400000), small("new", 2)}, pair{"grow-to-megabytes", small("old", 2), small("new", 900000)}, pair{"same-size", small("old", 10), small("new", 10)})
	} else {
		pairs = append(pairs, pair{"shrink", small("old", 30000), small("new", 2)})
	}
	type job struct {
		p  pair
		f  sysfault.Fault
		ev sysfault.Event
	}
	run := func(dir string, p pair, f sysfault.Fault) (*sysfault.Result, map[string]any, error) {
		os.RemoveAll(dir)
		os.MkdirAll(dir, 0o700)
		live := filepath.Join(dir, "cache.json")
		if p.old != nil {
			os.WriteFile(live, p.old, 0o600)
		}
		newDoc := dir + ".new.json"
		os.WriteFile(newDoc, p.new, 0o600)
		defer os.Remove(newDoc)
		old := syscall.Umask(0)
		res, err := sysfault.Run([]string{child, live, newDoc}, append(os.Environ(), "GOMAXPROCS=2"), dir, f, crashenum.Timeout)
		syscall.Umask(old)
		var rep map[string]any
		if res != nil {
			json.Unmarshal(bytes.TrimSpace(res.Stdout), &rep)
		}
		return res, rep, err
	}
	var jobs []job
	for pi, p := range pairs {
		dir := filepath.Join(tmp, fmt.Sprintf("cprep%d", pi))
		res, rep, err := run(dir, p, sysfault.Fault{})
		if err != nil || rep == nil || rep["ok"] != true {
			t.Fatalf("cache crash part %s: fault-free pass failed: %v %v %s", p.name, err, rep, res.Stderr)
		}
		live := filepath.Join(dir, "cache.json")
		var trace []string
		for _, e := range res.Events {
			trace = append(trace, e.String())
		}
		r.Eval(1)
		for _, c := range crashenum.Protocol(res.Events, live) {
			r.Violation("cache-protocol", -1, fmt.Sprintf("FileCache.Write (%s): %s", p.name, c), map[string]any{"trace": trace})
		}
		if got, _ := os.ReadFile(live); !bytes.Equal(got, p.new) {
			r.Violation("cache-write-wrong-content", -1, "FileCache.Write reported success but the file does not hold the new document", nil)
		}
		if st, err := os.Stat(live); err == nil && st.Mode().Perm() != 0o600 {
			r.Violation("filecache-mode", -1, fmt.Sprintf("cache file mode %o (umask 0), want 0600", st.Mode().Perm()), nil)
		}
		if pi == 0 {
			r.Sample(map[string]any{"filecache_write_trace": trace})
		}
		for _, f := range crashenum.Faults(res.Events, r.Thorough()) {
			jobs = append(jobs, job{p, f, res.Events[f.At-1]})
		}
		os.RemoveAll(dir)
	}
	var wg sync.WaitGroup
	jc := make(chan job)
	for w := 0; w < runtime.NumCPU(); w++ {
		wg.Add(1)
		go func(w int) {
			defer wg.Done()
			dir := filepath.Join(tmp, fmt.Sprintf("cw%d", w))
			for j := range jc {
				res, rep, err := run(dir, j.p, j.f)
				r.Eval(1)
				what := fmt.Sprintf("FileCache.Write (%s), %s at call %s", j.p.name, crashenum.FaultString(j.f), j.ev)
				if err != nil || !res.FaultFired {
					r.Inconclusive(what + ": fault point not reached")
					continue
				}
				live := filepath.Join(dir, "cache.json")
				var trace []string
				for _, e := range res.Events {
					trace = append(trace, e.String())
				}
				detail := map[string]any{"trace": trace, "report": rep}
				r.Distinct(fmt.Sprintf("cache/%s/%s/%s", j.p.name, j.ev.Name, j.f.Kind))
				for _, c := range crashenum.InPlace(res.Events, live) {
					r.Violation("cache-written-in-place", -1, what+": "+c, detail)
				}
				got, rerr := os.ReadFile(live)
				isOld := (j.p.old == nil && rerr != nil) || (j.p.old != nil && bytes.Equal(got, j.p.old))
				isNew := rerr == nil && bytes.Equal(got, j.p.new)
				if st, err := os.Stat(live); err == nil && st.Mode().Perm() != 0o600 {
					r.Violation("filecache-mode", -1, fmt.Sprintf("%s: cache file mode %o (umask 0), want 0600", what, st.Mode().Perm()), detail)
				}
				switch j.f.Kind {
				case sysfault.KillBefore, sysfault.KillAfter, sysfault.ShortKill:
					r.Count("crash_points", 1)
					if !isOld && !isNew {
						r.Violation("cache-crash-leaves-bad-file", -1, fmt.Sprintf("%s: after the kill the cache file (%d bytes) is neither the old nor the new document", what, len(got)), detail)
					}
					// the next process starts in the same directory, whatever the killed one left there, and its first
					// cache write is a SHORTER document: afterwards the file is exactly that document
					short := small("s", 1)
					sp := dir + ".short.json"
					os.WriteFile(sp, short, 0o600)
					out, xerr := exec.Command(child, live, sp).CombinedOutput()
					os.Remove(sp)
					r.Count("writes_after_a_killed_write", 1)
					// (xerr is not a verdict: the tracer threads of other workers may reap this child's exit status first)
					if after, _ := os.ReadFile(live); !bytes.Equal(after, short) {
						r.Violation("cache-write-after-crash-corrupts", -1, fmt.Sprintf("%s: the next process wrote a %d-byte document over the leftovers; the cache file now holds %d bytes that are not that document (child: %v %s)", what, len(short), len(after), xerr, bytes.TrimSpace(out)), detail)
					}
				default:
					r.Count("io_errors_injected", 1)
					switch {
					case rep == nil:
						r.Violation("cache-child-crashed", -1, what+": the writing process died: "+string(res.Stderr), detail)
					case rep["ok"] == true:
						if !isNew {
							r.Violation("cache-write-wrong-content", -1, what+": Write reported success but the file does not hold the new document", detail)
						}
					default:
						// Write reported the error; the child then retried successfully, so the file may hold the
						// new document by now. It must never be a third thing.
						if !isOld && !isNew {
							r.Violation("cache-error-damages-file", -1, fmt.Sprintf("%s: Write reported %v and the file (%d bytes) is neither the old nor the new document", what, rep["err"], len(got)), detail)
						}
						if rep["retry_ok"] != true {
							r.Violation("cache-error-then-stuck", -1, what+": a later Write does not succeed", detail)
						}
					}
				}
			}
		}(w)
	}
	for _, j := range jobs {
		jc <- j
	}
	close(jc)
	wg.Wait()
}
